"""Renamed functions.  The rules name the functions they read (`RawVector::set_unused_bits`, `SparseBuilder::get_buckets`, ..);
a function the pinned tree has under one name and the analysed tree has, unchanged, under another is the same function.  The
pinned tree's functions are fingerprinted (signature + the sequence of statement / terminator kinds, callees and constants of the
MIR body, spans and local numbering aside) in baseline_shapes.json (tools/gen_baseline_shapes.py).  When a baseline name is
missing from the analysed tree and exactly one function that the pinned tree does not have sits in the same impl / module with the
same signature and the same fingerprint, the facts are rewritten to the old name -- bodies, item tables and every call site --
before any rule runs.  Anything less than an exact structural match is not a rename and is left alone."""
import hashlib
import json
import os

HERE = os.path.dirname(os.path.abspath(__file__))
SHAPES = os.path.join(HERE, "baseline_shapes.json")
_cache = {}


def shapes():
    if "s" not in _cache:
        _cache["s"] = json.load(open(SHAPES)) if os.path.exists(SHAPES) else None
    return _cache["s"]


def _skel(x, own):
    """Structure of a MIR JSON fragment without spans, local numbers, block numbers and the function's own name."""
    if isinstance(x, dict):
        out = []
        for k in sorted(x):
            if k in ("sp", "fn_span", "span", "l", "idx", "target", "otherwise", "unwind", "targets", "name", "inlined_from", "dbg", "exp", "cleanup"):
                continue
            v = x[k]
            if isinstance(v, str):
                v = v.replace(own, "SELF")
            out.append((k, _skel(v, own) if not isinstance(v, str) else v))
        return tuple(out)
    if isinstance(x, list):
        return tuple(_skel(v, own) for v in x)
    if isinstance(x, str):
        return x.replace(own, "SELF")
    return x


def fingerprint(raw, fn_info):
    own = raw["def"]
    blocks = [(tuple(_skel(st, own) for st in b["stmts"]), _skel(b["term"], own)) for b in raw["mir"]["blocks"]]
    tys = tuple(l["ty"].get("s", "?") for l in raw["mir"]["locals"][: raw["mir"]["arg_count"] + 1])
    sig = (fn_info or {}).get("sig", "")
    return hashlib.sha1(repr((sig, tys, blocks)).encode()).hexdigest()


def parent(name):
    return name.rsplit("::", 1)[0] if "::" in name else ""


def apply(data):
    """Rewrites data (the driver's JSON) in place; returns {new name: old name}."""
    sh = shapes()
    if not sh:
        return {}
    sh = sh.get(data.get("_config") or "native") or sh.get("native")
    if not sh:
        return {}
    have = {}
    for b in data["bodies"]:
        have.setdefault(b["def"], []).append(b)
    fns = {f["def"]: f for f in data["fns"]}
    missing = [n for n in sh if n not in have and "{closure" not in n]
    if not missing:
        return {}
    new = [n for n in have if n not in sh and "{closure" not in n and "{constant" not in n and len(have[n]) == 1]
    ren = {}
    for n in new:
        fp = fingerprint(have[n][0], fns.get(n))
        cands = [o for o in missing if parent(o) == parent(n) and sh[o] == fp]
        if len(cands) == 1 and cands[0] not in ren.values():
            ren[n] = cands[0]
    # second pass -- renamed *and* edited: a baseline function is gone, and exactly one function the pinned tree does not have
    # sits in the same impl / module with the same signature, while no other missing function of that impl has that signature.
    # It is then read under the old name, and the rules judge its new body on its merits.
    sigs = _cache.get("sigs") or {}
    if not sigs and os.path.exists(SHAPES.replace("baseline_shapes", "baseline_sigs")):
        sigs = _cache["sigs"] = json.load(open(SHAPES.replace("baseline_shapes", "baseline_sigs")))
    left_missing = [o for o in missing if o not in ren.values()]
    left_new = [n for n in new if n not in ren]
    for o in left_missing:
        so = sigs.get(o)
        if not so:
            continue
        cn = [n for n in left_new if parent(n) == parent(o) and (fns.get(n) or {}).get("sig") == so and n not in ren]
        co = [x for x in left_missing if parent(x) == parent(o) and sigs.get(x) == so]
        if len(cn) == 1 and len(co) == 1:
            ren[cn[0]] = o
    if not ren:
        return {}

    def fix(x):
        if isinstance(x, dict):
            return {k: fix(v) for k, v in x.items()}
        if isinstance(x, list):
            return [fix(v) for v in x]
        if isinstance(x, str):
            for n, o in ren.items():
                if x == n:
                    return o
                if x.startswith(n + "::{"):
                    return o + x[len(n):]
            return x
        return x
    for key in ("bodies", "fns", "impls"):
        data[key] = fix(data[key])
    data["_renamed"] = ren
    return ren


ADTS = os.path.join(HERE, "baseline_adts.json")


def apply_fields(data):
    """Renamed private fields.  A struct of the crate that keeps its fields' types and order but not their names is the same
    struct: projections, aggregates and the item table are rewritten to the names the rules know (by position)."""
    if not os.path.exists(ADTS):
        return {}
    base = _cache.get("adts")
    if base is None:
        base = _cache["adts"] = json.load(open(ADTS))
    ren = {}
    for a in data.get("adts", []):
        b = base.get(a["def"])
        if not b or a.get("kind") != "Struct" or len(a["variants"]) != 1:
            continue
        cur = a["variants"][0]["fields"]
        if len(cur) != len(b) or [f["name"] for f in cur] == [f[0] for f in b]:
            continue
        if [f["ty"].get("s") for f in cur] != [f[1] for f in b]:
            continue
        # the same types in the same order under other names; ambiguous only if two fields of one type swapped names, which a
        # positional reading resolves the way the constructor does
        ren[a["def"]] = {i: (cur[i]["name"], b[i][0]) for i in range(len(b)) if cur[i]["name"] != b[i][0]}
        for i, f in enumerate(cur):
            f["name"] = b[i][0]
    if not ren:
        return {}

    def fix(x):
        if isinstance(x, dict):
            if x.get("adt") in ren and isinstance(x.get("f"), int) and x["f"] in ren[x["adt"]]:
                x = dict(x, name=ren[x["adt"]][x["f"]][1])
            if x.get("r") == "agg" and x.get("def") in ren and isinstance(x.get("fields"), list):
                m_ = {old: new for (old, new) in ren[x["def"]].values()}
                x = dict(x, fields=[m_.get(n, n) for n in x["fields"]])
            return {k: fix(v) for k, v in x.items()}
        if isinstance(x, list):
            return [fix(v) for v in x]
        return x
    data["bodies"] = fix(data["bodies"])
    data["_renamed_fields"] = {k: {str(i): v for i, v in d.items()} for k, d in ren.items()}
    return ren


CONSTS = os.path.join(HERE, "baseline_consts.json")


def apply_consts(data):
    """Renamed private constants.  A constant of the pinned tree that is gone, while exactly one constant the pinned tree does not
    have sits in the same impl / module with the same type and the same evaluated value (and no other missing constant of that
    impl has that type and value), is the same constant: the item table and every use are rewritten to the old name."""
    if not os.path.exists(CONSTS):
        return {}
    base = _cache.get("consts")
    if base is None:
        base = _cache["consts"] = json.load(open(CONSTS))
    have = {c["def"]: c for c in data.get("consts", [])}
    missing = [n for n in base if n not in have]
    new = [n for n in have if n not in base and have[n].get("vis") not in ("pub", "public")]
    ren = {}
    def users(name):
        needle = json.dumps(name)
        return sorted(set(b["def"] for b in data["bodies"] if needle in json.dumps(b)))
    for o in missing:
        ty, val = base[o][:2]
        cn = [n for n in new if parent(n) == parent(o) and have[n].get("ty") == ty and have[n].get("value") == val and val is not None]
        co = [x for x in missing if parent(x) == parent(o) and base[x][:2] == [ty, val]]
        if len(cn) == 1 and len(co) == 1:
            ren[cn[0]] = o
    # renamed *and* given another value: exactly one constant of the impl is gone and exactly one of that type is new -- read under
    # the old name, so that the rules judge the new value
    for o in missing:
        if o in ren.values():
            continue
        ty = base[o][0]
        cn = [n for n in new if n not in ren and parent(n) == parent(o) and have[n].get("ty") == ty]
        co = [x for x in missing if x not in ren.values() and parent(x) == parent(o) and base[x][0] == ty]
        # (and the functions that read it are the ones that read the old one: otherwise it is a new constant beside a removed one)
        if len(cn) == 1 and len(co) == 1 and (len(base[o]) < 3 or users(cn[0]) == base[o][2]):
            ren[cn[0]] = o
    if not ren:
        return {}

    def fix(x):
        if isinstance(x, dict):
            return {k: fix(v) for k, v in x.items()}
        if isinstance(x, list):
            return [fix(v) for v in x]
        if isinstance(x, str):
            return ren.get(x, x)
        return x
    data["consts"] = fix(data["consts"])
    data["bodies"] = fix(data["bodies"])
    data["_renamed_consts"] = ren
    return ren


STATICS = os.path.join(HERE, "baseline_statics.json")


def apply_statics(data):
    """Renamed private statics: the same reading as for constants, by module, type and mutability (a static has no evaluated value
    in the facts; the rules that read it judge its uses, which are rewritten with it)."""
    if not os.path.exists(STATICS):
        return {}
    base = _cache.get("statics")
    if base is None:
        base = _cache["statics"] = json.load(open(STATICS))
    have = {s["def"]: s for s in data.get("statics", [])}
    missing = [n for n in base if n not in have]
    new = [n for n in have if n not in base]
    ren = {}
    def users(name):
        needle = json.dumps(name)
        return sorted(set(b["def"] for b in data["bodies"] if needle in json.dumps(b)))
    for o in missing:
        sig = base[o][:2]
        cn = [n for n in new if parent(n) == parent(o) and [have[n]["ty"].get("s"), bool(have[n].get("mut"))] == sig]
        co = [x for x in missing if parent(x) == parent(o) and base[x][:2] == sig]
        # ... and it is used by the functions that used the old one: a new static of the same type that something else reads
        # (a per-thread tag drawn from a fresh global counter) is another static, not the old one under a new name
        if len(cn) == 1 and len(co) == 1 and (len(base[o]) < 3 or users(cn[0]) == base[o][2]):
            ren[cn[0]] = o
    if not ren:
        return {}

    def fix(x):
        if isinstance(x, dict):
            return {k: fix(v) for k, v in x.items()}
        if isinstance(x, list):
            return [fix(v) for v in x]
        if isinstance(x, str):
            return ren.get(x, x)
        return x
    data["statics"] = fix(data["statics"])
    data["bodies"] = fix(data["bodies"])
    data["_renamed_statics"] = ren
    return ren
