"""C01 -- plain bitvector answers (narrow, structural part): necessary conditions only.

 R1 geometry constants of the rank/select support structures are mutually consistent; the loader validates with the builders' constants
 R2 twins: the checked/unchecked select, the complement word accessors and the ones/zeros query wrappers are isomorphic modulo their
    documented difference (the public API only runs the unchecked twins, and the suite never reaches the long-superblock branch)
 R3 the cached count of set bits is computed from the very data it is stored with
 R4 producer/consumer agreement of the select support layout (offsets relative to the stored sample; tag parity)
"""
from facts import Undecided, loc, tstr, callee_name, subterms, operand_place
from guards import facts_at, strip_casts
from pat import m, Bind, ANY, Call, Bin, Const, Param, SelfField, core, self_path
from c06 import root_local
import twins

META = {
    "level": "other",
    "technique": "static analysis: evaluated-constant relations, MIR isomorphism of twin implementations modulo a named substitution, provenance of the cached count, store/read agreement of the select layout, raw-value propagation from the BitVector query entry points (rustc_private driver; bodies normalised by helper inlining and combinator expansion)",
    "explanation": "The arithmetic of rank/select is not decided. What is decided are five necessary conditions the test suite cannot see: "
                   "(1) the sampling constants (block, superblock, masks, relative-rank packing) satisfy the relations the algorithms assume, "
                   "and BitVector::load validates with the same constants; (2) each pair of twin implementations -- SelectSupport::select "
                   "vs select_unchecked, Complement::word vs word_unchecked, BitVector::{select, select_iter, one_iter} vs their zero "
                   "counterparts -- is MIR-isomorphic modulo the documented substitution, so a one-sided edit (the long-superblock branch "
                   "is never reached by the suite) is reported with the two diverging statements; (3) every BitVector outside load stores "
                   "ones = count_ones() of the same data; (4) what SelectSupport::new stores and what select() reads agree: offsets in "
                   "long/short are relative to the position sample pushed for the superblock, and the long/short tag parity is written "
                   "and tested alike; (5) the arguments of the BitVector queries reach no unguarded checked arithmetic, panic edge or "
                   "unwrap (raw-value propagation from the BitVector entry points), so `for every argument` cannot fail by overflow.",
    "trusted_base": ["rustc's MIR and constant evaluation"],
    "assumptions": ["an edit applied identically to both twins is not detected by R2 (stated limit)"],
}

SS = "bit_vector::select_support::SelectSupport::<T>::"
RS = "bit_vector::rank_support::RankSupport::"
ZERO = [("Complement", "Identity"), ("SelectZero", "Select"), ("select_zero", "select"), ("zero_iter", "one_iter"), ("ZeroIter", "OneIter")]
TWINS = [
    (SS + "select", SS + "select_unchecked", [("word_unchecked", "word")], "checked vs unchecked word access only"),
    ("<bit_vector::Complement as bit_vector::Transformation>::word", "<bit_vector::Complement as bit_vector::Transformation>::word_unchecked", [("word_unchecked", "word")], "checked vs unchecked word access only"),
    ("<bit_vector::BitVector as ops::Select<'a>>::select", "<bit_vector::BitVector as ops::SelectZero<'a>>::select_zero", ZERO, "Identity vs Complement and the support field"),
    ("<bit_vector::BitVector as ops::Select<'a>>::select_iter", "<bit_vector::BitVector as ops::SelectZero<'a>>::select_zero_iter", ZERO, "Identity vs Complement and the support field"),
    ("<bit_vector::BitVector as ops::Select<'a>>::one_iter", "<bit_vector::BitVector as ops::SelectZero<'a>>::zero_iter", ZERO, "Identity vs Complement"),
    ("<bit_vector::BitVector as ops::Select<'a>>::enable_select", "<bit_vector::BitVector as ops::SelectZero<'a>>::enable_select_zero", ZERO, "Identity vs Complement and the support field"),
    ("<bit_vector::BitVector as ops::Select<'a>>::supports_select", "<bit_vector::BitVector as ops::SelectZero<'a>>::supports_select_zero", ZERO, "the support field"),
]


def pow2(x):
    return x > 0 and x & (x - 1) == 0


def check(ctx):
    configs = ["native", "portable"] if ctx.tier == "quick" else ["native", "portable", "native-rel", "portable-rel"]
    for cfg in configs:
        check_config(ctx, ctx.facts(cfg), "@" + cfg)


def check_config(ctx, F, tag):
    c = F.const
    sb, sm, bis, bs, bm = c(SS + "SUPERBLOCK_SIZE"), c(SS + "SUPERBLOCK_MASK"), c(SS + "BLOCKS_IN_SUPERBLOCK"), c(SS + "BLOCK_SIZE"), c(SS + "BLOCK_MASK")
    ok = pow2(sb) and pow2(bs) and sm == sb - 1 and bm == bs - 1 and bis * bs == sb and bs == c("bits::WORD_BITS")
    ctx.ob("C01.R1.select-geometry", "SelectSupport" + tag, "src/bit_vector/select_support.rs", ok, "constant-relations",
           "SUPERBLOCK_SIZE=%d MASK=%d BLOCKS_IN_SUPERBLOCK=%d BLOCK_SIZE=%d BLOCK_MASK=%d: masks = size-1, blocks*block = superblock, powers of two, block = one word" % (sb, sm, bis, bs, bm))
    rb, rbits, rmask, wpb, wmask = c(RS + "BLOCK_SIZE"), c(RS + "RELATIVE_RANK_BITS"), c(RS + "RELATIVE_RANK_MASK"), c(RS + "WORDS_PER_BLOCK"), c(RS + "WORD_MASK")
    ok = wpb * c("bits::WORD_BITS") == rb and wmask == wpb - 1 and pow2(wpb) and rmask == (1 << rbits) - 1 and (1 << rbits) >= rb and (wpb - 1) * rbits <= 64
    ctx.ob("C01.R1.rank-geometry", "RankSupport" + tag, "src/bit_vector/rank_support.rs", ok, "constant-relations",
           "BLOCK_SIZE=%d WORDS_PER_BLOCK=%d WORD_MASK=%d RELATIVE_RANK_BITS=%d MASK=%d: words*64 = block, mask = 2^bits-1, 2^bits >= block, 7 relative ranks fit in 64 bits" % (rb, wpb, wmask, rbits, rmask))
    # the loader validates with the builders' constants
    lb = F.body("<bit_vector::BitVector as serialize::Serialize>::load")
    used = set()
    for bi, t in lb.calls():
        if callee_name(t) == "bits::div_round_up":
            for x in subterms(lb.term_of_operand(t["args"][1])):
                if x[0] == "const" and len(x) > 2:
                    used.add(x[2])
                if x[0] == "namedconst":
                    used.add(x[1])
    want = {RS + "BLOCK_SIZE", SS + "SUPERBLOCK_SIZE"}
    ctx.ob("C01.R1.loader-uses-builder-constants", lb.name + tag, loc(lb.raw["span"]), want <= {u.replace("bit_vector::Identity", "T").replace("bit_vector::Complement", "T") for u in used} or want <= used, "constant-provenance",
           "block counts validated with %s" % sorted(used))
    nb = F.body(RS + "new")
    nsb = F.body(SS + "new")
    for b, cs in ((nb, {RS + "BLOCK_SIZE", RS + "WORDS_PER_BLOCK", RS + "RELATIVE_RANK_BITS"}), (nsb, {SS + "SUPERBLOCK_SIZE", SS + "BLOCK_SIZE"})):
        seen = set()
        for bi, si, st in b.stmts():
            if st["s"] == "assign":
                for x in subterms(b.term_of_rvalue(st["rv"])):
                    if x[0] == "const" and len(x) > 2:
                        seen.add(x[2])
                    if x[0] == "namedconst":
                        seen.add(x[1])
        for bi, t in b.calls():
            for a in t["args"]:
                for x in subterms(b.term_of_operand(a)):
                    if x[0] == "const" and len(x) > 2:
                        seen.add(x[2])
                    if x[0] == "namedconst":
                        seen.add(x[1])
        ctx.ob("C01.R1.builder-uses-named-constants", b.name + tag, loc(b.raw["span"]), cs <= seen, "constant-provenance", "builder refers to %s" % sorted(x.split("::")[-1] for x in seen & cs), nontrivial=False)

    # ---------------- R2 twins
    for a, b_, subst, what in TWINS:
        A, B = F.body(a), F.body(b_)
        # one twin may simply delegate to the other with its own parameters (then they agree by construction)
        dele = None
        for X, Y in ((A, B), (B, A)):
            calls = [t for _, t in X.calls() if callee_name(t) == Y.name]
            if len(calls) == 1 and all(core(X.term_of_operand(arg))[:2] == ("param", i) for i, arg in enumerate(calls[0]["args"])) and \
                    (calls[0]["dest"]["l"] == 0 or core(X.term_of_local(0)) == core(X.term_of_call(calls[0]))):
                dele = "%s delegates to %s with its own parameters" % (X.name.split("::")[-1], Y.name.split("::")[-1])
        if dele:
            ctx.ob("C01.R2.twins-isomorphic", "%s ~ %s%s" % (a.split("::")[-1], b_.split("::")[-1], tag), loc(A.raw["span"]), True, "delegation", dele)
            continue
        ok, info = twins.compare(A, B, subst)
        ctx.ob("C01.R2.twins-isomorphic", "%s ~ %s%s" % (a.split("::")[-1], b_.split("::")[-1], tag), loc(A.raw["span"]), ok, "mir-isomorphism",
               ("isomorphic modulo %s (%d statements/terminators compared)" % (what, info)) if ok else ("twins diverge (allowed difference: %s): %s" % (what, info)), positive=ok is False)
    ctx.count("twin-pairs" + tag, len(TWINS))

    # ---------------- R3 cached count
    n = 0
    for b in F.all_bodies():
        for bi, si, st in b.stmts():
            if st["s"] == "assign" and st["rv"]["r"] == "agg" and st["rv"].get("def") == "bit_vector::BitVector":
                if "Clone" in b.name:
                    continue
                n += 1
                ops = dict(zip(st["rv"]["fields"], st["rv"]["ops"]))
                if b.name == "<bit_vector::BitVector as serialize::Serialize>::load":
                    fs = facts_at(b, bi)
                    ones = strip_casts(b.term_of_operand(ops["ones"]))
                    ok = any(f[0] == "cmp" and ((f[1] == "Le" and strip_casts(f[2]) == ones and m(Call(lambda n_: n_.endswith("::len"), ANY), f[3])) or
                                                (f[1] == "Ge" and strip_casts(f[3]) == ones and m(Call(lambda n_: n_.endswith("::len"), ANY), f[2]))) for f in fs)
                    ctx.ob("C01.R3.cached-count", b.name + tag, loc(st["sp"]), ok, "guard-dominance", "loaded ones is validated against data.len() (ones > len -> Err): %s" % ok)
                else:
                    data_root = root_local(b, ops["data"])
                    ot = core(b.term_of_operand(ops["ones"]))
                    ok = ot[0] == "call" and ot[1] == "raw_vector::RawVector::count_ones"
                    if ok:
                        from facts import resolve_ref_local
                        # the receiver of count_ones is the local that becomes `data`
                        calls = [t for _, t in b.calls() if callee_name(t) == "raw_vector::RawVector::count_ones"]
                        ok = len(calls) == 1 and resolve_ref_local(b, calls[0]["args"][0]) is not None and root_local(b, {"l": resolve_ref_local(b, calls[0]["args"][0]), "p": []}) == data_root
                        # and no mutation of data between the count and the aggregate
                    if not ok:
                        # the count stored after the value is built (`BitVector { ones: 0, data, .. }; v.ones = v.data.count_ones()`):
                        # every path from the aggregate to the return passes a store of count_ones(<the value>.data) into .ones
                        from effects import field_store_blocks
                        from guards import must_pass_through
                        later = []
                        for sbi, ssi, sst in field_store_blocks(b, "bit_vector::BitVector", "ones"):
                            tt = core(b.term_of_rvalue(sst["rv"]))
                            if tt[0] == "call" and tt[1] == "raw_vector::RawVector::count_ones" and any(x[0] == "field" and x[2] == "data" for x in subterms(tt)) and \
                                    (sbi == bi or b.dominates(bi, sbi)):
                                later.append(sbi)
                        if later and (bi in later or must_pass_through(b, bi, later)):
                            ok = True
                    ctx.ob("C01.R3.cached-count", b.name + tag, loc(st["sp"]), ok, "term-provenance", "ones = count_ones() of the local that becomes data: %s" % ok)
    ctx.count("bitvector-aggregates" + tag, n)
    ctx.floor("bitvector-aggregates" + tag, 2)
    check_select_layout(ctx, F, tag)
    check_rank_layout(ctx, F, tag)
    # R5: "for every argument" -- the query arguments of the plain bitvector reach no unguarded arithmetic / unwrap (A3, restricted to
    # the BitVector entry points; the same analysis decides C09 for all types)
    import c09
    entries, an = c09.run_analysis(F)
    for fn in sorted(entries):
        if fn.startswith("<bit_vector::BitVector as ops::"):
            alarms = [k for k, a in an.alarms.items() if a["fn"] == fn or (a.get("chain") or "").endswith(fn + " (arg 1) <- <entry>")]
            alarms = [k for k in alarms if not any(k.startswith(p) for p in c09.EXEMPT)]
            ctx.ob("C01.R5.query-argument-bounded", fn + tag, loc(F.body(fn).raw["span"]), not alarms, "raw-value-propagation",
                   "the argument reaches no unguarded arithmetic or unwrap: %s" % (alarms or "ok"))
            ctx.count("bitvector-query-entries" + tag)
    ctx.floor("bitvector-query-entries" + tag, 6)
    c09.check_returned_arguments(ctx, F, tag, "C01.R5.returned-argument-bounded", lambda fn: fn.startswith("<bit_vector::BitVector as ops::"))
    # R6: RankSupport::new scans the words of the vector: the word count it clamps its per-block loop with is the number of words
    # of a vector of parent.len() bits. Reported only for the two classic wrong counts (`len / 64 + 1`, `len / 64`); rounding-up
    # forms (bits_to_words, div_round_up, (len + 63) / 64, the length of the word array) are accepted, others left undecided-silent.
    rb = F.body("bit_vector::rank_support::RankSupport::new")
    wrong = []
    nsub = 0
    for bi, si, st in rb.stmts():
        if st["s"] == "assign" and st["rv"]["r"] == "bin" and st["rv"]["op"].startswith("Sub"):
            a = core(rb.term_of_operand(st["rv"]["a"]))
            bt = core(rb.term_of_operand(st["rv"]["b"]))
            if bt[0] == "bin" and bt[1] == "Mul" and any(core(x)[0] == "const" and len(core(x)) > 2 and str(core(x)[2]).endswith("WORDS_PER_BLOCK") for x in (bt[2], bt[3])):
                nsub += 1
                is_len = lambda t: core(t)[0] == "call" and core(t)[1].endswith("::len") and core(core(t)[2][0])[:2] == ("param", 0)
                floor_div = lambda t: core(t)[0] == "bin" and core(t)[1] in ("Div", "Shr") and is_len(core(t)[2]) and core(core(t)[3])[0] == "const" and core(core(t)[3])[1] in (64, 6)
                if floor_div(a) or (a[0] == "bin" and a[1] == "Add" and ((floor_div(a[2]) and core(a[3])[:2] == ("const", 1)) or (floor_div(a[3]) and core(a[2])[:2] == ("const", 1)))):
                    wrong.append((tstr(a)[:60], loc(st["sp"])))
                else:
                    # any other spelling: compared with bits_to_words(len) over the residues of len (A13); only a refutation counts
                    import residues
                    r_, why = residues.agrees(F, a, is_len, lambda N: residues.call("bits::bits_to_words", N))
                    if r_ is False:
                        wrong.append((tstr(a)[:60] + " -- " + why, loc(st["sp"])))
    ctx.ob("C01.R6.rank-support-word-count", rb.name + tag, loc(rb.raw["span"]), not wrong, "term-shape",
           "%d `words - block * WORDS_PER_BLOCK` clamps; word count that is a truncating division of the bit length (+1): %s" % (nsub, wrong), nontrivial=False)
    # R7/R8 (borrowed): the in-word select both select paths end in (C17.R3, this configuration's arm), and the enable_* guards --
    # "with the needed support enabled" must not depend on the order in which supports were enabled (C19.R1)
    from core import Relabel
    import c17, c19
    c17.check_config(Relabel(ctx, {"C17.R3.select-arm": "C01.R7.in-word-select"}), F, tag, "portable" if "portable" in tag else "native")
    c19.check_config(Relabel(ctx, {"C19.R1.enable-only-when-absent": "C01.R8.enable-only-when-absent"}), F, tag)
    # R9 (borrowed): the contracts of the unchecked rank / select / word reads the plain bitvector's queries and iterators end in --
    # the right support structure for the transformation, a rank below the count, an index below the length -- are discharged at
    # every call site in bit_vector (C08.R1 restricted to that module): a query that reaches an unchecked read outside its contract
    # returns a wrong answer before it is a memory-safety problem
    import c08
    rl = Relabel(ctx, {"C08.R1.unsafe-site-discharged": ("C01.R9.unchecked-query-contract", lambda k: k.startswith(("<bit_vector::", "bit_vector::")))})
    c08.check_width_fields(rl, F, tag)
    c08.ledger(rl, F, tag)
    # (borrowed) "built from B by any public route (raw vector ..)": From<RawVector> counts set bits over whole words, so the cached
    # count is the number of set bits of B only while the bits past the end of the raw vector are zero (C05.R1)
    import c05
    c05.check_tail_invariant(Relabel(ctx, {"C05.R1.tail-cleared-after-trigger": "C01.R3.raw-vector-tail-cleared"}), F, tag)
    # ... and for the same reason while no word survives past the end (a pop that trims the words before it lowers the length), while
    # growing with `true` fills the rest of the last word, and while an integer written into the raw vector stays inside its field
    c05.check_word_count(ctx, F, tag, rule="C01.R3.raw-vector-word-count")
    c05.check_grow_fill(ctx, F, tag, prefix="C01.R3.raw-vector")
    c05.check_write_int(Relabel(ctx, {"C01.R3w.value-masked-before-store": "C01.R3.raw-vector-write-stays-in-field"}), F, tag, prefix="C01.R3w")
    co = F.body("<bit_vector::BitVector as ops::BitVec<'a>>::count_ones")
    ctx.ob("C01.R3.count-ones-is-cached-field", co.name + tag, loc(co.raw["span"]), self_path(co.term_of_local(0)) == ["ones"], "term-shape", "count_ones() = %s" % tstr(co.term_of_local(0)), nontrivial=False)
    ln = F.body("<bit_vector::BitVector as ops::BitVec<'a>>::len")
    ctx.ob("C01.R3.len-is-data-len", ln.name + tag, loc(ln.raw["span"]), m(Call("raw_vector::RawVector::len", SelfField("data")), ln.term_of_local(0)), "term-shape", "len() = %s" % tstr(ln.term_of_local(0)), nontrivial=False)


def check_rank_layout(ctx, F, tag):
    """The rank query reads what RankSupport::new stores, operand by operand: the sample of block index / BLOCK_SIZE; the relative
    rank slot of word w of the block, which is slot (w + WORDS_PER_BLOCK - 1) mod WORDS_PER_BLOCK (the builder fills slot k with
    the ones through word k, i.e. the rank at the start of word k + 1, and clears the last slot), RELATIVE_RANK_BITS wide; and
    the ones of word index / 64 below bit index % 64.  Three addends, each tied to the query index.  A shape the rule cannot
    find is undecided; a found shape with another operand is a violation (right for the first block / word only, which is
    where every test lives)."""
    from guards import linear
    from pat import fold_consts
    RS = "bit_vector::rank_support::RankSupport::"
    try:
        BS, WPB, WM, RRB, RRM = (F.const(RS + n) for n in ("BLOCK_SIZE", "WORDS_PER_BLOCK", "WORD_MASK", "RELATIVE_RANK_BITS", "RELATIVE_RANK_MASK"))
    except Undecided:
        return
    # the builder's half: slot k of a block is filled by `block_ones << (k * RELATIVE_RANK_BITS)` after word k has been counted,
    # the last slot is masked off with low_set((WORDS_PER_BLOCK - 1) * RELATIVE_RANK_BITS), and the sample pushed for the block
    # carries the ones *before* the block (the push precedes `ones += block_ones`)
    if F.has_body(RS + "new"):
        nb = F.body(RS + "new")
        shl = [fold_consts(nb.term_of_rvalue(st["rv"])) for _, _, st in nb.stmts() if st["s"] == "assign" and st["rv"]["r"] == "bin" and st["rv"]["op"] == "Shl"]
        s_ok = None
        if shl:
            def slot_shift(a):
                a = core(a)
                if not (a[0] == "bin" and a[1] == "Mul"):
                    return False
                for k_, c_ in ((a[2], a[3]), (a[3], a[2])):
                    if core(c_)[:2] == ("const", RRB) and core(k_)[0] != "bin":       # k itself, not k + 1 / k - 1
                        return True
                return False
            # refuted only by a recognised slot product with the slot shifted (`(k + 1) * 9`); a running shift (`shift += 9`), a
            # helper, .. are other spellings the clause does not read: undecided
            def skewed_shift(a):
                a = core(a)
                if not (a[0] == "bin" and a[1] == "Mul"):
                    return False
                return any(core(c_)[:2] == ("const", RRB) and core(k_)[0] == "bin" and core(k_)[1] in ("Add", "Sub") for k_, c_ in ((a[2], a[3]), (a[3], a[2])))
            s_ok = True if any(slot_shift(x[3]) for x in shl) else (False if any(skewed_shift(x[3]) for x in shl) else None)
        masks = [fold_consts(nb.term_of_operand(t["args"][0])) for _, t in nb.calls() if callee_name(t) in ("bits::low_set", "bits::low_set_unchecked")]
        # (the mask that drops the entry after the last word: present with the right width, present with another width -- refuted --,
        # or not there at all, e.g. because the entry is never written: undecided)
        m_ok = None if not masks else (True if any(core(x)[:2] == ("const", (WPB - 1) * RRB) for x in masks) else
                                       (False if all(core(x)[0] == "const" for x in masks) else None))
        pushes_ = [(bi, t) for bi, t in nb.calls() if callee_name(t).startswith("std::vec::Vec::<") and callee_name(t).endswith("::push") and bi in nb.loop_blocks()]
        adds = [(bi, st) for bi, _, st in nb.stmts() if st["s"] == "assign" and st["rv"]["r"] == "bin" and st["rv"]["op"].startswith("Add") and
                {core(nb.term_of_operand(st["rv"]["a"]))[0], core(nb.term_of_operand(st["rv"]["b"]))[0]} == {"var"} and
                any(nb.local_name(core(nb.term_of_operand(st["rv"][k_]))[1]) == "ones" for k_ in ("a", "b") if core(nb.term_of_operand(st["rv"][k_]))[0] == "var")]
        p_ok = None
        if len(pushes_) == 1 and adds:
            p_ok = all(nb.dominates(pushes_[0][0], abi) and abi != pushes_[0][0] for abi, _ in adds)
        # the two running counts (ones before the block, ones inside the block) only ever grow by what was counted: each is set to 0
        # and otherwise assigned `itself + ..` -- a count clamped "to fit its field" is then also the count carried into every later sample
        a_ok = None
        if adds:
            accs = set()
            for _, st in adds:
                for k_ in ("a", "b"):
                    accs.add(core(nb.term_of_operand(st["rv"][k_]))[1])
            a_ok = True
            for l_ in accs:
                for d in nb.defs().get(l_, []):
                    if d[2] != "assign":
                        a_ok = False
                        continue
                    t_ = core(fold_consts(nb.term_of_rvalue(d[3])))
                    grows = t_[0] == "bin" and t_[1] == "Add" and any(core(x)[:2] == ("var", l_) for x in (t_[2], t_[3]))
                    if t_[:2] == ("const", 0) or grows:
                        continue
                    # refuted only by what is a bound by construction (min / clamp / a mask); another spelling of the addition
                    # (checked_add(..).unwrap(), a helper) is not read here: undecided
                    bounded = (t_[0] == "call" and t_[1].split("::")[-1] in ("min", "clamp", "saturating_sub")) or (t_[0] == "bin" and t_[1] in ("BitAnd", "Rem"))
                    if bounded:
                        a_ok = False
                    elif a_ok:
                        a_ok = None
        parts = {"slot k filled by << (k * %d)" % RRB: s_ok, "last slot masked with low_set(%d)" % ((WPB - 1) * RRB): m_ok, "sample pushed before ones += block_ones": p_ok,
                 "running counts only grow": a_ok}
        verdict = False if any(v is False for v in parts.values()) else (None if any(v is None for v in parts.values()) else True)
        ctx.ob("C01.R4.rank-store-read-agreement", RS + "new" + tag, loc(nb.raw["span"]), verdict, "sibling-agreement", "; ".join("%s: %s" % kv for kv in parts.items()))
    for qn in ("rank", "rank_unchecked"):
        if not F.has_body(RS + qn):
            continue
        qb = F.body(RS + qn)
        ip = [i for i in range(qb.nargs) if qb.local_name(i + 1) == "index"]
        if not ip:
            continue
        idx = ("param", ip[0])
        t = fold_consts(qb.term_of_local(0))
        subs = list(subterms(t))
        so = lambda k: lambda x: x[0] == "field" and x[2] == k and core(x[1])[0] == "call" and core(x[1])[1] == "bits::split_offset" and core(core(x[1])[2][0])[:2] == idx
        _w, _o = so("0"), so("1")
        # (split_offset(index), or the same two quantities spelled out: index / 64 | index >> 6, index % 64 | index & 63)
        is_word = lambda x: _w(x) or (x[0] == "bin" and core(x[2])[:2] == idx and ((x[1] == "Div" and core(x[3])[:2] == ("const", 64)) or (x[1] == "Shr" and core(x[3])[:2] == ("const", 6))))
        is_off = lambda x: _o(x) or (x[0] == "bin" and core(x[2])[:2] == idx and ((x[1] == "Rem" and core(x[3])[:2] == ("const", 64)) or (x[1] == "BitAnd" and core(x[3])[:2] == ("const", 63))))
        # (a) sample index
        samp = [x for x in subs if x[0] == "call" and x[1].split("::")[-1].split("<")[0] in ("index", "get_unchecked", "get") and any(self_path(y) == ["samples"] for y in subterms(x[2][0]))]
        a_ok = None
        if samp:
            def sample_index(x):
                """True: index / BLOCK_SIZE (or >> log2); False: the query index divided by another constant; None: another spelling
                (word / WORDS_PER_BLOCK, a helper, ..)."""
                i_ = core(x[2][1])
                if i_[0] == "bin" and i_[1] in ("Div", "Shr") and core(i_[2])[:2] == idx:
                    # the query index itself divided: by the block size, or by something else (refuted)
                    return core(i_[3])[0] == "const" and core(i_[3])[1] == (BS if i_[1] == "Div" else BS.bit_length() - 1)
                return None
            vs = [sample_index(x) for x in samp]
            a_ok = False if any(v is False for v in vs) else (None if any(v is None for v in vs) else True)
        # (b) slot
        # the shift count is slot * RELATIVE_RANK_BITS and nothing else: `slot * 9 + 1` reads across two slots
        shr = []
        skewed = False
        for x in subs:
            if x[0] == "bin" and x[1] == "Shr":
                ls = linear(x[3])
                muls = [k_ for k_ in ls if k_ != () and isinstance(k_, tuple) and k_[0] == "bin" and k_[1] == "Mul"]
                if len(muls) == 1 and len([k_ for k_ in ls if k_ != ()]) == 1:
                    if ls[muls[0]] == 1 and ls.get((), 0) == 0:
                        shr.append(("bin", "Shr", x[2], muls[0]))
                    else:
                        skewed = True
        b_ok = False if skewed else None
        if shr:
            b_ok = None
            for x in shr:
                if skewed:
                    break
                mul = core(x[3])
                for r_, c_ in ((mul[2], mul[3]), (mul[3], mul[2])):
                    r0 = core(r_)
                    if core(c_)[:2] == ("const", RRB) and r0[0] == "bin" and r0[1] == "BitAnd" and core(r0[3])[:2] == ("const", WM):
                        lin = linear(r0[2])
                        leaves = [k_ for k_ in lin if k_ != ()]
                        wordish = len(leaves) == 1 and lin[leaves[0]] == 1 and (is_word(leaves[0]) or (leaves[0][0] == "bin" and leaves[0][1] == "BitAnd" and is_word(core(leaves[0][2])) and core(leaves[0][3])[:2] == ("const", WM)))
                        if wordish and lin.get((), 0) % WPB == WPB - 1:
                            b_ok = True
                        elif wordish and b_ok is None:
                            b_ok = False          # slot (word + c) & 7 with c != 7 (mod 8): the neighbour's entry
        # (c) within the word
        cnt = [x for x in subs if x[0] == "call" and x[1].split("::")[-1] == "count_ones" and x[1].startswith("core::num")]
        c_ok = None
        if cnt:
            c_ok = None
            for x in cnt:
                a0 = core(x[2][0])
                if a0[0] == "bin" and a0[1] == "BitAnd":
                    for w_, m_ in ((a0[2], a0[3]), (a0[3], a0[2])):
                        w0, m0 = core(w_), core(m_)
                        if w0[0] == "call" and w0[1].split("::")[-1] in ("word", "word_unchecked") and is_word(core(w0[2][-1])) and \
                                m0[0] == "call" and m0[1] in ("bits::low_set", "bits::low_set_unchecked") and is_off(core(m0[2][0])):
                            c_ok = True
        parts = {"sample of block index / BLOCK_SIZE": a_ok, "slot (word + %d) & %d, %d bits wide" % (WPB - 1, WM, RRB): b_ok, "ones of word index / 64 below bit index %% 64": c_ok}
        verdict = None if any(v is None for v in parts.values()) else all(parts.values())
        if any(v is False for v in parts.values()):
            verdict = False
        ctx.ob("C01.R4.rank-store-read-agreement", RS + qn + tag, loc(qb.raw["span"]), verdict, "sibling-agreement",
               "; ".join("%s: %s" % kv for kv in parts.items()))


def ref_field(b, o):
    """Field name of the place whose reference operand `o` holds (e.g. `&mut result.long` -> 'long'), following reborrows."""
    from facts import operand_place
    p = operand_place(o)
    for _ in range(8):
        if p is None:
            return None
        names = [e.get("name") for e in p["p"] if isinstance(e, dict) and "f" in e]
        if names:
            return names[-1]
        ds = [d for d in b.defs().get(p["l"], []) if d[2] == "assign"]
        if len(ds) != 1:
            return None
        rv = ds[0][3]
        if rv["r"] in ("ref", "rawptr"):
            p = rv["p"]
        elif rv["r"] == "use":
            p = operand_place(rv["o"])
        else:
            return None
    return None


def check_select_layout(ctx, F, tag):
    """R4: what SelectSupport::new stores and what select() reads agree: offsets in long/short are relative to the position sample pushed
    for the superblock, and the long/short tag bit is written and read with the same parity."""
    from guards import facts_at
    from serfmt import rpo
    nb = F.body(SS + "new")
    where = loc(nb.raw["span"])
    order = rpo(nb)
    pushes = {}
    for bi, t in nb.calls():
        if callee_name(t).endswith("Push>::push") and bi in nb.loop_blocks():
            fld = ref_field(nb, t["args"][0])
            pushes.setdefault(fld, []).append((order[bi], bi, strip_casts(nb.term_of_operand(t["args"][1]))))
    if not all(k in pushes for k in ("samples", "long", "short")):
        raise Undecided("SelectSupport::new: pushes into samples/long/short not recognised (%s)" % sorted(map(str, pushes)))
    samples = sorted(pushes["samples"])
    first = samples[0]
    # the first sample push of an iteration dominates all other pushes of the iteration
    dom = all(nb.dominates(first[1], bi) for k in ("samples", "long", "short") for _, bi, _ in pushes[k] if bi != first[1])
    S = first[2]
    okpos = S[0] == "field" and S[2] == "1"
    rel = []
    for k in ("long", "short"):
        for _, bi, v in pushes[k]:
            ok = v[0] == "bin" and v[1] == "Sub" and strip_casts(v[3]) == S and strip_casts(v[2])[0] == "field" and strip_casts(v[2])[2] == "1"
            rel.append((k, ok, tstr(v)[:90]))
    ptrs = samples[1:]
    par = {}
    for _, bi, v in ptrs:
        # 2 * X.len()  (long)   or   2 * X.len() + 1  (short)
        odd = m(Bin("Add", Bin("Mul", Const(2), ANY), Const(1)), v)
        even = m(Bin("Mul", Const(2), ANY), v)
        lens = [x for x in subterms(v) if x[0] == "call" and x[1].endswith("Vector>::len")]
        par[bi] = ("odd" if odd else "even" if even else "?", v)
    # which branch pushes to long / short
    tagbit = {}
    for k in ("long", "short"):
        for _, bi, v in pushes[k]:
            ps = [pb for pb in par if nb.dominates(pb, bi)]
            if len(ps) == 1:
                tagbit[k] = par[ps[0]][0]
    qb = F.body(SS + "select_unchecked")
    reads = {}
    for bi, t in qb.calls():
        if callee_name(t).endswith("Access<'a>>::get"):
            fld = (self_path(qb.term_of_operand(t["args"][0])) or [None])[-1]
            reads.setdefault(fld, []).append((bi, t))
    qok = all(k in reads for k in ("samples", "long", "short"))
    qpar = {}
    qadd = {}
    if qok:
        for k in ("long", "short"):
            bi, t = reads[k][0]
            for f in facts_at(qb, bi):
                if f[0] == "cmp" and f[1] in ("Eq", "Ne") and m(Const(0), f[3]) and m(Bin("BitAnd", ANY, Const(1)), f[2]):
                    qpar[k] = "even" if f[1] == "Eq" else "odd"
            # the value read is added to the running result that started as samples.get(2 * superblock)
            dl = t["dest"]["l"]
            qadd[k] = any(st["s"] == "assign" and st["rv"]["r"] == "bin" and st["rv"]["op"].startswith("Add") and
                          any(x[0] == "call" and x[1].endswith("Access<'a>>::get") and (self_path(x[2][0]) or [None])[-1] == k for x in subterms(qb.term_of_rvalue(st["rv"])))
                          for _, _, st in qb.stmts())
        base = [qb.term_of_rvalue(st["rv"]) for _, _, st in qb.stmts() if st["s"] == "assign" and not st["lhs"]["p"]]
        qbase = any(m(Call(lambda n_: n_.endswith("Access<'a>>::get"), SelfField("samples"), Bin("Mul", Const(2), ANY)), x) for x in base)
    ok = dom and okpos and all(o for _, o, _ in rel) and len(rel) >= 2 and qok and tagbit.get("long") == qpar.get("long") == "even" and tagbit.get("short") == qpar.get("short") == "odd" and \
        qadd.get("long") and qadd.get("short") and qbase
    # the pointer written for a superblock is twice the current length of the array its entries go to (long -> long.len(),
    # short -> short.len()), and the query indexes that array with the pointer plus the rank *within* the superblock
    ptr_ok = {}
    len_calls = [(order[bi], bi, ref_field(nb, t["args"][0])) for bi, t in nb.calls() if callee_name(t).endswith("Vector>::len") and ref_field(nb, t["args"][0]) in ("long", "short")]
    for k in ("long", "short"):
        for _, bi, v in pushes[k]:
            ps = [pb for pb in par if nb.dominates(pb, bi)]
            if len(ps) == 1:
                near = sorted((o, f) for o, lb, f in len_calls if lb == ps[0] or nb.dominates(lb, ps[0]))
                # the length that feeds this pointer: the len() call closest above the pointer push
                ptr_ok[k] = bool(near) and near[-1][1] == k and any(x[0] == "call" and x[1].endswith("Vector>::len") for x in subterms(par[ps[0]][1]))
    idx_ok = {}
    from guards import linear
    for qn in ("select", "select_unchecked"):
        if not F.has_body(SS + qn):
            continue
        qq = F.body(SS + qn)
        rp = [i_ for i_ in range(qq.nargs) if qq.local_name(i_ + 1) == "rank"]
        rank_p = ("param", rp[0]) if rp else ("param", -1)
        for bi, t in qq.calls():
            if callee_name(t).endswith("Access<'a>>::get") and (self_path(qq.term_of_operand(t["args"][0])) or [None])[-1] == "long":
                lin = linear(qq.term_of_operand(t["args"][1]))
                bare = any(isinstance(kk, tuple) and kk[:2] == rank_p for kk in lin)
                within = any(isinstance(kk, tuple) and kk and kk[0] == "bin" and kk[1] in ("BitAnd", "Rem") and any(x[:2] == rank_p for x in subterms(kk)) for kk in lin)
                idx_ok[qn] = (not bare) and within and lin.get((), 0) == 0
            if callee_name(t).endswith("Access<'a>>::get") and (self_path(qq.term_of_operand(t["args"][0])) or [None])[-1] == "short":
                # short entries: one per block of the superblock -> pointer + (rank within the superblock) / BLOCK_SIZE
                lin = linear(qq.term_of_operand(t["args"][1]))
                bare = any(isinstance(kk, tuple) and kk[:2] == rank_p for kk in lin)
                blk_ = F.const(SS.replace("::<T>::", "::<T>::") + "BLOCK_SIZE") if F.consts.get(SS + "BLOCK_SIZE") else 64
                per_block = any(isinstance(kk, tuple) and kk and kk[0] == "bin" and kk[1] in ("Div", "Shr") and
                                any(x[0] == "bin" and x[1] in ("BitAnd", "Rem") and any(y[:2] == rank_p for y in subterms(x)) for x in subterms(kk[2])) for kk in lin)
                idx_ok[qn + ".short"] = (not bare) and per_block and lin.get((), 0) == 0
    ok = ok and all(ptr_ok.get(k) for k in ("long", "short")) and bool(idx_ok) and all(idx_ok.values())
    # the entry pushed in an iteration of a fill loop is the value the cursor holds on entry to the iteration: the push comes before
    # the cursor is advanced (advance first, and entry j holds the position of value j + 1, the last iteration unwraps what may be None)
    heads = [bi for bi, t in nb.calls() if "ops::Range<" in callee_name(t) and callee_name(t).split("::")[-1] == "next" and bi in nb.loop_blocks()]
    order_ok = {}
    for k in ("long", "short"):
        for _, pbi, v in pushes[k]:
            cur = [x[1] for x in subterms(v[2]) if x[0] == "var"] if v[0] == "bin" else []
            hs = [h for h in heads if nb.dominates(h, pbi)]
            if len(cur) != 1 or not hs:
                order_ok[k] = None
                continue
            h = max(hs, key=lambda x: order[x])
            body = set(x for x in nb.reachable() if nb.dominates(h, x))
            inner = set()
            for x in body:
                seen, st = set(), [y for y in nb.succ(x) if y in body]
                while st:
                    y = st.pop()
                    if y == h:
                        inner.add(x)
                        break
                    if y in seen:
                        continue
                    seen.add(y)
                    st.extend(z for z in nb.succ(y) if z in body)
            adv = [d[0] for d in nb.defs().get(cur[0], []) if d[0] in inner]
            order_ok[k] = bool(adv) and all(nb.dominates(pbi, d) for d in adv) if pbi in inner else None
    if any(v is False for v in order_ok.values()):
        ok = False
    elif ok and any(v is None for v in order_ok.values()):
        ok = None
    # the arrays are packed once, after the last push: packing narrows the item width to the largest value pushed so far, and a later
    # push of a wider value is silently truncated to it
    packs = [(bi, ref_field(nb, t["args"][0])) for bi, t in nb.calls() if callee_name(t).split("::")[-1] == "pack"]
    early = []
    for bi, f in packs:
        seen, st = set(), list(nb.succ(bi))
        while st:
            y = st.pop()
            if y in seen:
                continue
            seen.add(y)
            st.extend(nb.succ(y))
        for _, pbi, _ in pushes.get(f, []):
            if pbi in seen:
                early.append((f, bi))
    if early:
        ok = False
    ctx.ob("C01.R4.select-store-read-agreement", "SelectSupport" + tag, where, ok, "sibling-agreement",
           "builder: sample = %s (position component: %s), offsets %s; tag parity written long=%s short=%s; query: result starts at samples[2*sb]: %s, adds long/short reads: %s/%s under tag parity long=%s short=%s" % (
               tstr(S)[:60], okpos, [(k, o) for k, o, _ in rel], tagbit.get("long"), tagbit.get("short"), qok and qbase, qadd.get("long"), qadd.get("short"), qpar.get("long"), qpar.get("short")) +
           "; pointer = 2 * len of the array it points into: %s; long entries indexed by pointer + rank within the superblock: %s" % (ptr_ok, idx_ok) +
           "; entry pushed before the cursor advances: %s; packed before a later push: %s" % (order_ok, sorted(set(early))))
