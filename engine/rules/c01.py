"""C01 -- plain bitvector answers (narrow, structural part): necessary conditions only.

 R1 geometry constants of the rank/select support structures are mutually consistent; the loader validates with the builders' constants
 R2 twins: the checked/unchecked select, the complement word accessors and the ones/zeros query wrappers are isomorphic modulo their
    documented difference (the public API only runs the unchecked twins, and the suite never reaches the long-superblock branch)
 R3 the cached count of set bits is computed from the very data it is stored with
"""
from facts import Undecided, loc, tstr, callee_name, subterms, operand_place
from guards import facts_at, strip_casts
from pat import m, Bind, ANY, Call, Bin, Const, Param, SelfField, core, self_path
from c06 import root_local
import twins

META = {
    "level": "other",
    "technique": "static analysis: evaluated-constant relations, MIR isomorphism of twin implementations modulo a named substitution, provenance of the cached count (rustc_private driver)",
    "explanation": "The arithmetic of rank/select is not decided. What is decided are three necessary conditions the test suite cannot see: "
                   "(1) the sampling constants (block, superblock, masks, relative-rank packing) satisfy the relations the algorithms assume, "
                   "and BitVector::load validates with the same constants; (2) each pair of twin implementations -- SelectSupport::select "
                   "vs select_unchecked, Complement::word vs word_unchecked, BitVector::{select, select_iter, one_iter} vs their zero "
                   "counterparts -- is MIR-isomorphic modulo the documented substitution, so a one-sided edit (the long-superblock branch "
                   "is never reached by the suite) is reported with the two diverging statements; (3) every BitVector outside load stores "
                   "ones = count_ones() of the same data.",
    "trusted_base": ["rustc's MIR and constant evaluation"],
    "assumptions": ["an edit applied identically to both twins is not detected by R2 (stated limit)"],
}

SS = "bit_vector::select_support::SelectSupport::<T>::"
RS = "bit_vector::rank_support::RankSupport::"
ZERO = [("Complement", "Identity"), ("SelectZero", "Select"), ("select_zero", "select"), ("zero_iter", "one_iter"), ("ZeroIter", "OneIter")]
TWINS = [
    (SS + "select", SS + "select_unchecked", [("word_unchecked", "word")], "checked vs unchecked word access only"),
    ("<bit_vector::Complement as bit_vector::Transformation>::word", "<bit_vector::Complement as bit_vector::Transformation>::word_unchecked", [("word_unchecked", "word")], "checked vs unchecked word access only"),
    ("<bit_vector::BitVector as ops::Select<'a>>::select", "<bit_vector::BitVector as ops::SelectZero<'a>>::select_zero", ZERO, "Identity vs Complement and the support field"),
    ("<bit_vector::BitVector as ops::Select<'a>>::select_iter", "<bit_vector::BitVector as ops::SelectZero<'a>>::select_zero_iter", ZERO, "Identity vs Complement and the support field"),
    ("<bit_vector::BitVector as ops::Select<'a>>::one_iter", "<bit_vector::BitVector as ops::SelectZero<'a>>::zero_iter", ZERO, "Identity vs Complement"),
    ("<bit_vector::BitVector as ops::Select<'a>>::enable_select", "<bit_vector::BitVector as ops::SelectZero<'a>>::enable_select_zero", ZERO, "Identity vs Complement and the support field"),
    ("<bit_vector::BitVector as ops::Select<'a>>::supports_select", "<bit_vector::BitVector as ops::SelectZero<'a>>::supports_select_zero", ZERO, "the support field"),
]


def pow2(x):
    return x > 0 and x & (x - 1) == 0


def check(ctx):
    configs = ["native", "portable"] if ctx.tier == "quick" else ["native", "portable", "native-rel", "portable-rel"]
    for cfg in configs:
        check_config(ctx, ctx.facts(cfg), "@" + cfg)


def check_config(ctx, F, tag):
    c = F.const
    sb, sm, bis, bs, bm = c(SS + "SUPERBLOCK_SIZE"), c(SS + "SUPERBLOCK_MASK"), c(SS + "BLOCKS_IN_SUPERBLOCK"), c(SS + "BLOCK_SIZE"), c(SS + "BLOCK_MASK")
    ok = pow2(sb) and pow2(bs) and sm == sb - 1 and bm == bs - 1 and bis * bs == sb and bs == c("bits::WORD_BITS")
    ctx.ob("C01.R1.select-geometry", "SelectSupport" + tag, "src/bit_vector/select_support.rs", ok, "constant-relations",
           "SUPERBLOCK_SIZE=%d MASK=%d BLOCKS_IN_SUPERBLOCK=%d BLOCK_SIZE=%d BLOCK_MASK=%d: masks = size-1, blocks*block = superblock, powers of two, block = one word" % (sb, sm, bis, bs, bm))
    rb, rbits, rmask, wpb, wmask = c(RS + "BLOCK_SIZE"), c(RS + "RELATIVE_RANK_BITS"), c(RS + "RELATIVE_RANK_MASK"), c(RS + "WORDS_PER_BLOCK"), c(RS + "WORD_MASK")
    ok = wpb * c("bits::WORD_BITS") == rb and wmask == wpb - 1 and pow2(wpb) and rmask == (1 << rbits) - 1 and (1 << rbits) >= rb and (wpb - 1) * rbits <= 64
    ctx.ob("C01.R1.rank-geometry", "RankSupport" + tag, "src/bit_vector/rank_support.rs", ok, "constant-relations",
           "BLOCK_SIZE=%d WORDS_PER_BLOCK=%d WORD_MASK=%d RELATIVE_RANK_BITS=%d MASK=%d: words*64 = block, mask = 2^bits-1, 2^bits >= block, 7 relative ranks fit in 64 bits" % (rb, wpb, wmask, rbits, rmask))
    # the loader validates with the builders' constants
    lb = F.body("<bit_vector::BitVector as serialize::Serialize>::load")
    used = set()
    for bi, t in lb.calls():
        if callee_name(t) == "bits::div_round_up":
            for x in subterms(lb.term_of_operand(t["args"][1])):
                if x[0] == "const" and len(x) > 2:
                    used.add(x[2])
                if x[0] == "namedconst":
                    used.add(x[1])
    want = {RS + "BLOCK_SIZE", SS + "SUPERBLOCK_SIZE"}
    ctx.ob("C01.R1.loader-uses-builder-constants", lb.name + tag, loc(lb.raw["span"]), want <= {u.replace("bit_vector::Identity", "T").replace("bit_vector::Complement", "T") for u in used} or want <= used, "constant-provenance",
           "block counts validated with %s" % sorted(used))
    nb = F.body(RS + "new")
    nsb = F.body(SS + "new")
    for b, cs in ((nb, {RS + "BLOCK_SIZE", RS + "WORDS_PER_BLOCK", RS + "RELATIVE_RANK_BITS"}), (nsb, {SS + "SUPERBLOCK_SIZE", SS + "BLOCK_SIZE"})):
        seen = set()
        for bi, si, st in b.stmts():
            if st["s"] == "assign":
                for x in subterms(b.term_of_rvalue(st["rv"])):
                    if x[0] == "const" and len(x) > 2:
                        seen.add(x[2])
                    if x[0] == "namedconst":
                        seen.add(x[1])
        for bi, t in b.calls():
            for a in t["args"]:
                for x in subterms(b.term_of_operand(a)):
                    if x[0] == "const" and len(x) > 2:
                        seen.add(x[2])
                    if x[0] == "namedconst":
                        seen.add(x[1])
        ctx.ob("C01.R1.builder-uses-named-constants", b.name + tag, loc(b.raw["span"]), cs <= seen, "constant-provenance", "builder refers to %s" % sorted(x.split("::")[-1] for x in seen & cs), nontrivial=False)

    # ---------------- R2 twins
    for a, b_, subst, what in TWINS:
        A, B = F.body(a), F.body(b_)
        ok, info = twins.compare(A, B, subst)
        ctx.ob("C01.R2.twins-isomorphic", "%s ~ %s%s" % (a.split("::")[-1], b_.split("::")[-1], tag), loc(A.raw["span"]), ok, "mir-isomorphism",
               ("isomorphic modulo %s (%d statements/terminators compared)" % (what, info)) if ok else ("twins diverge (allowed difference: %s): %s" % (what, info)))
    ctx.count("twin-pairs" + tag, len(TWINS))

    # ---------------- R3 cached count
    n = 0
    for b in F.all_bodies():
        for bi, si, st in b.stmts():
            if st["s"] == "assign" and st["rv"]["r"] == "agg" and st["rv"].get("def") == "bit_vector::BitVector":
                if "Clone" in b.name:
                    continue
                n += 1
                ops = dict(zip(st["rv"]["fields"], st["rv"]["ops"]))
                if b.name == "<bit_vector::BitVector as serialize::Serialize>::load":
                    fs = facts_at(b, bi)
                    ones = strip_casts(b.term_of_operand(ops["ones"]))
                    ok = any(f[0] == "cmp" and f[1] == "Le" and strip_casts(f[2]) == ones and m(Call(lambda n_: n_.endswith("::len"), ANY), f[3]) for f in fs)
                    ctx.ob("C01.R3.cached-count", b.name + tag, loc(st["sp"]), ok, "guard-dominance", "loaded ones is validated against data.len() (ones > len -> Err): %s" % ok)
                else:
                    data_root = root_local(b, ops["data"])
                    ot = core(b.term_of_operand(ops["ones"]))
                    ok = ot[0] == "call" and ot[1] == "raw_vector::RawVector::count_ones"
                    if ok:
                        from facts import resolve_ref_local
                        # the receiver of count_ones is the local that becomes `data`
                        calls = [t for _, t in b.calls() if callee_name(t) == "raw_vector::RawVector::count_ones"]
                        ok = len(calls) == 1 and resolve_ref_local(b, calls[0]["args"][0]) is not None and root_local(b, {"l": resolve_ref_local(b, calls[0]["args"][0]), "p": []}) == data_root
                        # and no mutation of data between the count and the aggregate
                    ctx.ob("C01.R3.cached-count", b.name + tag, loc(st["sp"]), ok, "term-provenance", "ones = count_ones() of the local that becomes data: %s" % ok)
    ctx.count("bitvector-aggregates" + tag, n)
    ctx.floor("bitvector-aggregates" + tag, 3)
    co = F.body("<bit_vector::BitVector as ops::BitVec<'a>>::count_ones")
    ctx.ob("C01.R3.count-ones-is-cached-field", co.name + tag, loc(co.raw["span"]), self_path(co.term_of_local(0)) == ["ones"], "term-shape", "count_ones() = %s" % tstr(co.term_of_local(0)), nontrivial=False)
    ln = F.body("<bit_vector::BitVector as ops::BitVec<'a>>::len")
    ctx.ob("C01.R3.len-is-data-len", ln.name + tag, loc(ln.raw["span"]), m(Call("raw_vector::RawVector::len", SelfField("data")), ln.term_of_local(0)), "term-shape", "len() = %s" % tstr(ln.term_of_local(0)), nontrivial=False)
