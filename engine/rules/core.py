"""Check runner: obligations, known findings, evidence, exit codes."""
import json
import os
import sys
import time
import traceback

from facts import Facts, Undecided, run_driver, VERIF, REPO, loc

KNOWN_FINDINGS = os.path.join(VERIF, "known_findings.json")
EVIDENCE_DIR = os.path.join(VERIF, "evidence")


class Ob:
    """One obligation: a (rule, site) pair examined by a check.  ok is True (discharged), False (violated) or None (undecided: the
    site is new with respect to the pinned tree and nothing the rule recognises establishes it -- neither shown nor refuted)."""
    __slots__ = ("rule", "key", "where", "ok", "how", "detail", "nontrivial", "positive")

    def __init__(self, rule, key, where, ok, how, detail, nontrivial, positive=False):
        self.rule = rule
        self.key = key
        self.where = where
        self.ok = ok
        self.how = how
        self.detail = detail
        self.nontrivial = nontrivial
        self.positive = positive

    def as_json(self):
        return {"rule": self.rule, "key": self.key, "where": self.where,
                "status": "discharged" if self.ok else ("undecided" if self.ok is None else "violated"), "how": self.how, "detail": self.detail}


BASELINE_OBLIGATIONS = os.path.join(VERIF, "engine", "rules", "baseline_obligations.json")
_baseline_cache = {}


def baseline_keys(prop):
    """Obligation keys discharged on the pinned tree (tools/gen_baseline_obligations.py), or None if the table is missing."""
    if "data" not in _baseline_cache:
        try:
            with open(BASELINE_OBLIGATIONS) as f:
                _baseline_cache["data"] = {k: set(v) for k, v in json.load(f).items()}
        except (OSError, ValueError):
            _baseline_cache["data"] = None
    d = _baseline_cache["data"]
    return None if d is None else d.get(prop, set())


class Ctx:
    def __init__(self, prop, tier, repo=None):
        self.prop = prop
        self.tier = tier
        self.repo = repo or REPO
        self._facts = {}
        self.obs = []
        self.notes = []          # informational lines for evidence
        self.used_exemptions = []  # reviewed invariants / exemptions used in this run
        self.counts = {}
        self.sites_seen = set()
        self.driver_wall = {}

    # --- facts
    def facts(self, config="native"):
        if config not in self._facts:
            data = run_driver(config, repo=self.repo)
            self.driver_wall[config] = data.get("_driver_wall_s")
            self._facts[config] = Facts(data)
        return self._facts[config]

    def preload(self, facts_by_config):
        self._facts.update(facts_by_config)

    # --- obligations
    def ob(self, rule, key, where, ok, how="", detail="", nontrivial=True, positive=False):
        """Record an obligation. key identifies the site without line numbers.  ok=None records it as undecided.
        positive=True: a failure is a positively identified bad construct (never downgraded to undecided for being a new site)."""
        full = "%s|%s" % (rule, key)
        self.obs.append(Ob(rule, full, where, None if ok is None else bool(ok), how, detail, nontrivial, positive))
        return bool(ok)

    def exempt(self, rule, key, where, reason):
        self.used_exemptions.append({"rule": rule, "key": key, "where": where, "reason": reason})

    # --- site inventory: sites a rule examines only when something reaches them (alarm-only keys)
    def site(self, key):
        """Registers that this site exists on the analysed tree (recorded in the pinned-tree baseline by the generator)."""
        self.sites_seen.add(key)

    def site_known(self, key):
        """Does the site exist on the pinned tree?  An alarm at such a site is a regression (positive); True if there is no table."""
        base = baseline_keys("_sites:" + self.prop)
        return True if base is None else key in base

    def note(self, text):
        self.notes.append(text)

    def count(self, name, n=1):
        self.counts[name] = self.counts.get(name, 0) + n

    def floor(self, name, minimum):
        """Fail closed (undecided) if fewer instances than confirmed by reading were matched."""
        have = self.counts.get(name, 0)
        if have < minimum:
            raise Undecided("floor: rule instance count %s = %d is below the confirmed floor %d" % (name, have, minimum))


class Relabel:
    """Runs another property's rule function on behalf of this one: obligations whose rule id starts with a key of `mapping` are
    recorded under the mapped id; everything else the borrowed function reports (other rules, counts, floors, notes) is dropped.
    Used where one obligation is a necessary condition of two properties."""
    def __init__(self, ctx, mapping):
        self._ctx = ctx
        self._map = mapping
        self.tier = ctx.tier
        self.repo = ctx.repo
        self.prop = ctx.prop

    def facts(self, config="native"):
        return self._ctx.facts(config)

    def ob(self, rule, key, where, ok, how="", detail="", nontrivial=True, positive=False):
        for frm, to in self._map.items():
            pred = None
            if isinstance(to, tuple):
                to, pred = to
            if rule.startswith(frm) and (pred is None or pred(key)):
                return self._ctx.ob(to + rule[len(frm):], key, where, ok, how, detail, nontrivial, positive)
        return bool(ok)

    def exempt(self, *a, **k):
        pass

    def site(self, key):
        for frm, to in self._map.items():
            if isinstance(to, tuple):
                to = to[0]
            if key.startswith(frm):
                self._ctx.site(to + key[len(frm):])

    def site_known(self, key):
        for frm, to in self._map.items():
            if isinstance(to, tuple):
                to = to[0]
            if key.startswith(frm):
                return self._ctx.site_known(to + key[len(frm):])
        return True

    def note(self, *a, **k):
        pass

    def count(self, *a, **k):
        pass

    def floor(self, *a, **k):
        pass


def load_known():
    if not os.path.exists(KNOWN_FINDINGS):
        return {"known": [], "fixed": []}
    with open(KNOWN_FINDINGS) as f:
        return json.load(f)


def run_check(prop, fn, tier, meta, repo=None, preloaded=None, quiet=False):
    """Runs one property check; writes evidence; returns exit code."""
    t0 = time.time()
    ctx = Ctx(prop, tier, repo=repo)
    if preloaded:
        ctx.preload(preloaded)
    seed = int(os.environ.get("VERIF_SEED", "0") or 0)
    undecided = None
    try:
        try:
            fn(ctx)
        finally:
            # the crate-wide zero-count rules do not depend on the property's anchors: they are decided (and a positive
            # identification reported) even when the property's own rules stop at a lost anchor
            import widths
            try:
                widths.check(ctx, prop)
            except Undecided:
                pass
        if tier == "thorough":
            import poscontrol
            poscontrol.run_widths(ctx, prop)
        if tier == "thorough" and (repo is None or os.path.abspath(repo) == os.path.abspath(REPO)) and not os.environ.get("VERIF_NO_SELFTEST"):
            selftest(ctx, prop)
    except Undecided as u:
        undecided = str(u)
    except Exception:
        undecided = "internal error in checker:\n" + traceback.format_exc()

    known = load_known()
    known_keys = {}
    for k in known.get("known", []):
        if k["property"] == prop:
            known_keys[k["key"]] = k
    # A failed obligation at a site the pinned tree does not have (a new call site, a new function) is "not established", not
    # "refuted": the rules discharge what they recognise, and code they have never seen may be right for reasons they cannot see.
    # It makes the run UNDECIDED.  A failed obligation at a site that is discharged on the pinned tree is a regression -- the guard,
    # the shape or the constant that discharged it is gone -- and so is any positively identified bad construct: those are violations.
    base = baseline_keys(prop)
    if base is not None and not os.environ.get("VERIF_NO_BASELINE"):
        for o in ctx.obs:
            if o.ok is False and not o.positive and o.key not in base and o.key not in known_keys:
                o.ok = None
                o.detail = "[site not on the pinned tree; not established] " + (o.detail or "")
    violated = [o for o in ctx.obs if o.ok is False]
    open_obs = [o for o in ctx.obs if o.ok is None]
    unlisted = [o for o in violated if o.key not in known_keys]
    listed = [o for o in violated if o.key in known_keys]

    out = []
    for o in listed:
        out.append("KNOWN-FINDING: property=%s %s at %s -- %s" % (prop, o.key, o.where, known_keys[o.key]["what"]))

    wall = round(time.time() - t0, 2)
    discharged = [o for o in ctx.obs if o.ok]
    by_how = {}
    for o in discharged:
        by_how[o.how or "direct"] = by_how.get(o.how or "direct", 0) + 1
    distinct_nontrivial = len({o.key for o in ctx.obs if o.nontrivial})
    samples = [o.as_json() for o in ctx.obs if o.nontrivial][:12]
    if not samples:
        samples = [o.as_json() for o in ctx.obs][:12]
    per_rule = {}
    for o in ctx.obs:
        r = per_rule.setdefault(o.rule, {"obligations": 0, "discharged": 0})
        r["obligations"] += 1
        r["discharged"] += 1 if o.ok else 0
        if o.ok is None:
            r["undecided"] = r.get("undecided", 0) + 1

    ev = {
        "property_id": prop,
        "tier": tier,
        "seed": seed,
        "level": meta.get("level", "other"),
        "wall_s": wall,
        "violations": len(unlisted),
        "coverage": {
            "explanation": meta["explanation"],
            "rule": "one obligation per (rule, site) enumerated from the MIR / item structure / evaluated constants of /repo's "
                    "current tree; non-trivial = its discharge needed a guard, term or structure match (not a bare existence check)",
            "evaluations": len(ctx.obs),
            "distinct_nontrivial": distinct_nontrivial,
            "obligations": len(ctx.obs),
            "discharged": len(discharged) + len(listed),
            "known_findings_matched": [o.key for o in listed],
            "discharged_by": by_how,
            "per_rule": per_rule,
            "configurations": sorted(ctx._facts.keys()),
            "driver_wall_s": ctx.driver_wall,
            "functions_analysed": {c: len(f.data["bodies"]) for c, f in ctx._facts.items()},
            "instance_counts": ctx.counts,
            "exemptions_used": ctx.used_exemptions,
            "notes": ctx.notes[:60],
            "samples": samples,
            "checker_cmd": "./check %s --tier %s" % (prop, tier),
            "trusted_base": meta.get("trusted_base", []),
            "undecided": undecided,
            "undecided_obligations": [o.as_json() for o in open_obs][:40],
        },
        "assumptions": meta.get("assumptions", []),
    }
    os.makedirs(EVIDENCE_DIR, exist_ok=True)
    if repo is None or os.path.abspath(repo) == os.path.abspath(REPO):
        with open(os.path.join(EVIDENCE_DIR, "%s.json" % prop), "w") as f:
            json.dump(ev, f, indent=1, sort_keys=True)
            f.write("\n")

    code = 0
    if undecided is not None:
        out.append("UNDECIDED property=%s: %s" % (prop, undecided))
        code = 2
    if open_obs:
        for o in open_obs:
            out.append("  undecided: %s  at %s  -- %s" % (o.key, o.where, o.detail))
        out.append("UNDECIDED property=%s: %d obligation(s) could be neither established nor refuted (a site or a construction the rules do not know)" % (prop, len(open_obs)))
        code = 2
    if unlisted:
        vpath = os.path.join(EVIDENCE_DIR, "%s.violations.json" % prop)
        if repo is None or os.path.abspath(repo) == os.path.abspath(REPO):
            with open(vpath, "w") as f:
                json.dump([o.as_json() for o in unlisted], f, indent=1)
        for o in unlisted:
            out.append("  violation: %s  at %s  -- %s" % (o.key, o.where, o.detail))
        out.append("VIOLATION property=%s replay=%s" % (prop, vpath))
        code = 1
    else:
        vpath = os.path.join(EVIDENCE_DIR, "%s.violations.json" % prop)
        if os.path.exists(vpath) and (repo is None or os.path.abspath(repo) == os.path.abspath(REPO)):
            os.remove(vpath)
    if not quiet:
        for line in out:
            print(line)
        print("%s %s: %d obligations, %d discharged, %d known findings, %d violations, %s [%ss]" % (
            prop, tier, len(ctx.obs), len(discharged), len(listed), len(unlisted),
            "UNDECIDED" if (undecided or open_obs) else "decided", wall))
    return code, ctx, out


def selftest(ctx, prop):
    """Thorough tier: the property's seeded controls (controls/patches) are applied to scratch copies of the analysed tree and the
    quick check must report each with the expected rule; a control that no longer applies is skipped, a missed one makes the run
    undecided (the checker lost reach) -- never a violation of the property."""
    import subprocess
    from concurrent.futures import ThreadPoolExecutor
    sys.path.insert(0, os.path.join(VERIF, "controls"))
    import run_controls
    reg = json.load(open(os.path.join(VERIF, "controls", "controls.json")))
    sel = {n: m for n, m in reg.items() if m["property"].split(",")[0] == prop}   # the control's primary property
    env_guard = dict(os.environ, VERIF_NO_SELFTEST="1")
    os.environ["VERIF_NO_SELFTEST"] = "1"
    missed = []
    try:
        with ThreadPoolExecutor(max_workers=8) as ex:
            for r in ex.map(lambda kv: run_controls.run_one(kv[0], dict(kv[1], property=prop), False, "quick"), sorted(sel.items())):
                name, status = r[0], r[1]
                ctx.count("controls-" + status.split(" ")[0])
                if status.startswith("MISSED"):
                    missed.append(name)
    finally:
        os.environ.pop("VERIF_NO_SELFTEST", None)
    ctx.note("self-test: %d seeded controls for %s applied to scratch copies: %s" % (len(sel), prop, {k: v for k, v in ctx.counts.items() if k.startswith("controls-")}))
    if missed:
        raise Undecided("self-test: seeded controls no longer reported: %s" % missed)
