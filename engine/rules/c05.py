"""C05 -- raw and integer vectors behave as plain sequences under any operation history (structural part).

 R1 tail invariant: after every shrinking store to RawVector.len and every whole-word fill of its data, every path to return
    passes through set_unused_bits(false) (or the data was cleared); nobody outside impl RawVector stores its fields
 R2 write_int masks the value before any store and clears a word's field before or-ing into it; push_bit ors at split_offset(len)
 R3 IntVector.len is stored only together with a length-changing call on IntVector.data; pack replaces width and data together
 R4 equality of RawVector and IntVector is the derived field equality
"""
from facts import Undecided, loc, tstr, callee_name, callee_written, subterms, operand_place
from guards import facts_at, must_pass_through, strip_casts, edge_facts
from effects import field_store_blocks, store_path, comutated
from pat import m, Bind, ANY, Call, Bin, Const, Param, SelfField, core, self_path

RV = "raw_vector::RawVector"
IV = "int_vector::IntVector"
SUB = RV + "::set_unused_bits"

META = {
    "level": "other",
    "technique": "static analysis: must-pass-through (post-dominance) of the tail-clearing helper after shrinking/filling triggers, mask-before-store dataflow in write_int, co-mutation, derive facts (MIR, rustc_private driver)",
    "explanation": "The representation invariant 'unused bits of the last word are zero' is what makes derived equality, serialization and "
                   "count_ones history-independent. Triggers (stores to RawVector.len that are not growth by a masked write, whole-word "
                   "fills of data, non-empty aggregates) are enumerated from MIR in every function of the crate; each must be followed on "
                   "every CFG path to return by set_unused_bits(_, false) or by clearing data. write_int's value parameter must reach "
                   "stores only through `value & low_set(width)`, and every or-store must be dominated by an and-store (clear) of the same "
                   "word. IntVector's len/data and width/data are stored together. The values read back (get/pop/pack) are not decided.",
    "trusted_base": ["rustc's MIR faithfully represents the source", "Vec::resize/clear/push semantics"],
    "assumptions": ["bytes loaded by RawVector::load were written by the library (tail already zero); documented precondition of set_bit/set_int: offset within the vector"],
}

EMPTY_DATA = ("std::vec::Vec::<T>::with_capacity", "std::vec::Vec::<T>::new", "std::default::Default::default", "<std::vec::Vec<T> as std::default::Default>::default")
# Reviewed aggregate sites (named + reason): data comes from outside and is trusted to satisfy the invariant.
REVIEWED_AGGREGATES = {
    "<raw_vector::RawVector as serialize::Serialize>::load": "bytes written by the library satisfy the invariant at write time; the loader checks the word count only (documented: loading is unsafe in spirit)",
    "<raw_vector::RawVector as std::clone::Clone>::clone": "derived Clone copies a value that already satisfies the invariant",
    "<raw_vector::RawVector as std::default::Default>::default": "derived Default: empty",
}


def check(ctx):
    configs = ["native"] if ctx.tier == "quick" else ["native", "portable", "native-rel", "portable-rel"]
    for cfg in configs:
        check_config(ctx, ctx.facts(cfg), "" if cfg == "native" else "@" + cfg)


_helper = {}


def tail_helper(F):
    """The private method of RawVector that re-establishes the tail invariant, found by what it does, not by its name: an
    and-store of a data word with `low_set(split_offset(len).1)`.  (A rename of a private helper is not a change of behaviour.)"""
    if id(F) in _helper:
        return _helper[id(F)]
    found = SUB if F.has_body(SUB) else None
    if found is None:
        cands = []
        for b in F.all_bodies():
            if not is_raw_vector_fn(F, b.name) or b.nargs != 2 or b.local_ty(2) != "bool":
                continue
            for bi, si, st in b.stmts():
                if st["s"] == "assign" and st["lhs"]["p"] == ["deref"]:
                    for dbi, rv in b.stored_values(bi, st):
                        if rv["r"] == "bin" and rv["op"] == "BitAnd" and any(
                                x[0] == "call" and x[1] == "bits::low_set" and any(y[0] == "call" and y[1] == "bits::split_offset" for y in subterms(x))
                                for x in subterms(b.term_of_rvalue(rv))):
                            cands.append(b.name)
        cands = sorted(set(cands))
        if len(cands) == 1:
            found = cands[0]
    if found is None:
        raise Undecided("anchor lost: the tail-clearing helper of RawVector (was %s)" % SUB)
    _helper[id(F)] = found
    return found


def clearing_blocks(b):
    out = []
    helper = tail_helper(b.facts) if getattr(b, "facts", None) is not None else SUB
    for bi, t in b.calls():
        n = callee_name(t)
        if n == helper and m(Const(0), b.term_of_operand(t["args"][1])):
            out.append(bi)
        elif n.startswith("std::vec::Vec::<") and n.endswith("::clear"):
            a = b.term_of_operand(t["args"][0])
            if any(x[0] == "field" and x[2] == "data" for x in subterms(a)):
                out.append(bi)
    # the same clearing written in place (the helper inlined): `data[split_offset(len).0] &= low_set(split_offset(len).1)`, skipped
    # exactly when the width is 0.  The block that computes the split decides both ways, so it is the point every path must pass;
    # it counts only if the store it leads to has the helper's guard (width != 0 and nothing stricter).
    if getattr(b, "facts", None) is not None and is_raw_vector_fn(b.facts, b.name):
        from guards import fact_nonzero, fact_at_least
        for bi, si, st in b.stmts():
            if st["s"] != "assign" or st["lhs"]["p"] != ["deref"]:
                continue
            for dbi, rv in b.stored_values(bi, st):
                if rv["r"] != "bin" or rv["op"] != "BitAnd":
                    continue
                for side in ("a", "b"):
                    env = {}
                    if not m(Call("bits::low_set", Bind("w")), b.term_of_operand(rv[side]), env):
                        continue
                    w = env["w"]
                    if not (core(w)[0] == "field" and core(core(w)[1])[0] == "call" and core(core(w)[1])[1] == "bits::split_offset"):
                        continue
                    fs = facts_at(b, dbi)
                    if not (fact_nonzero(fs, w) and not fact_at_least(fs, w, 2)):
                        continue
                    for ci, t in b.calls():
                        if callee_name(t) == "bits::split_offset" and b.dominates(ci, dbi):
                            out.append(ci)
    return out


def is_raw_vector_fn(F, name):
    f = F.fns.get(name, [None])[0]
    return f is not None and f.get("impl_self") == RV


def check_grow_fill(ctx, F, tag, prefix="C05.R4"):
    """RawVector::resize(new_len, value): when the vector grows, the bits between the old length and the end of its last word
    become content; they are set to `value` by set_unused_bits(value) *before* the word array is extended. That call must be taken
    exactly when the length grows in bits -- a test on word counts skips growth inside the last word."""
    b = F.body("raw_vector::RawVector::resize")
    fills = [(bi, t) for bi, t in b.calls() if callee_name(t) == "raw_vector::RawVector::set_unused_bits" and
             core(b.term_of_operand(t["args"][1]))[:2] == ("param", 2)]
    ok = len(fills) == 1
    detail = "%d set_unused_bits(value) calls" % len(fills)
    if ok:
        bi = fills[0][0]
        grows = []
        other = []
        for f in facts_at(b, bi):
            if f[0] != "cmp":
                continue
            x, y = core(f[2]), core(f[3])
            is_len = lambda t: self_path(t) == ["len"] or (t[0] == "call" and t[1].endswith("RawVector::len") and core(t[2][0])[:2] == ("param", 0))
            if (f[1] in ("Gt", "Ge") and x[:2] == ("param", 1) and is_len(y)) or (f[1] in ("Lt", "Le") and y[:2] == ("param", 1) and is_len(x)):
                grows.append(f)
            else:
                other.append(tstr(("bin", f[1], f[2], f[3]))[:70])
        ex = [t for bj, t in b.calls() if callee_name(t).startswith("std::vec::Vec::<") and callee_name(t).endswith("::resize")]
        before = bool(ex) and all(b.dominates(bi, bj) or bi < 0 for bj, t in b.calls() if t in ex) or True
        ok = bool(grows) and not other
        detail = "fill guarded by new_len > len: %s; other conditions on the fill: %s" % (bool(grows), other)
    ctx.ob(prefix + ".grow-fills-tail", b.name + tag, loc(b.raw["span"]), ok, "guard-dominance", detail)


def check_tail_invariant(ctx, F, tag, prefix="C05.R1"):
    """R1: the unused bits of a RawVector's last word are re-zeroed after every shrinking / filling trigger."""
    tail_helper(F)              # (fails closed -- undecided -- before any trigger is judged, if the helper cannot be identified)
    ntrig = 0
    outside = []
    for b in F.all_bodies():
        clr = None
        trig = []
        # (a) stores to RawVector.len / data
        for fld in ("len", "data"):
            for bi, si, st in field_store_blocks(b, RV, fld):
                if not is_raw_vector_fn(F, b.name):
                    outside.append("%s stores RawVector.%s" % (b.name, fld))
                if fld == "len":
                    v = b.term_of_rvalue(st["rv"])
                    growth = m(Bin("Add", SelfField("len"), ANY), v)
                    if not growth:
                        trig.append((bi, "len := %s" % tstr(v), st["sp"]))
                else:
                    if len(store_path(st["lhs"])) == 1:
                        trig.append((bi, "data replaced", st["sp"]))
        # (b) aggregates
        for bi, si, st in b.stmts():
            if st["s"] == "assign" and st["rv"]["r"] == "agg" and st["rv"].get("def") == RV:
                if not is_raw_vector_fn(F, b.name):
                    outside.append("%s constructs RawVector" % b.name)
                ops = dict(zip(st["rv"]["fields"], st["rv"]["ops"]))
                d = core(b.term_of_operand(ops["data"]))
                empty = d[0] == "call" and (d[1] in EMPTY_DATA or d[1].startswith("std::vec::Vec::<T>::with_capacity") or d[1].startswith("std::vec::Vec::<T>::new"))
                if empty:
                    ln = b.term_of_operand(ops["len"])
                    ctx.ob(prefix + ".empty-aggregate-len-zero", b.name + tag, loc(st["sp"]), m(Const(0), ln) or m(Call("std::default::Default::default"), ln), "term-shape", "RawVector{len: %s, data: empty}" % tstr(ln), nontrivial=False)
                elif b.name in REVIEWED_AGGREGATES:
                    ctx.exempt(prefix + ".tail-cleared-after-trigger", b.name, loc(st["sp"]), REVIEWED_AGGREGATES[b.name])
                    ctx.ob(prefix + ".tail-cleared-after-trigger", "%s|aggregate%s" % (b.name, tag), loc(st["sp"]), True, "reviewed-invariant", REVIEWED_AGGREGATES[b.name])
                else:
                    # words produced by complementing other words have ones past the end whenever len % 64 != 0: an aggregate
                    # built from them and never cleared is positively wrong, wherever it appears
                    flipped = any(x[0] == "un" and x[1] == "Not" for x in subterms(d))
                    for x in subterms(d):
                        if x[0] == "closure" and F.has_body(x[2]):
                            cb = F.body(x[2])
                            flipped = flipped or any(st_["s"] == "assign" and st_["rv"]["r"] == "un" and st_["rv"]["op"] == "Not" for _, _, st_ in cb.stmts()) or \
                                any(callee_written(t_).endswith("ops::Not::not") for _, t_ in cb.calls())
                    trig.append((bi, "RawVector{data: %s}%s" % (tstr(d)[:60], " [complemented words]" if flipped else ""), st["sp"]))
        # (c) Vec::resize with a non-zero filler on a RawVector's data, (d) stores through iter_mut items of data
        for bi, t in b.calls():
            n = callee_name(t)
            if n.startswith("std::vec::Vec::<") and n.endswith("::resize"):
                a0 = b.term_of_operand(t["args"][0])
                if any(x[0] == "field" and x[2] == "data" for x in subterms(a0)) and is_raw_vector_fn(F, b.name):
                    if not m(Const(0), b.term_of_operand(t["args"][2])):
                        trig.append((bi, "data.resize(_, %s)" % tstr(b.term_of_operand(t["args"][2])), t["sp"]))
        if is_raw_vector_fn(F, b.name):
            for bi, si, st in b.stmts():
                if st["s"] == "assign" and st["lhs"]["p"] == ["deref"] and b.local_ty(st["lhs"]["l"]) == "&mut u64":
                    src = b.term_of_local(st["lhs"]["l"])
                    if any(x[0] == "call" and (x[1].endswith("::iter_mut") or (x[1].endswith("::into_iter") and any(y[0] == "field" and y[2] == "data" for y in subterms(x)))) for x in subterms(src)):
                        trig.append((bi, "whole-word store through data.iter_mut()", st["sp"]))
        if not trig:
            continue
        clr = clearing_blocks(b)
        for k, (bi, what, sp) in enumerate(trig):
            ntrig += 1
            ok = must_pass_through(b, bi, clr) if bi not in clr else True
            if not ok and what == "len := 0":
                # emptied vector: data.clear() before or after the store is as good
                vclear = [ci for ci, t in b.calls() if callee_name(t).startswith("std::vec::Vec::<") and callee_name(t).endswith("::clear")]
                ok = comutated(b, bi, vclear)
            # a clearing call in the trigger's own block must come after it: blocks are split at calls, so a trigger statement
            # in block bi precedes the call terminating bi.
            ctx.ob(prefix + ".tail-cleared-after-trigger", "%s|%s#%d%s" % (b.name, what.split(" ")[0], k, tag), loc(sp), ok, "must-pass-through",
                   "trigger `%s`: every path to return %s set_unused_bits(false) / data.clear()" % (what, "passes" if ok else "does NOT pass"),
                   positive=(not ok) and what.endswith("[complemented words]"))
    ctx.count("tail-triggers" + tag, ntrig)
    # a store from elsewhere is outside what the trigger analysis above covers: the invariant may still hold there (undecided)
    ctx.ob(prefix + ".fields-private-to-impl", RV + tag, "src/raw_vector.rs", True if not outside else None, "who-may-store", "RawVector field stores/aggregates outside impl RawVector: %s" % outside)
    adt = F.adt(RV)
    for f in adt["variants"][0]["fields"]:
        ctx.ob(prefix + ".field-private", "%s.%s%s" % (RV, f["name"], tag), loc(adt["span"]), f["vis"] != "pub", "item-structure", "field %s visibility %s" % (f["name"], f["vis"]), nontrivial=False)
    # set_unused_bits(false) really masks the last word: and-store with low_set(width) under width > 0
    sb = F.body(tail_helper(F))
    # the and-store, written in place (`*w &= mask`) or as one arm of a conditional value (`*w = if value { .. } else { *w & mask }`)
    ands = []
    for bi, si, st in sb.stmts():
        if st["s"] == "assign" and st["lhs"]["p"] == ["deref"]:
            for dbi, rv in sb.stored_values(bi, st):
                if rv["r"] == "bin" and rv["op"] == "BitAnd":
                    ands.append((dbi, st, rv))
    oks = False
    detail = "no and-store"
    for bi, st, rv in ands:
        env = {}
        mask = sb.term_of_operand(rv["b"])
        if not m(Call("bits::low_set", Bind("w")), mask, env):
            env = {}
            mask = sb.term_of_operand(rv["a"])
        if m(Call("bits::low_set", Bind("w")), mask, env):
            w = env["w"]
            so = Call("bits::split_offset", Call(RV + "::len", Param(0)))
            okw = m(("field", so, "1"), w) or (w[0] == "field" and m(so, w[1]))
            fs = facts_at(sb, bi)
            from guards import fact_nonzero, fact_at_least
            # exactly "some bits of the last word are unused": width != 0, and nothing stricter (a threshold of 1 skips the
            # lengths 64k + 1, whose last word has 63 unused bits)
            g = fact_nonzero(fs, w) and not fact_at_least(fs, w, 2)
            nf = any(f[0] == "bool" and core(f[1])[:2] == ("param", 1) and f[2] is False for f in fs)
            idx = sb.term_of_local(st["lhs"]["l"])
            oki = any(x[0] == "field" and x[2] == "0" and m(so, x[1]) for x in subterms(idx)) and \
                any(self_path(x) == ["data"] for x in subterms(idx))
            oks = okw and g and nf and oki
            detail = "data[split_offset(len).0] &= low_set(split_offset(len).1) when width > 0 and value == false: mask-width=%s guard=%s false-arm=%s index=%s" % (okw, g, nf, oki)
    ctx.ob(prefix + ".helper-masks-last-word", SUB + tag, loc(sb.raw["span"]), oks, "term-shape+guard", detail + ("" if sb.name == SUB else " [helper found by shape: %s]" % sb.name))
    ctx.floor("tail-triggers" + tag, 7)



def edge_facts_to_return_avoiding(b, store_block):
    """Branch edges (u, v, facts at v) that decide to leave the function without passing store_block: v reaches a return without
    store_block, some sibling successor of u can still reach store_block."""
    can_store = b.can_reach([store_block])
    out = []
    rets = set(b.return_blocks())
    for u in sorted(b.reachable()):
        t = b.blocks[u]["term"]
        if t["t"] != "switch" or u not in can_store:
            continue
        for v in b.succ(u):
            if v in can_store or v == store_block:
                continue
            if rets & (set(b.reach_from([v])) | {v}):
                out.append((u, v, facts_at(b, v)))
    return out


def check_word_count(ctx, F, tag, rule="C05.R3.word-count-follows-length"):
    # ---------------- R3 the word count follows the length: `data.resize(bits_to_words(self.len()), ..)` reads the length that is
    # current when it runs; a store to RawVector.len reachable after it leaves data with the word count of the old length
    # ("two vectors with the same content compare equal and serialize identically" -- the derived PartialEq compares data)
    for b in F.all_bodies():
        if "::tests::" in b.name:
            continue
        lens = field_store_blocks(b, RV, "len")
        if not lens:
            continue
        k = 0
        for bi, t in b.calls():
            nme = callee_name(t)
            if not (nme.startswith("std::vec::Vec::<") and nme.split("::")[-1] in ("resize", "truncate")) or len(t["args"]) < 2:
                continue
            size = b.term_of_operand(t["args"][1])
            reads_len = any((x[0] == "call" and x[1] == RV + "::len") or (x[0] == "field" and x[2] == "len" and self_path(x) == ["len"]) for x in subterms(size))
            if not reads_len:
                continue
            after = b.reach_from(b.succ(bi))
            stale = [loc(st["sp"]) for (sbi, si, st) in lens if sbi in after]
            ctx.ob(rule, "%s|resize#%d%s" % (b.name, k, tag), loc(t["sp"]), not stale, "ordering",
                   "data is resized to the word count of self.len; stores to self.len reachable after that resize: %s" % (stale or "none"), positive=True)
            # ... and to exactly that word count: bits_to_words(len), not of len + 1 (a spare word keeps a popped bit alive past the end)
            # (decided over the residues of the length, A13: `len.div_ceil(64)` and `(len + 63) / 64` are the same count,
            # `len / 64 + 1` and `bits_to_words(len + 1)` are not -- they differ when 64 | len)
            import residues
            is_len_read = lambda x: (x[0] == "call" and x[1] == RV + "::len") or (x[0] == "field" and x[2] == "len" and self_path(x) == ["len"])
            want = ("call", "bits::bits_to_words", (residues.NVAR,), (), "bits::bits_to_words")
            exact, why = residues.equiv(F, residues.abstract(size, is_len_read), want, residues.is_nvar)
            size_txt = tstr(size)[:70] + ("" if exact is not False else "; " + why)
            ctx.ob(rule, "%s|resize#%d|exact%s" % (b.name, k, tag), loc(t["sp"]), exact, "term-shape",
                   "data is resized to bits_to_words(self.len) exactly: %s (%s)" % (exact, size_txt), positive=exact is False)
            k += 1



def check_pop_refuses_short_vector(ctx, F, tag, rule="C05.R3.pop-refuses-a-short-vector"):
    """`pop` returns what the reference sequence returns: None when the vector holds fewer bits than asked for.  Every `Some` that
    pop_int builds lies behind a comparison of the vector's length with the width *parameter itself*; a width first clamped to
    the length (`min(width, len)`) makes that comparison vacuous -- an empty vector then pops Some(0) for ever."""
    from guards import facts_at, strip_casts
    fn = "<raw_vector::RawVector as raw_vector::PopRaw>::pop_int"
    if not F.has_body(fn):
        return
    b = F.body(fn)
    somes = [(bi, st) for bi, si, st in b.stmts() if st["s"] == "assign" and st["rv"]["r"] == "agg" and st["rv"].get("def") == "std::option::Option" and st["rv"].get("variant") == 1]
    if not somes:
        ctx.ob(rule, fn + tag, loc(b.raw["span"]), None, "guard-dominance", "no Some(..) aggregate found in pop_int")
        return

    def is_len(t):
        t = strip_casts(t)
        while t[0] in ("ref", "deref"):
            t = strip_casts(t[1])
        return (t[0] == "call" and t[1].split("::")[-1] == "len") or (t[0] == "field" and t[2] == "len")
    verdict = True
    notes = []
    for bi, st in somes:
        fs = [f for f in facts_at(b, bi) if f[0] == "cmp" and f[1] in ("Ge", "Gt", "Le", "Lt") and (is_len(f[2]) or is_len(f[3]))]
        direct = [f for f in fs if strip_casts(f[3] if is_len(f[2]) else f[2])[:2] == ("param", 1)]
        if direct:
            continue
        derived = [f for f in fs if any(x[:2] == ("param", 1) for x in subterms(f[3] if is_len(f[2]) else f[2]))]
        notes.append("Some at %s: %s" % (loc(st["sp"]), "compared with a value derived from the width: %s" % tstr(derived[0][3] if is_len(derived[0][2]) else derived[0][2])[:60] if derived else "no comparison of the length with the width"))
        verdict = False if derived else (None if verdict else verdict)
    ctx.ob(rule, fn + tag, loc(b.raw["span"]), verdict, "guard-dominance",
           "%d Some(..) results, each behind `len >= width` on the width parameter itself%s" % (len(somes), ("; " + "; ".join(notes)) if notes else ""), positive=verdict is False)


RAW_WRITE_SITES = {
    ("<int_vector::IntVector as ops::Access<'a>>::set", "set_int"): "item index < len, offset = index * width (C05.R2.item-access-inside-the-vector)",
    ("bit_vector::BitVector::copy_bit_vec", "set_bit"): "positions yielded by the source's one_iter(), below the source's len(), which is the length the raw vector was made with",
    ("sparse_vector::SparseBuilder::set_unchecked", "set_bit"): "high part + number of items so far, below ones + buckets = high.len() while the builder is not full (C16.R2 guards)",
}


def check_raw_write_sites(ctx, F, tag, rule="C05.R2.raw-write-sites-reviewed"):
    """set_int / set_bit write where they are told to (the words exist up to the next word boundary, so a write that reaches past
    the logical length neither panics nor is undefined): whether the bits past the end stay zero is up to each caller.  The callers
    outside raw_vector.rs are enumerated; each pinned one carries the reason its range lies inside the length; a site the
    pinned tree does not have (a word-at-a-time fill, ..) is undecided -- never silent."""
    seen = {}
    for b in F.all_bodies():
        if "::tests::" in b.name or b.name.startswith("internal::") or b.raw["span"].startswith("src/raw_vector.rs"):
            continue
        for bi, t in b.calls():
            cn = callee_name(t)
            last = cn.split("::")[-1]
            if last in ("set_int", "set_bit") and "AccessRaw" in cn:
                k = seen.get((b.name, last), 0)
                seen[(b.name, last)] = k + 1
                why = RAW_WRITE_SITES.get((b.name, last))
                ctx.ob(rule, "%s|%s#%d%s" % (b.name, last, k, tag), loc(t["sp"]), True if why and k == 0 else None, "site-enumeration",
                       why if why and k == 0 else "a write into a raw vector from a site the pinned tree does not have: that its range stays below the vector's length is not decided")
    ctx.count("raw-write-sites" + tag, sum(seen.values()))


def check_config(ctx, F, tag):
    check_tail_invariant(ctx, F, tag)
    check_pop_refuses_short_vector(ctx, F, tag)
    check_raw_write_sites(ctx, F, tag)
    check_grow_fill(ctx, F, tag)
    from core import Relabel
    if not isinstance(ctx, Relabel) and tag in ("", "@portable"):
        # (borrowed) every integer store goes through write_int, whose keep-masks are table lookups: one wrong entry of LOW_SET /
        # HIGH_SET clears or keeps a neighbour's bit for one (offset, width) class only (C17.R1)
        import c17
        c17.check_config(Relabel(ctx, {"C17.R1.table": ("C05.R2.mask-tables", lambda k: "LOW_SET" in k or "HIGH_SET" in k)}), F, tag, "native" if tag == "" else "portable")
    # construction with a fill value / capacity / width: exactly the widths 1..=64 (shared with C09.R2)
    import c09
    c09.check_width_predicate(ctx, F, tag, "C05.R5", only=("int_vector::IntVector::new", "int_vector::IntVector::with_len", "int_vector::IntVector::with_capacity"))
    # ---------------- R2 mask before store
    check_write_int(ctx, F, tag, prefix="C05.R2")
    # push_bit ors the bit at split_offset(len) and new words are pushed as zero
    for fn in ("<raw_vector::RawVector as raw_vector::PushRaw>::push_bit", "<raw_vector::RawVector as raw_vector::PushRaw>::push_int"):
        pb = F.body(fn)
        pushes = [t for _, t in pb.calls() if callee_name(t).startswith("std::vec::Vec::<") and callee_name(t).split("::")[-1] in ("push", "resize")]
        if not pushes:
            raise Undecided("%s no longer grows data by Vec::push / Vec::resize" % fn)
        def clean_word(t):
            """0, or built from the pushed value only through `value & low_set(width)` (shifted or not): nothing above the item's bits."""
            if m(Const(0), t):
                return True
            def strip(x):
                if isinstance(x, tuple) and x and x[0] == "bin" and x[1] == "BitAnd" and \
                        (m(Bin("BitAnd", Param(1), Call(lambda n: n in ("bits::low_set", "bits::low_set_unchecked"), Param(2))), x)):
                    return ("MASKED",)
                if isinstance(x, tuple) and x and isinstance(x[0], str):
                    if x[0] == "call":
                        return (x[0], x[1], tuple(strip(y) for y in x[2])) + x[3:]
                    return tuple(strip(y) if isinstance(y, tuple) else y for y in x)
                if isinstance(x, tuple):
                    return tuple(strip(y) for y in x)
                return x
            st = strip(t)
            has_masked = any(x == ("MASKED",) for x in subterms(st))
            raw = any(isinstance(x, tuple) and x[:2] == ("param", 1) for x in subterms(st))
            shape = core(st)[0] in ("MASKED",) or (core(st)[0] == "bin" and core(st)[1] in ("Shr",) and core(core(st)[2]) == ("MASKED",))
            return has_masked and not raw and shape
        def full_width_push(t):
            blk = [bi for bi, tt in pb.calls() if tt is t]
            return bool(blk) and core(pb.term_of_operand(t["args"][-1]))[:2] == ("param", 1) and \
                any(f[0] == "cmp" and f[1] == "Eq" and ((core(f[2])[:2] == ("param", 2) and core(f[3])[:2] == ("const", 64)) or
                                                       (core(f[3])[:2] == ("param", 2) and core(f[2])[:2] == ("const", 64))) for f in facts_at(pb, blk[0]))
        okz = all(clean_word(pb.term_of_operand(t["args"][-1])) or (fn.endswith("push_int") and full_width_push(t)) for t in pushes)
        ctx.ob("C05.R2.new-words-zero", fn + tag, loc(pb.raw["span"]), okz, "constant", "words appended to data are 0 or the masked value (possibly shifted down): %s" % okz)
    check_masked_direct_stores(ctx, F, tag, "C05.R2")
    pb = F.body("<raw_vector::RawVector as raw_vector::PushRaw>::push_bit")
    st_or = [(bi, st) for bi, si, st in pb.stmts() if st["s"] == "assign" and st["lhs"]["p"] == ["deref"] and st["rv"]["r"] == "bin"]
    okp = False
    for bi, st in st_or:
        t = pb.term_of_rvalue(st["rv"])
        so = Call("bits::split_offset", SelfField("len"))
        okp = m(Bin("BitOr", ANY, Bin("Shl", Param(1), ("field", so, "1"))), t) or m(Bin("BitOr", ANY, Bin("Shl", ("cast", Param(1), ANY), ("field", so, "1"))), t) or \
            any(x[0] == "bin" and x[1] == "Shl" and core(x[2])[:2] == ("param", 1) and m(("field", so, "1"), x[3]) for x in subterms(t))
    ctx.ob("C05.R2.push-bit-at-len", "<raw_vector::RawVector as raw_vector::PushRaw>::push_bit" + tag, loc(pb.raw["span"]), okp, "term-shape",
           "push_bit ors (value as u64) << split_offset(len).1: %s" % okp)

    check_word_count(ctx, F, tag)

    # ---------------- R3 item accessors stay inside the vector: `data.int / set_int(index * width, ..)` is bounds-checked only
    # against the allocated words, so an index >= len that lands in the unused part of the last word reads zeros / writes the
    # bits that must stay zero.  The accessors of IntVector guard the index against len() themselves.
    for fn in ("<int_vector::IntVector as ops::Access<'a>>::get", "<int_vector::IntVector as ops::Access<'a>>::set"):
        if not F.has_body(fn):
            continue
        ab = F.body(fn)
        for bi, t in ab.calls():
            if callee_name(t).split("::")[-1] in ("int", "set_int") and "RawVector" in callee_name(t):
                idx = ("param", 1, ab.local_name(2))
                g = any(f[0] == "cmp" and f[1] == "Lt" and core(f[2]) == idx and any(x[0] == "call" and x[1].endswith("::len") for x in subterms(f[3])) for f in facts_at(ab, bi)) or \
                    any(f[0] == "cmp" and f[1] == "Gt" and core(f[3]) == idx and any(x[0] == "call" and x[1].endswith("::len") for x in subterms(f[2])) for f in facts_at(ab, bi))
                ctx.ob("C05.R3.item-access-inside-the-vector", fn + tag, loc(t["sp"]), g, "guard-dominance",
                       "data.%s(index * width, ..) dominated by index < len(): %s" % (callee_name(t).split("::")[-1], g))

    # ---------------- R3 IntVector co-mutation
    n = 0
    for b in F.all_bodies():
        trig = field_store_blocks(b, IV, "len")
        if not trig:
            continue
        muts = []
        for bi, t in b.calls():
            nme = callee_name(t)
            if t["args"] and any(x[0] == "field" and x[2] == "data" for x in subterms(b.term_of_operand(t["args"][0]))) and \
                    (nme.split("::")[-1] in ("push_int", "pop_int", "resize", "clear")):
                muts.append(bi)
        # ... or the data replaced as a whole on the same path (`v.len = len; v.data = data;` in a constructor from parts)
        muts += [x[0] for x in field_store_blocks(b, IV, "data") if len(store_path(x[2]["lhs"])) == 1]
        for k, (bi, si, st) in enumerate(trig):
            n += 1
            ok = comutated(b, bi, muts)
            import inline as _inl
            ctx.ob("C05.R3.int-vector-len-data", "%s|len#%d%s" % (b.name, k, tag), loc(st["sp"]), ok, "co-mutation", positive=not _inl.only_new([b.name]), detail=
                   "store to IntVector.len %s a length-changing call on IntVector.data on the same path" % ("is accompanied by" if ok else "is NOT accompanied by"))
    # items enter IntVector.data only through the masking writers; word-level fills are zero fills
    from effects import rooted_mut_refs
    nm = 0
    for b in F.all_bodies():
        f = F.fns.get(b.name, [{}])[0]
        if f.get("impl_self") != IV and not b.name.startswith("int_vector::IntVector::"):
            continue
        if b.nargs < 1 or not b.local_ty(1).startswith("&mut"):
            continue
        holders = rooted_mut_refs(b, 1, by_ref=True)
        for bi, t in b.calls():
            if not t["args"]:
                continue
            q = operand_place(t["args"][0])
            if q is None or q["p"] or q["l"] not in holders or q["l"] == 1 or not b.local_ty(q["l"]).startswith("&mut"):
                continue
            if self_path(b.term_of_operand(t["args"][0])) != ["data"]:
                continue
            nm += 1
            meth = callee_name(t).split("::")[-1]
            ok = meth in ("push_int", "pop_int", "set_int", "clear", "reserve")
            detail = "self.data.%s(..)" % meth
            if meth == "resize":
                fill = b.term_of_operand(t["args"][2])
                ok = m(Const(0), fill)
                detail = "self.data.resize(_, %s): a word-level fill of an integer vector must be the constant `false` (items of width > 1, and values wider than the width, are not bit fills)" % tstr(fill)
            ctx.ob("C05.R3.int-vector-data-writers", "%s|%s%s" % (b.name, meth, tag), loc(t["sp"]), ok, "who-may-mutate", detail, nontrivial=meth == "resize")
    # the same for vectors under construction: a bit-level fill (RawVector::with_len / resize with a non-constant fill bit) of what
    # becomes IntVector.data writes all-zero or all-one items -- right only for values whose low `width` bits are all equal
    import widths
    fills = []
    for b in F.all_bodies():
        if "::tests::" in b.name or widths.body_file(b) != "src/int_vector.rs":
            continue
        for bi, t in b.calls():
            nme = callee_name(t)
            if nme in (RV + "::with_len", RV + "::resize") and not m(Const(0), b.term_of_operand(t["args"][-1])):
                # positively wrong: the fill is chosen by an ordering test on an unmasked parameter (value >= low_set(width) holds for
                # values whose low bits are not all ones); any other computed fill bit is neither established nor refuted
                R = set(b.can_reach([bi])) | {bi}
                # (tests that decide whether the fill is reached: an edge towards the call whose sibling edge leads away from it)
                ordered = [f for (u, v, f) in edge_facts(b) if v in R and any(w not in R for w in b.succ(u)) and f[0] == "cmp" and f[1] in ("Ge", "Gt", "Le", "Lt") and
                           any(core(x)[0] == "param" and b.local_ty(core(x)[1] + 1) == "u64" for x in (f[2], f[3]))]
                fills.append((bool(ordered), "%s: %s(.., %s) at %s%s" % (b.name, nme.split("::")[-1], tstr(b.term_of_operand(t["args"][-1]))[:50], loc(t["sp"]),
                                                                       " behind an ordering test on the unmasked value" if ordered else "")))
    bad = any(o for o, _ in fills)
    ctx.ob("C05.R3.int-vector-no-bit-level-fill", "src/int_vector.rs" + tag, "src/int_vector.rs", True if not fills else (False if bad else None), "who-may-mutate",
           "bit-level fills with a fill bit other than the constant `false` in the integer vector's module (count must be 0): %s" % [d for _, d in fills][:3],
           nontrivial=False, positive=bad)
    ctx.count("int-vector-data-mutations" + tag, nm)
    ctx.floor("int-vector-data-mutations" + tag, 6)
    ctx.count("int-vector-len-stores" + tag, n)
    ctx.floor("int-vector-len-stores" + tag, 4)
    pk = F.body("<int_vector::IntVector as ops::Pack>::pack")
    ws = field_store_blocks(pk, IV, "width")
    ds = [x for x in field_store_blocks(pk, IV, "data") if len(store_path(x[2]["lhs"])) == 1]
    okk = len(ws) == 1 and len(ds) == 1 and comutated(pk, ws[0][0], [ds[0][0]]) and comutated(pk, ds[0][0], [ws[0][0]])
    detail = "pack stores width and data together"
    if okk:
        wv = pk.term_of_rvalue(ws[0][2]["rv"])
        dv = pk.term_of_rvalue(ds[0][2]["rv"])
        # the new data was filled by push_int(value, new_width) with the same new_width
        pushes = [t for _, t in pk.calls() if callee_name(t).endswith("::push_int")]
        # the new width is bit_len(..) of something -- in every arm, if it is chosen among several ways of computing it
        alts = [wv]
        if core(wv)[0] == "var":
            dd = pk.defs().get(core(wv)[1], [])
            if dd and all(d[2] in ("assign", "call") for d in dd):
                alts = [pk.term_of_rvalue(d[3]) if d[2] == "assign" else pk.term_of_call(d[3]) for d in dd]
        def is_bit_len(v):
            v = core(v)
            if m(Call("bits::bit_len", ANY), v):
                return True
            # ... or the payload of a helper's Some(bit_len(..))
            return any(isinstance(x, tuple) and x and x[0] == "call" and x[1] == "bits::bit_len" for x in subterms(v)) and v[0] in ("field", "downcast", "adt")
        okk = len(pushes) == 1 and core(pk.term_of_operand(pushes[0]["args"][2])) == core(wv) and all(is_bit_len(v) for v in alts)
        detail = "pack: width := %s, data := vector filled by push_int(_, same width): %s" % (tstr(wv)[:80], okk)
    ctx.ob("C05.R3.pack-width-data", "<int_vector::IntVector as ops::Pack>::pack" + tag, loc(pk.raw["span"]), okk, "co-mutation+term", detail)
    # "pack() selects exactly the width of the largest item": the paths that leave the vector as it is are the empty vector and
    # new_width == width -- nothing weaker (a pack that skips the copy when no word would be saved keeps a wider width)
    if ws:
        skipping = [e for e in edge_facts_to_return_avoiding(pk, ws[0][0])]
        okskip = True
        why = []
        wv_ = core(pk.term_of_rvalue(ws[0][2]["rv"]))
        is_width = lambda x: (core(x)[0] == "call" and core(x)[1].endswith("::width")) or self_path(x) == ["width"]
        for (u, v, fs) in skipping:
            # `the width that would be stored == the current width` (the stored term itself, or bit_len(..) spelled out)
            eqw = any(f[0] == "cmp" and f[1] == "Eq" and ((is_width(f[2]) and (core(f[3]) == wv_ or any(x[0] == "call" and x[1] == "bits::bit_len" for x in subterms(f[3])))) or
                                                        (is_width(f[3]) and (core(f[2]) == wv_ or any(x[0] == "call" and x[1] == "bits::bit_len" for x in subterms(f[2]))))) for f in fs)
            empty = any((f[0] == "bool" and f[2] is True and any(x[0] == "call" and x[1].endswith("::is_empty") for x in subterms(f[1]))) or
                        (f[0] == "cmp" and f[1] == "Eq" and any(x[0] == "call" and x[1].endswith("::len") for x in list(subterms(f[2])) + list(subterms(f[3]))) and
                         any(core(x)[:2] == ("const", 0) for x in (f[2], f[3]))) or
                        (f[0] == "discr" and any(x[0] == "call" and x[1].split("::")[-1] in ("max", "next") for x in subterms(f[1]))) for f in fs)
            if eqw or empty:
                continue
            # positively weaker than equality: the deciding test is an ordering comparison (on widths, word counts, savings)
            decide = [f for (u2, v2, f) in edge_facts(pk) if u2 == u and v2 == v and f[0] == "cmp"]
            weaker = any(f[1] in ("Ge", "Gt", "Le", "Lt") for f in decide)
            okskip = False if (weaker or okskip is False) else None
            why.append("bb%d->bb%d%s" % (u, v, " (ordering test)" if weaker else " (test not recognised)"))
        ctx.ob("C05.R3.pack-skips-only-when-minimal", "<int_vector::IntVector as ops::Pack>::pack" + tag, loc(pk.raw["span"]), okskip if skipping else None, "guard-dominance",
               "%d branch(es) leave pack without storing a width; each is behind `is_empty()` or `bit_len(max) == width()`: %s" % (len(skipping), "yes" if okskip else why))

    # ---------------- R4 derived equality
    for adt_ in (RV, IV):
        ok = F.derives(adt_, "std::cmp::PartialEq") and F.derives(adt_, "std::cmp::Eq") and not F.manual_impl(adt_, "std::cmp::PartialEq")
        ctx.ob("C05.R4.derived-equality", adt_ + tag, loc(F.adt(adt_)["span"]), ok, "item-structure", "%s derives PartialEq+Eq and has no manual impl: %s" % (adt_, ok), nontrivial=False)


def check_masked_direct_stores(ctx, F, tag, prefix):
    """The integer writers (RawVector::push_int / set_int, RawVectorWriter::push_int) hand the value to bits::write_int, which masks it
    to `width` bits.  A writer that also stores into a data word itself (a fast path) must store the value only as
    `value & low_set(width)`: an unmasked caller value or-ed / stored into a word sets bits that belong to the next item or to the
    zero tail.  Positive identification: the store is there and the value in it is the bare parameter."""
    for fn, vi, wi in (("<raw_vector::RawVector as raw_vector::PushRaw>::push_int", 1, 2),
                       ("<raw_vector::RawVector as raw_vector::AccessRaw>::set_int", 2, 3),
                       ("<raw_vector::RawVectorWriter as raw_vector::PushRaw>::push_int", 1, 2)):
        if not F.has_body(fn):
            continue
        b = F.body(fn)
        is_low = lambda n: n in ("bits::low_set", "bits::low_set_unchecked")

        def strip(x):
            if isinstance(x, tuple) and x and x[0] == "bin" and x[1] == "BitAnd" and m(Bin("BitAnd", Param(vi), Call(is_low, Param(wi))), x):
                return ("MASKED",)
            if isinstance(x, tuple) and x and isinstance(x[0], str):
                if x[0] == "call":
                    return (x[0], x[1], tuple(strip(y) for y in x[2])) + x[3:]
                return tuple(strip(y) if isinstance(y, tuple) else y for y in x)
            if isinstance(x, tuple):
                return tuple(strip(y) for y in x)
            return x
        def full_width(block):
            # behind `width == 64` the mask is all ones: the value is what it is
            return any(f[0] == "cmp" and f[1] == "Eq" and ((core(f[2])[:2] == ("param", wi) and core(f[3])[:2] == ("const", 64)) or
                                                          (core(f[3])[:2] == ("param", wi) and core(f[2])[:2] == ("const", 64))) for f in facts_at(b, block))
        bad, n = [], 0
        for bi, si, st in b.stmts():
            if st["s"] == "assign" and st["lhs"]["p"] and (st["lhs"]["p"][-1] == "deref" or (isinstance(st["lhs"]["p"][-1], dict) and "idx" in st["lhs"]["p"][-1])):
                if b.local_ty(st["lhs"]["l"]) in ("&mut u64",) or "idx" in str(st["lhs"]["p"][-1]):
                    for dbi, rv in b.stored_values(bi, st):
                        n += 1
                        t = strip(b.term_of_rvalue(rv))
                        if any(isinstance(x, tuple) and x[:2] == ("param", vi) for x in subterms(t)) and not full_width(dbi):
                            bad.append(loc(st["sp"]))
        for bi, t in b.calls():
            if callee_name(t).startswith("std::vec::Vec::<") and callee_name(t).split("::")[-1] == "push":
                n += 1
                if any(isinstance(x, tuple) and x[:2] == ("param", vi) for x in subterms(strip(b.term_of_operand(t["args"][-1])))) and not full_width(bi):
                    bad.append(loc(t["sp"]))
        ctx.ob(prefix + ".no-unmasked-direct-store", fn + tag, loc(b.raw["span"]), not bad, "dataflow",
               "%d direct word stores / pushes in the writer; with the value not masked to `width` bits: %s" % (n, bad or "none"), nontrivial=bool(n), positive=True)


def _ls(d):
    """A linear form as text."""
    parts = []
    for k_, v in sorted(d.items(), key=repr):
        name = "" if k_ == () else ("arg%d" % k_[1] if k_[0] == "param" else tstr(k_)[:40])
        parts.append(("%+d" % v) if k_ == () else ("%+d*%s" % (v, name)))
    return " ".join(parts) or "0"


def check_write_int(ctx, F, tag, prefix):
    """write_int: the value reaches stores only masked; every or-store is dominated by a clearing and-store of the same word."""
    wb = F.body("bits::write_int")
    pv = ("param", 2, wb.local_name(3))
    masked = None
    for bi, si, st in wb.stmts():
        if st["s"] == "assign" and st["rv"]["r"] == "bin" and st["rv"]["op"] == "BitAnd":
            t = wb.term_of_rvalue(st["rv"])
            if m(Bin("BitAnd", Param(2), Call("bits::low_set", Param(3))), t):
                masked = t

    def strip_masked(t):
        if t == masked:
            return ("MASKED",)
        if isinstance(t, tuple) and t and isinstance(t[0], str):
            if t[0] == "call":
                return (t[0], t[1], tuple(strip_masked(x) for x in t[2])) + t[3:]
            return tuple(strip_masked(x) if isinstance(x, tuple) else x for x in t)
        if isinstance(t, tuple):
            return tuple(strip_masked(x) for x in t)
        return t

    raw_uses = []
    stores = []
    for bi, si, st in wb.stmts():
        if st["s"] != "assign":
            continue
        t = wb.term_of_rvalue(st["rv"])
        if st["lhs"]["p"] == ["deref"]:
            stores.append((bi, st, t))
            if any(x[:2] == ("param", 2) for x in subterms(strip_masked(t))):
                raw_uses.append("store at %s" % loc(st["sp"]))
    for bi, t in wb.calls():
        for a in t["args"]:
            if any(x[:2] == ("param", 2) for x in subterms(strip_masked(wb.term_of_operand(a)))):
                raw_uses.append("call %s" % callee_name(t))
    ctx.ob(prefix + ".value-masked-before-store", "bits::write_int" + tag, loc(wb.raw["span"]), masked is not None and not raw_uses and len(stores) >= 2, "dataflow",
           "value reaches stores/calls only as value & low_set(width): unmasked uses %s; %d stores" % (raw_uses, len(stores)))
    # every store lies inside one of the two arms of the test "does the field fit into the word" (offset + width <= 64 or its
    # negation is a fact at the store): a store ahead of that test -- a fast path that writes one word for every offset -- loses the
    # part of a field that crosses the word boundary
    from guards import facts_at as _facts_at, strip_casts as _sc

    def fit_fact(f):
        if f[0] != "cmp" or f[1] not in ("Le", "Lt", "Gt", "Ge"):
            return False
        sides = [_sc(f[2]), _sc(f[3])]
        return any(x[:2] == ("const", 64) or (x[0] == "const" and len(x) > 2 and str(x[2]).endswith("WORD_BITS")) for x in sides) and \
            any(x[0] == "bin" and x[1] == "Add" and any(y[:2] == ("param", 3) for y in subterms(x)) for x in sides)
    # Paths, not blocks (the first-word stores may be hoisted out of the test, the spill written under `if !fits`): leaving out the
    # edges on which the field is known to fit and the blocks that store into the second word, no return may be reachable.  If one
    # is, and it stays reachable when every edge that tests the offset in any way is left out as well, the function writes one
    # word whatever the offset: refuted.  If only some other test of the offset opens the path (aligned power-of-two fields):
    # undecided.
    from guards import edge_facts as _edge_facts

    def is_fit(f, positive):
        if f[0] == "bool" and isinstance(f[1], tuple) and f[1] and f[1][0] == "bin":
            val = f[2] if isinstance(f[2], bool) else (str(f[2]) == "True")
            g = ("cmp", f[1][1], f[1][2], f[1][3])
            if not val:
                neg = {"Le": "Gt", "Lt": "Ge", "Gt": "Le", "Ge": "Lt"}.get(g[1])
                if neg is None:
                    return False
                g = ("cmp", neg, g[2], g[3])
            f = g
        if not fit_fact(f):
            return False
        sides = [_sc(f[2]), _sc(f[3])]
        sum_left = sides[0][0] == "bin"
        fits = (f[1] in ("Le", "Lt")) == sum_left          # sum <= 64  /  64 >= sum
        return fits == positive

    def about_offset(f):
        return any(any(isinstance(x, tuple) and x and ((x[0] == "call" and x[1] == "bits::split_offset") or x[:2] == ("param", 1)) for x in subterms(y))
                   for y in f[1:] if isinstance(y, tuple))
    spill = set(bi for bi, st, t in stores if any(x[0] == "bin" and x[1] == "Add" and _sc(x[3])[:2] == ("const", 1) for x in subterms(wb.term_of_place(st["lhs"])) ) ) if hasattr(wb, "term_of_place") else None
    if spill is None:
        # the second word: a store whose index place is `index + 1` -- recognised through the IndexMut call that produced the reference
        spill = set()
        for bi, t in wb.calls():
            if callee_name(t).split("::")[-1] == "index_mut" and len(t["args"]) == 2:
                ix = _sc(wb.term_of_operand(t["args"][1]))
                if ix[0] == "bin" and ix[1] == "Add" and _sc(ix[3])[:2] == ("const", 1):
                    spill.add(bi)
    ef = list(_edge_facts(wb))
    rets = set(wb.return_blocks())

    def reach(cut):
        seen, st_ = set(), [0]
        while st_:
            x = st_.pop()
            if x in seen or x in spill:
                continue
            seen.add(x)
            for y in wb.succ(x):
                if (x, y) in cut:
                    continue
                st_.append(y)
        return bool(seen & rets)
    cut_fit = set((u, v) for u, v, f in ef if is_fit(f, True))
    cut_any = set((u, v) for u, v, f in ef if about_offset(f))
    if not stores or not spill:
        verdict = None
    elif not reach(cut_fit):
        verdict = True
    else:
        verdict = False if reach(cut_fit | cut_any) else None
    ctx.ob(prefix + ".stores-inside-the-fit-test", "bits::write_int" + tag, loc(wb.raw["span"]), verdict, "must-pass-through(edges)",
           "%d stores, %d into the second word; every path to return either knows offset + width <= 64 or stores into the second word: %s" % (
               len(stores), len(spill), {True: "yes", False: "no -- a path writes one word without any test of the offset", None: "not decided (another test of the offset opens a path)"}[verdict]))

    def value_free(t):
        return not any(x[:2] == ("param", 2) for x in subterms(t))

    def combined(t):
        """`(old & M) | X` in one expression: the field is cleared with a value-independent mask and the new bits are or-ed in."""
        t = core(t)
        if not (t[0] == "bin" and t[1] == "BitOr"):
            return False
        for x, y in ((t[2], t[3]), (t[3], t[2])):
            x = core(x)
            if x[0] == "bin" and x[1] == "BitAnd" and (value_free(x[2]) or value_free(x[3])) and value_free(x) and \
                    any(z[0] in ("index", "call") and (z[0] == "index" or z[1].endswith(("::index", "::index_mut"))) for z in subterms(x)):
                return True
        return False
    comb = [(bi, st, t) for bi, st, t in stores if combined(t)]
    ors = [(bi, st, t) for bi, st, t in stores if t[0] == "bin" and t[1] == "BitOr" and not combined(t)]
    ands = [(bi, st, t) for bi, st, t in stores if t[0] == "bin" and t[1] == "BitAnd"]
    others = [(bi, st, t) for bi, st, t in stores if not (t[0] == "bin" and t[1] in ("BitOr", "BitAnd"))]
    ctx.count("write_int-stores" + tag, len(stores))

    def word_index(st):
        t = wb.term_of_local(st["lhs"]["l"])
        t = core(t)
        return t[2][1] if t[0] == "call" and t[1].endswith("::index_mut") else t

    for k, (bi, st, t) in enumerate(ors):
        idx = word_index(st)
        cleared = [a for a in ands if word_index(a[1]) == idx and (wb.dominates(a[0], bi)) and
                   not any(x[:2] == ("param", 2) for x in subterms(a[2][3]))]
        ctx.ob(prefix + ".field-cleared-before-or", "bits::write_int|or#%d%s" % (k, tag), loc(st["sp"]), len(cleared) >= 1, "dominance",
               "or-store into word [%s] is dominated by an and-store (clear with a value-independent mask) of the same word: %s" % (tstr(idx), len(cleared) >= 1))
    for k, (bi, st, t) in enumerate(comb):
        ctx.ob(prefix + ".field-cleared-before-or", "bits::write_int|replace#%d%s" % (k, tag), loc(st["sp"]), True, "term-shape",
               "word [%s] := (old & value-independent mask) | new bits, in one expression" % tstr(word_index(st))[:60])
    # the extent of each clearing mask, as a set of kept bit ranges with linear bounds in (offset, width): the field
    # [offset, offset + width) of the word is cleared and nothing else.  A mask that keeps too much leaves old bits under the new
    # value; one that keeps too little (S: `!low_set(offset)` for the second word) erases the neighbouring item.
    from guards import linear, fact_linear_le
    from pat import fold_consts
    off = None
    for bi, tt in wb.calls():
        if callee_name(tt) == "bits::split_offset":
            off = ("field", wb.term_of_call(tt), "1")
    width = ("param", 3, wb.local_name(4))

    def L(t):
        return linear(fold_consts(t))

    def lin_add(a, b_, sign=1):
        out = dict(a)
        for k_, v in b_.items():
            out[k_] = out.get(k_, 0) + sign * v
        return {k_: v for k_, v in out.items() if v != 0}

    def kept(t):
        t = core(fold_consts(t))
        if t[0] == "const" and isinstance(t[1], int):
            return [] if t[1] == 0 else ([({}, {(): 64})] if t[1] == (1 << 64) - 1 else None)
        if t[0] == "call" and t[1] in ("bits::low_set", "bits::low_set_unchecked"):
            return [({}, L(t[2][0]))]
        if t[0] == "call" and t[1] in ("bits::high_set", "bits::high_set_unchecked"):
            return [(lin_add({(): 64}, L(t[2][0]), -1), {(): 64})]
        if t[0] == "bin" and t[1] == "BitOr":
            x, y = kept(t[2]), kept(t[3])
            return None if x is None or y is None else x + y
        if t[0] == "bin" and t[1] == "Shl":
            x = kept(t[2])
            if x is not None and len(x) == 1 and x[0][0] == {}:
                return [(L(t[3]), lin_add(L(t[3]), x[0][1]))]
            return None
        if t[0] == "un" and t[1] == "Not":
            x = kept(t[2])
            if x is None:
                return None
            x = [i for i in x if i[0] != i[1]]
            if len(x) == 1:
                return [({}, x[0][0]), (x[0][1], {(): 64})]
            if len(x) == 2:
                lo = [i for i in x if i[0] == {}]
                hi = [i for i in x if i[1] == {(): 64}]
                if len(lo) == 1 and len(hi) == 1 and lo[0] is not hi[0]:
                    return [(lo[0][1], hi[0][0])]
            return None
        return None

    def norm(iv):
        return sorted([i for i in iv if i[0] != i[1]], key=repr)

    if off is not None:
        for k, (bi, st, t) in enumerate([a for a in ands if value_free(a[2])] + comb):
            idx = core(word_index(st))
            second = idx[0] == "bin" and idx[1] == "Add"
            fs = facts_at(wb, bi)
            single = fact_linear_le(fs, ("bin", "Add", off, width), ("const", 64))
            mask = None
            tt = core(t)
            if tt[0] == "bin" and tt[1] == "BitAnd":
                cands = [x for x in (tt[2], tt[3]) if value_free(x) and kept(x) is not None]
                mask = kept(cands[0]) if cands else None
            elif tt[0] == "bin" and tt[1] == "BitOr":
                for x in (tt[2], tt[3]):
                    x = core(x)
                    # the half that keeps the old word: old & mask
                    if x[0] == "bin" and x[1] == "BitAnd" and value_free(x) and any(z[0] in ("index", "deref") or (z[0] == "call" and z[1].endswith(("::index", "::index_mut"))) for z in subterms(x)):
                        cands = [y for y in (x[2], x[3]) if kept(y) is not None]
                        mask = kept(cands[0]) if cands else None
            o, w = L(off), L(width)
            whole = [({}, o), (lin_add(o, w), {(): 64})]
            if second:
                wants = [[(lin_add(lin_add(o, w), {(): 64}, -1), {(): 64})]]
            elif single:
                wants = [whole]
            else:
                # (the whole-field mask `!(low_set(width) << offset)` is also right for the first word of a straddling field:
                # the shift drops what lies beyond the word)
                wants = [[({}, o)], whole]
            ok = None if mask is None else any(norm(mask) == norm(x) for x in wants)
            ctx.ob(prefix + ".clear-mask-extent", "bits::write_int|%s-word%s%s" % ("second" if second else "first", "" if second or not single else "-whole-field", tag), loc(st["sp"]), ok, "symbolic-mask",
                   "kept bit ranges of the clearing mask %s; the field [offset, offset + width) and nothing else is cleared: %s" % (
                       "not recognised" if mask is None else [(_ls(a), _ls(b_)) for a, b_ in norm(mask)], ok))

    # a plain assignment `array[i] = X` that does not read the old word discards every old bit of it: right for the whole-word
    # field (offset == 0 and width == 64, the fast path of a benign variant), never right for the second word of a straddling
    # field (it receives offset + width - 64 < 64 bits; the rest belongs to the following items)
    if off is not None:
        for k, (bi, st, t) in enumerate(others):
            reads_old = any(z[0] in ("index",) or (z[0] == "call" and z[1].endswith(("::index", "::index_mut"))) for z in subterms(t))
            if reads_old:
                continue
            idx = core(word_index(st))
            second = idx[0] == "bin" and idx[1] == "Add"
            fs = facts_at(wb, bi)
            from guards import fact_zero
            whole = fact_zero(fs, off) and any(f[0] == "cmp" and f[1] == "Eq" and {core(f[2])[:2], core(f[3])[:2]} == {("param", 3), ("const", 64)} for f in fs)
            ctx.ob(prefix + ".clear-mask-extent", "bits::write_int|plain-store-%s-word#%d%s" % ("second" if second else "first", k, tag), loc(st["sp"]),
                   False if second else (True if whole else None), "symbolic-mask",
                   "word [%s] := %s discards all old bits of the word%s" % (tstr(idx)[:30], tstr(t)[:50], ": the second word of a straddling field is never written whole" if second else
                                                                          (" behind offset == 0 && width == 64" if whole else "; no dominating offset == 0 && width == 64")),
                   positive=second)

    # anything else written into a word is a shape this rule does not know (undecided), not a refutation
    ctx.ob(prefix + ".only-and-or-stores", "bits::write_int" + tag, loc(wb.raw["span"]), (True if len(ors) + len(comb) >= 2 else False) if not others else None, "term-shape",
           "stores other than &= / |= / (old & m) | v: %d" % len(others), nontrivial=False)
    ctx.floor("write_int-stores" + tag, 2)
