"""A6 co-mutation and A7 per-path effect helpers: stores and &mut uses rooted at a parameter or local."""
from facts import operand_place, callee_name, callee_written, loc


def rooted_mut_refs(b, root_local, by_ref=True):
    """Locals that hold a `&mut` borrow of (a part of) the object rooted at root_local.
    by_ref=True: root_local is itself a `&mut T` parameter (places look like (*root).f); False: root_local owns the value."""
    holders = set()
    if by_ref:
        holders.add(root_local)
    changed = True
    while changed:
        changed = False
        for bi, si, st in b.stmts():
            if st["s"] != "assign" or st["lhs"]["p"]:
                continue
            l = st["lhs"]["l"]
            if l in holders:
                continue
            rv = st["rv"]
            if rv["r"] in ("ref", "rawptr") and rv["mut"]:
                p = rv["p"]
                if (p["l"] in holders and p["p"] and p["p"][0] == "deref") or (not by_ref and p["l"] == root_local):
                    holders.add(l); changed = True
            elif rv["r"] == "use":
                q = operand_place(rv["o"])
                if q is not None and not q["p"] and q["l"] in holders and q["l"] != root_local and "m" in rv["o"]:
                    holders.add(l); changed = True
                elif q is not None and not q["p"] and q["l"] in holders and by_ref and b.local_ty(l).startswith("&mut"):
                    holders.add(l); changed = True
    return holders


def store_path(lhs):
    """Field-name path of a store's lhs (after the first deref if any)."""
    out = []
    for e in lhs["p"]:
        if isinstance(e, dict) and "f" in e:
            out.append((e.get("adt"), e.get("name", str(e["f"]))))
    return out


def mutation_sites(b, root_local, by_ref=True):
    """(block, kind, description) for every store into, or &mut call on, the object rooted at root_local."""
    holders = rooted_mut_refs(b, root_local, by_ref)
    sites = []
    for bi, si, st in b.stmts():
        if st["s"] in ("assign", "setdiscr"):
            lhs = st["lhs"]
            if lhs["p"] and ((lhs["l"] in holders and lhs["p"][0] == "deref") or (not by_ref and lhs["l"] == root_local)):
                sites.append((bi, "store", ".".join(n for _, n in store_path(lhs)) or "*", st["sp"]))
            elif not by_ref and not lhs["p"] and lhs["l"] == root_local and False:
                pass
    for bi, t in b.calls():
        for a in t["args"]:
            q = operand_place(a)
            if q is not None and not q["p"] and q["l"] in holders and (q["l"] != root_local or by_ref):
                if b.local_ty(q["l"]).startswith("&mut") or b.local_ty(q["l"]).startswith("*mut"):
                    sites.append((bi, "call", callee_name(t), t["sp"]))
                    break
    return sites


def field_store_blocks(b, adt, field):
    """Blocks with a direct store whose lhs passes through field `field` of ADT `adt`."""
    out = []
    for bi, si, st in b.stmts():
        if st["s"] == "assign" and st["lhs"]["p"]:
            for a, n in store_path(st["lhs"]):
                if a == adt and n == field:
                    out.append((bi, si, st))
                    break
    return out


def comutated(b, trigger_block, partner_blocks):
    """A6: every path entry -> trigger_block -> return contains a partner store (before or after the trigger)."""
    partner = set(partner_blocks)
    if trigger_block in partner:
        return True
    before_free = trigger_block in b.reach_from([0], avoid=partner)
    after = b.reach_from([trigger_block], avoid=partner)
    after_free = any(r in after for r in b.return_blocks())
    return not (before_free and after_free)


def must_store_fns(F, adt, field):
    """Functions (methods taking self first) that directly store `field` of `adt` on every entry->return path."""
    from guards import must_pass_through
    out = set()
    for b in F.all_bodies():
        blocks = [bi for bi, _, _ in field_store_blocks(b, adt, field)]
        if blocks and must_pass_through(b, 0, blocks):
            out.add(b.name)
    return out


def comutated_ip(b, trigger_block, partner_blocks, after_only_blocks):
    """A6 with callee summaries: partner_blocks count before or after the trigger; after_only_blocks (calls of functions that
    must-store the partner field) count only after it, because a callee run earlier computed the partner from the old value."""
    partner = set(partner_blocks)
    if trigger_block in partner:
        return True
    before_free = trigger_block in b.reach_from([0], avoid=partner)
    after = b.reach_from([trigger_block], avoid=partner | (set(after_only_blocks) - {trigger_block}))
    after_free = any(r in after for r in b.return_blocks())
    return not (before_free and after_free)
