"""C07 -- files follow the published serialization format in both directions (structural part).

 R1 the sequence of structures each Serialize impl writes equals the numbered list of SERIALIZATION.md, kind by kind and (where the
    document names or describes the item) field by field -- the check a symmetric serialize+load edit cannot pass
 R2 the numeric facts stated in the document equal the constants of the code
 R3 padding and filler values are the constant zero
 R4 mandated minimal widths: the documented pack()/bit_len calls are on every path
 R5 files without support structures load (composite loaders enable what they use; BitVector::load accepts absent options)
"""
import os
import re

from facts import Undecided, loc, tstr, callee_name, callee_written, subterms, operand_place
from guards import facts_at, must_pass_through, strip_casts
from pat import m, Bind, ANY, Call, Bin, Const, Param, SelfField, core, self_path
import serfmt
import c06
import c19

META = {
    "level": "other",
    "technique": "static analysis: the format document's numbered lists and numeric sentences are parsed on every run and compared with write sequences and evaluated constants extracted from MIR; must-pass-through of the block-fit test before every run is encoded (rustc_private driver; bodies normalised by helper inlining and combinator expansion)",
    "explanation": "SERIALIZATION.md is parsed into per-structure sequences of item kinds (element, raw bitvector, bitvector, integer vector, "
                   "optional, repeated bitvector, core, items, padding) with the field each item describes; the same sequences are extracted "
                   "from serialize_header/serialize_body of the corresponding impl. A field order or type changed consistently in serialize "
                   "and load keeps every round-trip test green but disagrees with the document. Numeric statements of the document (4-bit "
                   "code units, 3 data bits, 64-unit blocks, widths 1..64, floor((n+63)/64) elements, 8-byte little-endian elements) are "
                   "compared with evaluated constants. Bucket and block-packing arithmetic is not decided.",
    "trusted_base": ["rustc's MIR and constant evaluation", "SERIALIZATION.md in the analysed tree is the normative document"],
    "assumptions": [],
}

# document heading fragment -> (impl self type, [(keyword in the item text -> field it must describe)])
STRUCTS = [
    ("raw bitvectors", "raw_vector::RawVector", {0: "len", 1: "data"}),
    ("integer vectors", "int_vector::IntVector", {0: "len", 1: "width", 2: "data"}),
    ("bitvectors", "bit_vector::BitVector", {0: "ones", 1: "data", 2: "rank", 3: "select", 4: "select_zero"}),
    ("sparse bitvectors", "sparse_vector::SparseVector", {0: "len", 1: "high", 2: "low"}),
    ("run-length encoded bitvectors", "rl_vector::RLVector", {0: "len", 1: "ones", 2: "samples", 3: "data"}),
    ("the wavelet matrix core", "wavelet_matrix::wm_core::WMCore", {1: "levels"}),
    ("plain wavelet matrices", "wavelet_matrix::WaveletMatrix", {0: "len", 1: "data", 2: "first"}),
]
# words the document uses for an item -> what they must describe (used to tie same-kind items to fields)
HINTS = {
    "bit_vector::BitVector": [("number of set bits", 0), ("rank support", 2), ("for set bits", 3), ("for unset bits", 4)],
    "rl_vector::RLVector": [("length of the vector", 0), ("number of set bits", 1), ("samples", 2), ("concatenated blocks", 3)],
    "int_vector::IntVector": [("length of the vector", 0), ("width of the items", 1)],
    "sparse_vector::SparseVector": [("high parts", 1), ("low parts", 2)],
    "wavelet_matrix::WaveletMatrix": [("`len`", 0), ("`data`", 1), ("`first`", 2)],
    "wavelet_matrix::wm_core::WMCore": [("`width`", 0), ("`levels`", 1)],
}
BASIC = [
    ("vectors of serializable items", ["element", "items"]),
    ("vectors of **bytes**", ["element", "items", "padding"]),
    ("optional structures", ["element", "cond-structure"]),
]


def kind_of_doc_item(text):
    t = text.lower()
    if "padding" in t:
        return "padding"
    if "as an element" in t:
        return "element"
    if "optional" in t:
        return "optional"
    if "for each level" in t:
        return "bitvector*"
    if "as `wmcore`" in t or "core of the wavelet matrix" in t:
        return "core"
    if "raw bitvector" in t:
        return "raw"
    if "integer vector" in t or "`intvector`" in t:
        return "intvector"
    if "bitvector" in t:
        return "bitvector"
    if "vector of elements" in t:
        return "vec-elements"
    if "concatenated items" in t:
        return "items"
    if "if present" in t:
        return "cond-structure"
    if "as an element" in t:
        return "element"
    return "unknown(%s)" % text[:30]


def kind_of_code_item(w):
    ty, mod = w["ty"], w["mod"]
    k = {"usize": "element", "u64": "element", "raw_vector::RawVector": "raw", "bit_vector::BitVector": "bitvector",
         "int_vector::IntVector": "intvector", "std::vec::Vec<u64>": "vec-elements", "wavelet_matrix::wm_core::WMCore": "core"}.get(ty)
    if k is None and ty.startswith("std::option::Option<"):
        k = "optional"
    if k is None:
        k = "unknown(%s)" % ty
    if mod == "loop":
        k += "*"
    return k


def parse_doc(path):
    if not os.path.exists(path):
        raise Undecided("format document %s is missing" % path)
    text = open(path).read()
    lists = {}
    lines = text.split("\n")
    i = 0
    while i < len(lines):
        mobj = re.match(r"^Serialization format for (.+):\s*$", lines[i])
        if mobj:
            head = mobj.group(1).strip()
            items = []
            j = i + 1
            while j < len(lines) and (lines[j].strip() == "" or re.match(r"^\d+\.\s", lines[j])):
                mm = re.match(r"^(\d+)\.\s+(.*)$", lines[j])
                if mm:
                    items.append(mm.group(2).strip())
                j += 1
            lists[head] = items
            i = j
        else:
            i += 1
    return text, lists


def need(text, pattern, what):
    mobj = re.search(pattern, text)
    if not mobj:
        raise Undecided("format document no longer contains the sentence about %s (pattern %r)" % (what, pattern))
    return mobj


def byte_order_calls(F):
    """Byte-order conversions in the functions the file format passes through: everything reachable, along resolved calls, from a
    Serialize / MemoryMapped method or a function of serialize.rs.  (A bit-manipulation primitive that happens to be spelled with
    to_le_bytes -- a bit reversal byte by byte -- is not on that path and not a statement about the file.)"""
    out = []
    calls = {}
    for b in F.all_bodies():
        calls[b.name] = set(callee_name(t) for _, t in b.calls())
    roots = [n for n in calls if "serialize::Serialize>::" in n or "serialize::MemoryMapped" in n or n.startswith("serialize::") or "Writer" in n]
    seen, st = set(), list(roots)
    while st:
        x = st.pop()
        if x in seen:
            continue
        seen.add(x)
        st.extend(y for y in calls.get(x, ()) if y in calls)
    for b in F.all_bodies():
        if b.name not in seen:
            continue
        for _, t in b.calls():
            nme = callee_name(t).split("::")[-1]
            if nme in ("to_be", "to_le", "from_be", "from_le", "swap_bytes", "to_be_bytes", "to_le_bytes", "from_be_bytes", "from_le_bytes", "to_ne_bytes", "from_ne_bytes"):
                out.append((b.name, nme))
    return out


def check(ctx):
    configs = ["native"] if ctx.tier == "quick" else ["native", "portable", "native-rel", "portable-rel"]
    text, lists = parse_doc(os.path.join(ctx.repo, "SERIALIZATION.md"))
    ctx.count("document-format-lists", len(lists))
    ctx.floor("document-format-lists", 10)
    for cfg in configs:
        check_config(ctx, ctx.facts(cfg), "" if cfg == "native" else "@" + cfg, text, lists)
    if ctx.tier == "thorough":
        import poscontrol
        poscontrol.run(ctx, "C07")


def check_config(ctx, F, tag, text, lists):
    impls = {im["self"]: im for im in serfmt.serialize_impls(F)}
    doc = "SERIALIZATION.md"
    # ---------------- R1 structure lists
    for head, self_ty, fieldmap in STRUCTS:
        if head not in lists:
            raise Undecided("format document has no list 'Serialization format for %s:'" % head)
        items = lists[head]
        im = impls.get(self_ty)
        if im is None:
            raise Undecided("anchor lost: impl Serialize for %s" % self_ty)
        H = serfmt.write_seq(im["fns"]["serialize_header"])
        B = serfmt.write_seq(im["fns"]["serialize_body"])
        # flatten header/body split (its validity is C06.R1)
        split = [h for h in H if h["method"] == "serialize_header"]
        W = [h for h in H if h["method"] == "serialize"] + [dict(s, method="serialize") for s in split] + [b for b in B if b["method"] == "serialize"]
        dk = [kind_of_doc_item(x) for x in items]
        ck = [kind_of_code_item(w) for w in W]
        ok = dk == ck
        ctx.ob("C07.R1.document-sequence", self_ty + tag, loc(im["impl"]["span"]), ok, "document-agreement",
               "document list for %s: %s; code writes: %s" % (head, dk, ["%s(%s)" % (k, ".".join(w["path"]) if w["path"] else "computed") for k, w in zip(ck, W)]))
        if not ok:
            continue
        # field-by-field: positions the document describes
        fields_written = []
        for w in W:
            if w["path"]:
                fields_written.append(w["path"][0])
            elif w["mod"] == "loop":
                fs_ = [self_path(x)[0] for x in subterms(w["recv"]) if x[0] == "field" and self_path(x)]
                fields_written.append(fs_[0] if fs_ else None)
            else:
                fields_written.append(None)
        for pos, fname in fieldmap.items():
            good = pos < len(fields_written) and fields_written[pos] == fname
            ctx.ob("C07.R1.document-field", "%s.%d=%s%s" % (self_ty, pos + 1, fname, tag), loc(im["impl"]["span"]), good, "document-agreement",
                   "item %d of the document list (%r) is written from field `%s`: code writes `%s` there" % (pos + 1, items[pos][:60], fname, fields_written[pos] if pos < len(fields_written) else None))
        for kw, pos in HINTS.get(self_ty, []):
            good = pos < len(items) and kw in items[pos].lower()
            if not good:
                raise Undecided("format document item %d of %s no longer mentions %r" % (pos + 1, head, kw))
    for head, kinds in BASIC:
        if head not in lists:
            raise Undecided("format document has no list 'Serialization format for %s:'" % head)
        dk = [kind_of_doc_item(x) for x in lists[head]]
        ctx.ob("C07.R1.document-sequence", "basic:" + head + tag, doc, dk == kinds, "document-agreement",
               "document list %s; code (checked as formulas under C06.R2.basic.*): %s" % (dk, kinds), nontrivial=False)
    # strings are byte vectors
    need(text, r"\*\*Strings\*\* are serialized as vectors of bytes using the UTF-8 encoding", "strings")
    sl = serfmt.load_seq(impls["std::string::String"]["fns"]["load"])
    ctx.ob("C07.R1.string-is-byte-vector", "String" + tag, doc, [x["ty"] for x in sl] == ["std::vec::Vec<u8>"], "document-agreement", "String::load delegates to Vec<u8>::load: %s" % [x["ty"] for x in sl])

    # ---------------- R2 numbers in the document
    mobj = need(text, r"using (\d+)-bit code units", "code unit size")
    ctx.ob("C07.R2.document-constant", "RLVector::CODE_SIZE" + tag, doc, F.const("rl_vector::RLVector::CODE_SIZE") == int(mobj.group(1)), "constant",
           "document: %s-bit code units; CODE_SIZE = %d" % (mobj.group(1), F.const("rl_vector::RLVector::CODE_SIZE")))
    mobj = need(text, r"lowest (\d+) bits of each code unit contain data", "data bits per code unit")
    cs, cf, cm = F.const("rl_vector::RLVector::CODE_SHIFT"), F.const("rl_vector::RLVector::CODE_FLAG"), F.const("rl_vector::RLVector::CODE_MASK")
    ctx.ob("C07.R2.document-constant", "RLVector::CODE_SHIFT" + tag, doc, cs == int(mobj.group(1)) and cf == 1 << cs and cm == (1 << cs) - 1 and cs + 1 == F.const("rl_vector::RLVector::CODE_SIZE"),
           "constant", "document: lowest %s bits are data, high bit continues; CODE_SHIFT=%d CODE_FLAG=%d CODE_MASK=%d" % (mobj.group(1), cs, cf, cm))
    mobj = need(text, r"into (\d+)-unit \((\d+)-byte\) blocks", "block size")
    bs = F.const("rl_vector::RLVector::BLOCK_SIZE")
    ctx.ob("C07.R2.document-constant", "RLVector::BLOCK_SIZE" + tag, doc, bs == int(mobj.group(1)) and bs * F.const("rl_vector::RLVector::CODE_SIZE") == 8 * int(mobj.group(2)), "constant",
           "document: %s-unit (%s-byte) blocks; BLOCK_SIZE = %d" % (mobj.group(1), mobj.group(2), bs))
    mobj = need(text, r"integer vector of width (\d+)", "block vector width")
    db = F.body("<rl_vector::RLBuilder as std::default::Default>::default")
    news = [t for _, t in db.calls() if callee_name(t) == "int_vector::IntVector::new"]
    ok = len(news) == 1 and m(Const(int(mobj.group(1)), "rl_vector::RLVector::CODE_SIZE"), db.term_of_operand(news[0]["args"][0]))
    ctx.ob("C07.R2.document-constant", "RLBuilder.data width" + tag, loc(db.raw["span"]), ok, "constant", "document: blocks as an integer vector of width %s; builder creates IntVector::new(CODE_SIZE): %s" % (mobj.group(1), ok))
    need(text, r"unsigned 64-bit little-endian integers", "element type")
    need(text, r"multiple of 8 bytes", "file size")
    ctx.ob("C07.R2.document-constant", "element" + tag, doc, F.const("bits::WORD_BITS") == 64 and F.const("bits::WORD_BYTES") == 8 and F.data["target"]["endian"].lower() == "little" and F.data["target"]["pointer_bits"] == 64,
           "constant", "64-bit little-endian elements: WORD_BITS=%d WORD_BYTES=%d target endian=%s usize bits=%d" % (F.const("bits::WORD_BITS"), F.const("bits::WORD_BYTES"), F.data["target"]["endian"], F.data["target"]["pointer_bits"]))
    swaps = byte_order_calls(F)
    ctx.ob("C07.R2.no-byte-order-conversion", "crate" + tag, "src/", not swaps, "who-may-call", "elements are copied bytes; byte-order conversion calls in the crate: %s" % swaps, nontrivial=False)
    need(text, r"floor\(\(n \+ 63\) / 64\)", "raw bitvector word count")
    bw = F.body("bits::bits_to_words")
    from pat import fold_consts
    bwt = fold_consts(bw.term_of_local(0))
    ok = m(Bin("Div", Bin("Sub", Bin("Add", Param(0), Const(64)), Const(1)), Const(64)), bwt) or m(Bin("Div", Bin("Add", Param(0), Const(63)), Const(64)), bwt) or \
        m(Bin("Shr", Bin("Add", Param(0), Const(63)), Const(6)), bwt) or m(Call("bits::div_round_up", Param(0), Const(64)), bwt)
    sem, pos = "", False
    if not ok:
        import residues
        r_, sem = residues.agrees(F, bw.term_of_local(0), lambda x: x[:2] == ("param", 0), lambda N: ("bin", "Div", ("bin", "Add", N, ("const", 63)), ("const", 64)))
        ok, pos = (True if r_ else (False if r_ is False else ok)), r_ is False
    ctx.ob("C07.R2.document-constant", "bits::bits_to_words" + tag, loc(bw.raw["span"]), ok, "formula", "document: floor((n + 63) / 64) elements; bits_to_words(n) = %s %s" % (tstr(bw.term_of_local(0)), sem), positive=pos)
    rl = F.body("<raw_vector::RawVector as serialize::Serialize>::load")
    need(text, r"can be from 1 to 64 bits", "item width range")
    # width predicate at the constructors = C09.R2; here: the constant bound is WORD_BITS = 64
    for fn in ("int_vector::IntVector::new", "int_vector::IntVector::with_len", "int_vector::IntVector::with_capacity"):
        b = F.body(fn)
        aggs = [bi for bi, si, st in b.stmts() if st["s"] == "assign" and st["rv"]["r"] == "agg" and st["rv"].get("def") == "int_vector::IntVector"]
        ok = bool(aggs)
        if not aggs:
            from guards import VALIDATING_CTORS
            wparam0 = {"int_vector::IntVector::new": 0, "int_vector::IntVector::with_len": 1, "int_vector::IntVector::with_capacity": 1}[fn]
            ok = any(callee_name(t) in VALIDATING_CTORS and callee_name(t) != fn and core(b.term_of_operand(t["args"][VALIDATING_CTORS[callee_name(t)]]))[:2] == ("param", wparam0)
                     for _, t in b.calls())          # delegated to another validating constructor with the same width
        for bi in aggs:
            fs = facts_at(b, bi)
            wparam = {"int_vector::IntVector::new": 0, "int_vector::IntVector::with_len": 1, "int_vector::IntVector::with_capacity": 1}[fn]
            from guards import fact_nonzero, fact_at_most
            wt = ("param", wparam, b.local_name(wparam + 1))
            nz = fact_nonzero(fs, wt)
            le = fact_at_most(fs, wt, 64)
            from guards import validated_by_ctor
            if not (nz and le) and fn != "int_vector::IntVector::new" and validated_by_ctor(fs, wt):
                nz = le = True          # delegated to IntVector::new(width)?
            ok = ok and nz and le
        ctx.ob("C07.R2.width-range", fn + tag, loc(b.raw["span"]), ok, "guard-dominance", "IntVector built only under width != 0 and width <= 64: %s" % ok)

    # ---------------- R3 zero padding / fillers
    # the documented length of `high`: ones + ceil(universe / 2^w) (borrowed: C06.R5)
    import c06
    c06.check_sparse_bucket_count(ctx, F, tag, "C07.R3.sparse-bucket-count")
    # "both directions": what the encoder may write (any usize as units of 3 data bits) the decoder reads in full
    import rltables
    rltables.check_decode_reaches_every_value(ctx, F, tag, "C07.R3.rl")
    fb = F.body("rl_vector::RLBuilder::flush")
    rs = [t for _, t in fb.calls() if callee_name(t).endswith("Resize>::resize") and self_path(fb.term_of_operand(t["args"][0])) == ["data"]]
    need(text, r"we pad the block with `0` values", "block padding")
    ctx.ob("C07.R3.zero-block-padding", "rl_vector::RLBuilder::flush" + tag, loc(fb.raw["span"]), len(rs) == 1 and m(Const(0), fb.term_of_operand(rs[0]["args"][2])), "constant",
           "closed blocks are padded by data.resize(.., 0): %s" % (len(rs) == 1))
    check_rl_block_fit(ctx, F, tag, "C07.R3")
    from core import Relabel
    c06.check_config(Relabel(ctx, {"C06.R2.basic.bytes-": "C07.R3.padding.bytes-"}), F, tag)
    import c09
    c09.check_wm_load_width(ctx, F, tag, rule="C07.R5.wm-core-load-width")
    c19.check_partial_unit_counts(ctx, F, tag, prefix="C07.R5")     # a file the library wrote decodes: the loader's count check matches the builder
    need(text, r"bytes of padding with byte value 0", "byte padding")
    need(text, r"Any unused bits in the last element must be set to `0`", "unused bits")
    ctx.note("zero byte padding is decided by C06.R2.basic.bytes-body")
    import c05
    c05.check_tail_invariant(ctx, F, tag, prefix="C07.R3.unused-bits-zero")
    # "a raw bitvector of length n requires floor((n + 63) / 64) elements" and zero unused bits also after pops, growth and
    # integer writes (borrowed: C05.R3 / R4 / R2)
    from core import Relabel
    c05.check_word_count(ctx, F, tag, rule="C07.R3.raw-vector-word-count")
    c05.check_raw_write_sites(ctx, F, tag, rule="C07.R3.raw-write-sites-reviewed")
    c05.check_grow_fill(ctx, F, tag, prefix="C07.R3.raw-vector")
    c05.check_write_int(Relabel(ctx, {"C07.R3w.value-masked-before-store": "C07.R3.raw-vector-write-stays-in-field"}), F, tag, prefix="C07.R3w")

    # ---------------- R4 minimal widths
    need(text, r"`first` must be bit-packed to minimize its width", "first width")
    so = F.body("wavelet_matrix::WaveletMatrix::start_offsets")
    packs = [bi for bi, t in so.calls() if callee_name(t).endswith("Pack>::pack")]
    okp = bool(packs) and must_pass_through(so, 0, packs)
    if okp:
        ret = c06.root_local(so, {"l": 0, "p": []})
        t = [t for bi, t in so.calls() if bi in packs][0]
        from facts import resolve_ref_local
        okp = resolve_ref_local(so, t["args"][0]) is not None and c06.root_local(so, {"l": resolve_ref_local(so, t["args"][0]), "p": []}) == ret
    ctx.ob("C07.R4.first-is-packed", "wavelet_matrix::WaveletMatrix::start_offsets" + tag, loc(so.raw["span"]), okp, "must-pass-through", "the returned vector passes through pack() on every path: %s" % okp)
    # ... and pack() itself ends with the minimal width (borrowed: C05.R3, the width it stores is bit_len(max), and it returns
    # without storing only for an empty vector or when the width is already that)
    from core import Relabel
    if not isinstance(ctx, Relabel):
        import c05
        c05.check_config(Relabel(ctx, {"C05.R3.pack-skips-only-when-minimal": "C07.R4.pack-skips-only-when-minimal", "C05.R3.pack-width-data": "C07.R4.pack-width-data"}), F, tag)
    wms = [n for n in F.bodies if n.startswith("<wavelet_matrix::WaveletMatrix as std::convert::From<std::vec::Vec<") and n.endswith(">::from")]
    for fn in wms:
        b = F.body(fn)
        aggs = [st for bi, si, st in b.stmts() if st["s"] == "assign" and st["rv"]["r"] == "agg" and st["rv"].get("def") == "wavelet_matrix::WaveletMatrix"]
        ok = len(aggs) == 1 and m(Call("wavelet_matrix::WaveletMatrix::start_offsets", ANY, ANY, ANY), b.term_of_operand(dict(zip(aggs[0]["rv"]["fields"], aggs[0]["rv"]["ops"]))["first"]))
        ctx.ob("C07.R4.first-from-start-offsets", fn + tag, loc(b.raw["span"]), ok, "term-provenance", "first = start_offsets(..): %s" % ok, nontrivial=False)
        ctx.count("wavelet-matrix-from-impls" + tag)
    ctx.floor("wavelet-matrix-from-impls" + tag, 5)
    need(text, r"Samples as an integer vector with the minimal width necessary", "sample width")
    fr = F.body("<rl_vector::RLVector as std::convert::From<rl_vector::RLBuilder>>::from")
    wc = [t for _, t in fr.calls() if callee_name(t) == "int_vector::IntVector::with_capacity"]
    ok = len(wc) == 1
    if not wc:
        # the samples are not built by with_capacity(.., width) + push: some other construction (collect + pack, ..) whose width
        # this rule cannot read off -- undecided, not refuted
        ok = None
    if ok:
        w = fr.term_of_operand(wc[0]["args"][1])
        ok = m(Call("bits::bit_len", ANY), w)
        if ok:
            # the measured value: the bit offset (component 1) of the last sample, 0 when there is none -- as one expression
            # (`unwrap_or(&(0, 0)).1`) or as the two arms of a match on `last()`
            inner = strip_casts(core(w)[2][0])
            alts = [inner]
            if inner[0] == "var":
                alts = [strip_casts(fr.term_of_rvalue(p) if k == "assign" else fr.term_of_call(p)) for (_, _, k, p) in fr.defs().get(inner[1], []) if k in ("assign", "call")]
            main = [a for a in alts if any(x[0] == "call" and x[1].endswith("::last") for x in subterms(a)) and any(x[0] == "field" and x[2] == "1" for x in subterms(a))]
            rest = [a for a in alts if a not in main]
            ok = len(main) == 1 and all(a[0] == "const" and a[1] == 0 for a in rest)
    ctx.ob("C07.R4.sample-width-minimal", fr.name + tag, loc(fr.raw["span"]), ok, "term-provenance", "samples width = bit_len(last sample's bit offset): %s" % ok)

    # ---------------- R5 files without support structures load
    need(text, r"support structures are often both application-dependent and implementation-dependent and hence optional", "optional supports")
    c19.check_composite_loaders(ctx, F, tag, "C07.R5")
    bl = F.body("<bit_vector::BitVector as serialize::Serialize>::load")
    unwraps = [callee_name(t) for _, t in bl.calls() if callee_name(t).split("::")[-1].split("<")[0] in ("unwrap", "expect")]
    ctx.ob("C07.R5.bitvector-load-accepts-absent", bl.name + tag, loc(bl.raw["span"]), not unwraps, "who-is-called", "no unwrap/expect on the loaded options: %s" % unwraps, nontrivial=False)


def check_rl_block_fit(ctx, F, tag, prefix):
    """Whole runs per block: in RLBuilder::flush the two values of a run are encoded only after the test that both fit into the
    current block -- on every path, with the very terms that are then encoded -- or after the block was closed (padded, sample
    pushed). A shortcut around the test is accepted only under `data.len() + K <= capacity` for a constant K that is at least
    the largest possible code length of two values."""
    from guards import edge_facts
    from mapped import add_leaves
    fb = F.body("rl_vector::RLBuilder::flush")
    where = loc(fb.raw["span"])
    enc = [(bi, t) for bi, t in fb.calls() if callee_name(t) == "rl_vector::RLBuilder::encode"]
    if len(enc) != 2:
        raise Undecided("anchor lost: RLBuilder::flush has %d encode calls (a run is a gap and a length)" % len(enc))
    vals = [strip_casts(fb.term_of_operand(t["args"][1])) for _, t in enc]
    shift = F.const("rl_vector::RLVector::CODE_SHIFT")
    worst = 2 * ((64 + shift - 1) // shift)

    def is_data_len(x):
        x = strip_casts(x)
        return x[0] == "call" and x[1].endswith("::len") and len(x[2]) == 1 and self_path(x[2][0]) == ["data"]
    fits, safe, caps = [], [], []
    for u, v, f in edge_facts(fb):
        if f[0] != "cmp":
            continue
        op, a, c = f[1], f[2], f[3]
        if op in ("Ge", "Gt"):
            op, a, c = {"Ge": "Le", "Gt": "Lt"}[op], c, a
        if op not in ("Le", "Lt"):
            continue
        leaves = [strip_casts(x) for x in add_leaves(a)]
        if not any(is_data_len(x) for x in leaves):
            continue
        rest = [x for x in leaves if not is_data_len(x)]
        lens = [x for x in rest if x[0] == "call" and x[1] == "rl_vector::RLBuilder::code_len" and len(x[2]) == 1]
        if len(lens) == len(rest) == 2 and sorted(map(str, [strip_casts(x[2][0]) for x in lens])) == sorted(map(str, vals)):
            fits.append((u, v))
            caps.append(c)
        elif len(rest) == 1 and rest[0][0] == "const" and isinstance(rest[0][1], int) and rest[0][1] >= worst:
            safe.append((u, v))
    closes = [(bi, t) for bi, t in fb.calls() if callee_name(t).endswith("Resize>::resize") and self_path(fb.term_of_operand(t["args"][0])) == ["data"]]
    pushes = [bi for bi, t in fb.calls() if callee_name(t).endswith("::push") and self_path(fb.term_of_operand(t["args"][0])) == ["samples"]]
    removed = set(fits) | set(safe)
    blocked = {bi for bi, _ in closes}

    def reach(start, blocked_blocks, removed_edges):
        seen, stack = set(), [start]
        while stack:
            x = stack.pop()
            if x in seen or x in blocked_blocks:
                continue
            seen.add(x)
            for y in fb.succ(x):
                if (x, y) not in removed_edges:
                    stack.append(y)
        return seen
    first = min(bi for bi, _ in enc)
    bypass = enc[0][0] in reach(0, blocked, removed) or enc[1][0] in reach(0, blocked, removed)
    ok = bool(fits) and not bypass
    detail = "encode(%s), encode(%s): fit test `data.len() + code_len(..) + code_len(..) <= capacity` on the same two terms: %s; path to an encode that neither passes the test nor closes the block: %s" % (
        tstr(vals[0])[:50], tstr(vals[1])[:50], bool(fits), bypass)
    if ok and closes:
        cap_ok = all(strip_casts(fb.term_of_operand(t["args"][1])) in [strip_casts(c) for c in caps] for _, t in closes)
        samp_ok = bool(pushes) and all(not (set(b for b, _ in enc) & reach(cb, set(pushes), set())) for cb, _ in closes)
        ok = cap_ok and samp_ok
        detail += "; closing pads to the tested capacity: %s; a sample is pushed before the run is encoded in the new block: %s" % (cap_ok, samp_ok)
    elif ok:
        ok = False
        detail += "; no block-closing resize found"
    ctx.ob(prefix + ".whole-runs-per-block", "rl_vector::RLBuilder::flush" + tag, where, ok, "must-pass-through", detail)
