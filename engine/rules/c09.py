"""C09 -- queries are total: out-of-range and extreme arguments give the documented answer (structural part).

 R1 raw-value propagation (A3) over the table of total entry points: no caller-supplied scalar reaches checked arithmetic,
    a panicking bounds check, an explicit panic edge or an unwrap without a dominating bound against a structure quantity
 R2 the width predicate is the same at all validation sites and dominates every construction
 R3 (informational) sibling clamps of the three bitvector types side by side
 R4 / R5 cross-registered necessary conditions (C10.R8, C10.R1, C16.R2)
 R6 the select-family clamp is exactly `rank >= count` in all 12 implementations, and the refused rank is not used
"""
from facts import Undecided, loc, tstr, callee_name, callee_written, subterms, operand_place
from guards import facts_at, strip_casts, edge_facts
from pat import m, Bind, ANY, Call, Bin, Const, Param, SelfField, core
import ranges

META = {
    "level": "other",
    "technique": "static analysis: interprocedural raw-value (taint/range) propagation from the total entry points over MIR with dominance-based bounding facts; a second, scaling-surviving taint for unwrap sinks; callee-side bounds on returned values (rustc_private driver; bodies normalised by helper inlining and combinator expansion)",
    "explanation": "Every scalar parameter of the functions the API defines for all usize values starts as an unbounded ('raw') value. The "
                   "analysis follows it through copies, casts, arithmetic and crate-local calls (joining over call sites, trait-dispatched "
                   "calls into every impl) and reports each overflow assertion, panicking bounds check, assert!/panic! edge or unwrap() "
                   "it reaches without a dominating comparison against a non-raw term (a length, a count, a field). Overflow assertions are "
                   "read from debug MIR so the release-build meaning (silent wrap) is covered by the same site. What the functions return "
                   "for in-range arguments is not decided.",
    "trusted_base": ["rustc's MIR faithfully represents the source", "values read from a structure's own fields and crate-call results are not attacker-sized (representation invariants, C01-C04 arithmetic)"],
    "assumptions": ["results of crate-local calls are treated as bounded unless the callee's return term is built from its scalar parameters"],
}

BITVECS = ["bit_vector::BitVector", "sparse_vector::SparseVector", "rl_vector::RLVector"]
TRAIT_METHODS = {"ops::Rank": ["rank"], "ops::Select": ["select", "select_iter"], "ops::SelectZero": ["select_zero", "select_zero_iter"],
                 "ops::PredSucc": ["predecessor", "successor"]}
EXTRA_ENTRIES = [
    "ops::Rank::rank_zero", "ops::Access::get_or", "ops::VectorIndex::predecessor", "ops::VectorIndex::successor",
    "wavelet_matrix::wm_core::WMCore::map_down", "wavelet_matrix::wm_core::WMCore::map_down_with",
    "wavelet_matrix::wm_core::WMCore::map_down_with_two_positions", "wavelet_matrix::wm_core::WMCore::map_up_with",
    "int_vector::IntVector::new", "int_vector::IntVector::with_len", "int_vector::IntVector::with_capacity",
    "int_vector::IntVectorWriter::new", "int_vector::IntVectorWriter::with_buf_len",
    "sparse_vector::SparseBuilder::new", "rl_vector::RLBuilder::try_set",
]
WM_METHODS = ["contains", "rank", "inverse_select", "select", "select_iter"]
FLOOR_ENTRIES = 45

# Reviewed exemptions: exact alarm key prefix -> reason (printed in the evidence whenever used).
EXEMPT = {
    "ops::Rank::rank_zero|Overflow(Sub)|": "rank(i) <= i for every i (rank counts set bits before i, clamped to count_ones <= len <= i beyond the end); representation invariant, not an argument-range issue",
    "int_vector::IntVector::with_len|Overflow(Mul)|": "documented `# Panics`: len * width exceeding the maximum length; the product is also the allocation size, so no allocatable input reaches the overflow",
    "int_vector::IntVector::with_capacity|Overflow(Mul)|": "documented: capacity * width is the allocation size in bits; exceeding usize::MAX cannot be allocated",
    "int_vector::IntVectorWriter::with_buf_len|Overflow(Mul)|": "buffer size in bits (buf_len * width) is an allocation size; exceeding usize::MAX cannot be allocated",
    "sparse_vector::SparseBuilder::get_params|Overflow(Add)|": "ones + buckets is the length of the high bitvector, an allocation size; ones <= universe is checked by the caller",
    "bits::bits_to_words|Overflow(Add)|": "documented `# Panics`: n + 63 > usize::MAX; n is a bit length that is about to be allocated",
    "raw_vector::RawVector::with_capacity|": "capacity is an allocation size",
    "sparse_vector::SparseBuilder::new|unwrap|int_vector::IntVector::with_len": "with_len fails only for an invalid width; the width comes from get_params: round(log2(n ln2 / m)) clamped below by 1 and at most 64 for every n < 2^64 (float computation, reviewed)",
    "sparse_vector::SparseBuilder::multiset|unwrap|int_vector::IntVector::with_len": "the same call in the other constructor (reached with raw values when `new` delegates to it): the width is get_params(..).0",
}


ENTRY_ONLY_EXEMPT = {"ops::Rank::rank_zero|Overflow(Sub)|"}

# The same reviewed reasons when the arithmetic sits one call further down (the exempt function delegating to a rounding helper):
# an alarm in a callee all of whose raw-value callers are these functions inherits their exemption.
EXEMPT_VIA = {
    "bits::bits_to_words": "documented `# Panics`: n + 63 > usize::MAX; n is a bit length that is about to be allocated (the rounding is delegated to a helper)",
}


def entry_table(F):
    entries = {}

    def add(fn):
        b = F.body(fn)
        idxs = {i for i in range(b.nargs) if b.local_ty(i + 1) in ranges.SCALARS}
        if idxs:
            entries[fn] = idxs

    for tr, methods in TRAIT_METHODS.items():
        for im in F.impls_of(tr):
            if im["self_ty"].get("def") in BITVECS:
                for it in im["items"]:
                    if it["name"] in methods:
                        add(it["def"])
    for im in F.impls_of("ops::VectorIndex"):
        if im["self_ty"].get("def") == "wavelet_matrix::WaveletMatrix":
            for it in im["items"]:
                if it["name"] in WM_METHODS:
                    add(it["def"])
    for tr in ("std::iter::Iterator", "std::iter::DoubleEndedIterator"):
        for im in F.impls_of(tr):
            if im["derived"]:
                continue
            for it in im["items"]:
                if it["name"] in ("nth", "nth_back") and F.has_body(it["def"]):
                    add(it["def"])
    for fn in EXTRA_ENTRIES:
        add(fn)
    return entries


def check(ctx):
    configs = ["native"] if ctx.tier == "quick" else ["native", "portable"]
    for cfg in configs:
        check_config(ctx, ctx.facts(cfg), "" if cfg == "native" else "@" + cfg)


def run_analysis(F):
    entries = entry_table(F)
    an = ranges.Analysis(F)
    an.run(entries)
    # second pass, "unvalidated" taint (survives >> and /): only its unwrap alarms are used -- a query that returns None for an
    # out-of-range argument is unwrapped on a value derived from an unchecked caller argument
    an2 = ranges.Analysis(F, mode="unvalidated")
    an2.run(entries)
    second = lambda key, a: a["kind"] == "unwrap"
    for key, a in an2.alarms.items():
        if second(key, a) and key not in an.alarms:
            an.alarms[key] = a
            an.raw_params.setdefault(a["fn"], set()).update(an2.raw_params.get(a["fn"], ()))
    an.sites += sum(1 for key, a in an2.alarms.items() if second(key, a))
    return entries, an


def check_config(ctx, F, tag):
    check_raw_values(ctx, F, tag)
    check_config_rest(ctx, F, tag)


def check_raw_values(ctx, F, tag):
    entries, an = run_analysis(F)
    ctx.count("total-entry-points" + tag, len(entries))
    ctx.count("functions-reached-with-raw-values" + tag, len(an.raw_params))
    ctx.count("raw-sites-examined" + tag, an.sites)
    alarm_fns = {}
    for key, a in an.alarms.items():
        alarm_fns.setdefault(a["fn"], []).append(key)
    # every sink site of the crate is registered: an alarm at a site the pinned tree has is a regression (a bound was lost somewhere
    # on the way to it), an alarm at arithmetic that is new is code A3 cannot judge (its bound may be an invariant, not a comparison)
    for k in an.sink_inventory():
        ctx.site("C09.R1.raw-value-bounded|%s%s" % (k, tag))
    known = lambda key: ctx.site_known("C09.R1.raw-value-bounded|%s%s" % (key, tag))
    # one obligation per function reached with a raw value: all its raw sites are bounded
    for fn in sorted(an.raw_params):
        keys = alarm_fns.get(fn, [])
        if not keys:
            b = F.body(fn)
            ctx.ob("C09.R1.raw-value-bounded", fn + tag, loc(b.raw["span"]), True, "guard-dominance" if fn not in entries else "guard-dominance(entry)",
                   "raw parameters %s: every checked arithmetic / panic edge / unwrap they reach is dominated by a bounding comparison" % sorted(an.raw_params[fn]),
                   nontrivial=fn in entries)
    for key, a in sorted(an.alarms.items()):
        ex = [p for p in EXEMPT if key.startswith(p)]
        if ex and ex[0] in ENTRY_ONLY_EXEMPT:
            # the exemption covers the function's own documented domain; an unclamped value arriving from another function is not covered
            callers = sorted({o[0] for (f_, i_), lst in an.all_origins.items() if f_ == a["fn"] for o in lst})
            if callers:
                ctx.ob("C09.R1.raw-value-bounded", key + tag, a["where"], False, "guard-dominance",
                       "%s is defined for arguments up to len (%s); it is reached with an unclamped caller-supplied value from %s, so the result is "
                       "index - count_ones instead of the documented answer at len" % (a["fn"], EXEMPT[ex[0]][:60], callers), positive=known(key) or a.get("bare", False))
                continue
        if not ex:
            callers = {o[0] for (f_, i_), lst in an.all_origins.items() if f_ == a["fn"] for o in lst}
            if callers and callers <= set(EXEMPT_VIA) and a["kind"] == "overflow":
                why = EXEMPT_VIA[sorted(callers)[0]]
                ctx.exempt("C09.R1.raw-value-bounded", key, a["where"], why)
                ctx.ob("C09.R1.raw-value-bounded", key + tag, a["where"], True, "reviewed-exemption", why + " [reached via %s]" % a["chain"])
                continue
        if ex:
            ctx.exempt("C09.R1.raw-value-bounded", key, a["where"], EXEMPT[ex[0]])
            ctx.ob("C09.R1.raw-value-bounded", key + tag, a["where"], True, "reviewed-exemption", EXEMPT[ex[0]] + " [reached via %s]" % a["chain"])
        else:
            ctx.ob("C09.R1.raw-value-bounded", key + tag, a["where"], False, "guard-dominance", a["detail"] + " [reached via %s]" % a["chain"], positive=known(key) or a.get("bare", False))
    ctx.floor("total-entry-points" + tag, FLOOR_ENTRIES)


def check_config_rest(ctx, F, tag):
    # ---------------- R2 width predicate
    check_width_predicate(ctx, F, tag, "C09.R2")
    # "select / select_zero(r >= count) = None with empty iterators": an iterator built for an out-of-range start has length 0
    import c10
    from core import Relabel
    c10.check_config(Relabel(ctx, {"C10.R8.exhausted-construction-has-length-zero": "C09.R4.out-of-range-start-is-empty",
                                   "C10.R1.counts-every-item": ("C09.R4.nth-beyond-the-end-exhausts", lambda k: "::nth" in k)}), F, tag, "native")
    import c16
    c16.check_config(Relabel(ctx, {"C16.R2.unchecked-call-discharged": ("C09.R5.builder-step-refused", lambda k: "try_set" in k)}), F, tag)
    check_wm_load_width(ctx, F, tag)
    return check_config_tail(ctx, F, tag)


WIDTH_SITES = [("int_vector::IntVector::new", 0, "int_vector::IntVector"), ("int_vector::IntVector::with_len", 1, "int_vector::IntVector"),
               ("int_vector::IntVector::with_capacity", 1, "int_vector::IntVector"), ("int_vector::IntVectorWriter::new", 1, "int_vector::IntVectorWriter"),
               ("int_vector::IntVectorWriter::with_buf_len", 1, "int_vector::IntVectorWriter")]


def check_width_predicate(ctx, F, tag, prefix, only=None):
    """Construction happens exactly for widths 1..=64: behind `width != 0 && width <= 64`, and not behind anything stricter (a
    constructor that refuses width 64 cannot produce what the in-memory type can)."""
    sites = [s for s in WIDTH_SITES if only is None or s[0] in only]
    for fn, wp, adt in sites:
        b = F.body(fn)
        aggs = [(bi, st) for bi, si, st in b.stmts() if st["s"] == "assign" and st["rv"]["r"] == "agg" and st["rv"].get("def") == adt]
        ok = bool(aggs)
        if not aggs:
            # no construction of its own: the value comes from another validating constructor called with this function's width
            # (`IntVector::with_capacity(len, width)?` followed by pushes), whose own predicate is one of the obligations here
            from guards import VALIDATING_CTORS
            deleg = [t for _, t in b.calls() if callee_name(t) in VALIDATING_CTORS and callee_name(t) != fn and
                     core(b.term_of_operand(t["args"][VALIDATING_CTORS[callee_name(t)]]))[:2] == ("param", wp)]
            ok = bool(deleg)
        for bi, st in aggs:
            fs = facts_at(b, bi)
            from guards import fact_nonzero, fact_at_most
            wt = ("param", wp, b.local_name(wp + 1))
            nz = fact_nonzero(fs, wt)
            le = fact_at_most(fs, wt, 64) and not fact_at_most(fs, wt, 63)
            wv = core(b.term_of_operand(dict(zip(st["rv"]["fields"], st["rv"]["ops"]))["width"]))
            from guards import validated_by_ctor, ctor_payload_width
            if not (nz and le) and validated_by_ctor(fs, wt) and fn != "int_vector::IntVector::new":
                # delegated: `IntVector::new(width)?` accepted the width (that constructor's own predicate is the obligation above)
                nz = le = delegated = True
            pw = ctor_payload_width(wv)
            ok = ok and nz and le and (wv[:2] == ("param", wp) or (pw is not None and pw[:2] == ("param", wp)))
        # the failing edges return Err
        errs = [bi for bi, si, st in b.stmts() if st["s"] == "assign" and not st["lhs"]["p"] and st["rv"]["r"] == "agg" and st["rv"].get("vname") == "Err"
                and st["rv"].get("def") == "std::result::Result"]
        if not errs and any(callee_written(t).endswith("FromResidual::from_residual") for _, t in b.calls()):
            errs = [0]          # the refusal of the delegate is propagated by `?`
        ctx.ob(prefix + ".width-predicate", fn + tag, loc(b.raw["span"]), ok and bool(errs), "guard-dominance",
               "construction dominated by exactly width != 0 && width <= WORD_BITS with the checked value stored: %s; refusing edge returns Err: %s" % (ok, bool(errs)))


def first_switch(b):
    """The first block with a switch terminator on the straight line from the entry."""
    bi, seen = 0, set()
    while bi not in seen:
        seen.add(bi)
        t = b.blocks[bi]["term"]
        if t["t"] == "switch":
            return bi
        nxt = t.get("target")
        if t["t"] not in ("goto", "call", "assert", "drop") or nxt is None:
            return None
        bi = nxt
    return None


def check_select_clamps(ctx, F, tag, prefix="C09.R6"):
    """`select / select_zero(r >= count) = None with empty iterators`, the three bitvector types agreeing: every select-family entry
    point of every type splits on exactly `rank >= count` (count_ones for Select, count_zeros for SelectZero), the refused rank is
    never used on the refusing side, and an Option-returning method refuses with None.  A3 above only asks for *a* bound; this
    rule asks for *the* bound (an off-by-one clamp lets rank == count through to the in-range code, which reads past the last
    sample or unwraps a None)."""
    from facts import reads_of_stmt, reads_of_term
    n = 0
    for tr in ("ops::Select", "ops::SelectZero"):
        for im in F.impls_of(tr):
            ty = im["self_ty"].get("def")
            if ty not in BITVECS:
                continue
            for it in im["items"]:
                if it["name"] not in TRAIT_METHODS[tr] or not F.has_body(it["def"]):
                    continue
                b = F.body(it["def"])
                key = it["def"] + tag
                where = loc(b.raw["span"])

                def is_count(t):
                    t = core(t)
                    if t[0] != "call" or not t[2] or core(t[2][0])[:2] != ("param", 0):
                        return False
                    last = t[1].split("::")[-1]
                    # (a call through the trait with the transformation as its generic argument -- a generic helper instantiated
                    # at this call site -- names the transformation there)
                    compl = "Complement" in t[1] or any("Complement" in str(a) for a in (t[3] if len(t) > 3 else ()))
                    if tr == "ops::Select":
                        return last == "count_ones" and not compl
                    return last == "count_zeros" or (last == "count_ones" and compl)

                def is_rank(t):
                    return core(t)[:2] == ("param", 1) and strip_casts(t)[:2] == ("param", 1)
                accept = refuse = None
                wrong, other = [], []
                for u, v, f in edge_facts(b):
                    if f[0] != "cmp" or b.pred(v) != [u]:
                        continue
                    op, x, y = f[1], f[2], f[3]
                    if is_count(x) and is_rank(y):
                        op, x, y = {"Lt": "Gt", "Gt": "Lt", "Le": "Ge", "Ge": "Le", "Eq": "Eq", "Ne": "Ne"}[op], y, x
                    if not (is_rank(x) and is_count(y)):
                        if (is_rank(x) or is_rank(y)) and u == first_switch(b):
                            other.append(tstr(("bin", f[1], f[2], f[3]))[:70])
                        continue
                    if op == "Lt" and accept is None:
                        accept = (u, v)
                    elif op == "Ge" and refuse is None:
                        refuse = (u, v)
                    elif op in ("Le", "Gt", "Eq", "Ne"):
                        wrong.append(tstr(("bin", f[1], f[2], f[3]))[:70])
                n += 1
                if accept is None and not wrong:
                    wrong = other            # the first test of the rank is against something that is not the count
                if accept is None or refuse is None or accept[0] != refuse[0]:
                    # no clamp of its own: forwarding the rank unchanged to a sibling entry point is as good
                    sib = [callee_name(t) for _, t in b.calls() if callee_name(t) != b.name and callee_name(t).split("::")[-1] in sum(TRAIT_METHODS.values(), []) and
                           any(is_rank(b.term_of_operand(a)) for a in t["args"][1:]) and core(b.term_of_operand(t["args"][0]))[:2] == ("param", 0)]
                    if sib and not wrong:
                        ctx.ob(prefix + ".select-clamp-exact", key, where, True, "delegation", "forwards self and the rank unchanged to %s" % sib[0])
                        continue
                    if wrong:
                        ctx.ob(prefix + ".select-clamp-exact", key, where, False, "guard-shape",
                               "the rank is compared as %s; the documented clamp is rank >= %s -> %s" % (wrong, "count_ones()" if tr == "ops::Select" else "count_zeros()",
                                                                                                     "None" if not it["name"].endswith("_iter") else "an empty iterator"))
                        continue
                    raise Undecided("anchor lost: %s neither compares its rank with the count nor forwards it to a sibling" % it["def"])
                u, A = accept
                R = refuse[1]
                # the refused rank is not used on the refusing side: every read of the rank outside the comparison is dominated by the accepting edge
                copies = {2}
                for bi, si, st in b.stmts():
                    if st["s"] == "assign" and not st["lhs"]["p"] and st["rv"]["r"] == "use":
                        q = operand_place(st["rv"]["o"])
                        if q is not None and not q["p"] and q["l"] in copies and not b.dominates(A, bi) and bi != u and not b.dominates(bi, u):
                            copies.add(st["lhs"]["l"])
                # the refusing side: what runs after the refusing edge when the refusal is followed (a helper's `return None` continues
                # into the caller's `?` / match on the None arm, not into the Some arm)
                from guards import reach_on_error_path
                refusing = reach_on_error_path(b, R)
                stray = []
                for bi in sorted(b.reachable()):
                    if b.dominates(A, bi) or b.dominates(bi, u) or bi not in refusing:
                        continue
                    blk = b.blocks[bi]
                    reads = [l for st in blk["stmts"] for l in reads_of_stmt(st)] + reads_of_term(blk["term"])
                    if any(l in copies for l in reads):
                        stray.append(loc(blk["term"]["sp"]))
                from_r = refusing
                # (the value may be built in the return place or in the result local of an inlined helper that is then moved there)
                is_opt = lambda st, v: st["s"] == "assign" and st["rv"]["r"] == "agg" and st["rv"].get("vname") == v and st["rv"].get("def") == "std::option::Option" and \
                    (st["lhs"]["l"] == 0 or (b.local_ty(st["lhs"]["l"]) or "").startswith("std::option::Option<usize>"))
                some_after_refusal = [bi for bi in from_r for st in b.blocks[bi]["stmts"] if is_opt(st, "Some")]
                none_built = any(is_opt(st, "None") for bi in from_r for st in b.blocks[bi]["stmts"])
                opt = not it["name"].endswith("_iter")
                ok = not wrong and not stray and not some_after_refusal and (none_built or not opt)
                ctx.ob(prefix + ".select-clamp-exact", key, where, ok, "guard-shape+dominance",
                       "splits on rank >= %s exactly: %s%s; the refused rank is read again at %s; refusing side builds %s" % (
                           "count_ones()" if tr == "ops::Select" else "count_zeros()", not wrong, (" (also: %s)" % wrong) if wrong else "", stray or "no site",
                           ("None: %s, Some: %s" % (none_built, bool(some_after_refusal))) if opt else "the empty iterator"))
    ctx.count("select-clamp-sites" + tag, n)
    ctx.floor("select-clamp-sites" + tag, 12)


def check_returned_arguments(ctx, F, tag, rule="C09.R7.returned-argument-bounded", select=lambda fn: True):
    """A query that answers with its own argument (`rank(i) = i` on a vector of ones, `select(r) = r`, a shortcut for a degenerate
    vector) is right only while the argument is inside the vector: the answer for an argument beyond the end is clamped to a count.
    Every integer result of a query entry point that is computed from the argument alone -- no read of self in it -- must be
    dominated by a comparison of that argument against a quantity of self.  Positive identification (the pinned tree has no such
    result, the count of checked results is reported)."""
    entries = entry_table(F)
    n = 0
    for fn in sorted(entries):
        if not select(fn):
            continue
        b = F.body(fn)
        if b.local_ty(0) not in ("usize", "u64"):
            continue
        bad = []
        roots = b.root_defs(0) or [(bi, payload) for (bi, si, kind, payload) in b.defs().get(0, []) if kind == "assign"]
        if True:
            for rbi, rv in roots:
                t = b.term_of_rvalue(rv)
                subs = list(subterms(t))
                args = {x[1] for x in subs if x[0] == "param" and x[1] >= 1}
                if not args or any(x[0] == "param" and x[1] == 0 for x in subs):
                    continue
                n += 1
                fs = facts_at(b, rbi)
                bounded = False
                for f in fs:
                    if f[0] != "cmp" or f[1] not in ("Lt", "Le", "Gt", "Ge", "Eq"):
                        continue
                    lo, hi = (f[2], f[3]) if f[1] in ("Lt", "Le", "Eq") else (f[3], f[2])
                    if any(x[0] == "param" and x[1] in args for x in subterms(lo)) and any(x[0] == "param" and x[1] == 0 for x in subterms(hi)):
                        bounded = True
                if not bounded:
                    bad.append("%s returned with no dominating comparison against self" % tstr(t)[:50])
        ctx.ob(rule, fn + tag, loc(b.raw["span"]), not bad, "guard-dominance", "results computed from the argument alone: %s" % (bad or "all bounded / none"),
               nontrivial=False, positive=bool(bad))
    ctx.count("integer-query-entries" + tag, n)


def check_refusal_precedes_use(ctx, F, tag, rule="C09.R10.refusal-precedes-use"):
    """A constructor or builder step that refuses an argument with Err does so before the argument is used: a call that receives a
    parameter, executed on the way to the test whose failing side is the Err exit, runs with the value that was to be refused (an
    allocation of usize::MAX items, an unchecked write with width 65).  Decided per function: the parameters compared on the edges
    into an Err exit, the test block those edges leave, and the calls not dominated by it that take such a parameter.  A callee
    that allocates, builds or writes (with_len, with_capacity, new, multiset, resize, reserve, push_int, set_int, ..) is a
    violation; any other is undecided."""
    from guards import facts_at, edge_facts
    HEAVY = ("with_len", "with_capacity", "new", "multiset", "resize", "reserve", "push_int", "set_int", "push", "set", "from", "with_buf_len")
    n = 0
    for b in F.all_bodies():
        if "::tests::" in b.name or b.name.startswith("internal::") or "{closure" in b.name:
            continue
        errs = [bi for bi, si, st in b.stmts() if st["s"] == "assign" and st["rv"]["r"] == "agg" and st["rv"].get("def") == "std::result::Result" and st["rv"].get("variant") == 1]
        if not errs:
            continue
        validated = {}
        ef = edge_facts(b)
        for eb in errs:
            fs = [(None, f) for f in facts_at(b, eb)] + [(u, f) for u, v, f in ef if v == eb]
            for u, f in fs:
                if f[0] != "cmp":
                    continue
                for side in (f[2], f[3]):
                    s0 = strip_casts(side)
                    if s0[0] == "param":
                        validated.setdefault(s0[1], set()).add(eb)
        for p_, ebs in sorted(validated.items()):
            tests = set()
            for eb in ebs:
                cands = [x for x in b.reachable() if b.blocks[x]["term"]["t"] == "switch" and x != eb and b.dominates(x, eb)]
                # the first test on the way: the one that dominates the others
                first = [x for x in cands if any(strip_casts(side)[:2] == ("param", p_) for u, v, f in ef if u == x and f[0] == "cmp" for side in (f[2], f[3]))]
                first = [x for x in first if all(b.dominates(x, y) for y in first)]
                if first:
                    tests.add(first[0])
            for T in tests:
                reach = b.can_reach([T])
                for bi, t in b.calls():
                    if bi == T or b.dominates(T, bi) or bi not in reach:
                        continue
                    if any(strip_casts(b.term_of_operand(a))[:2] == ("param", p_) for a in t["args"]):
                        n += 1
                        heavy = callee_name(t).split("::")[-1].split("<")[0] in HEAVY
                        ctx.ob(rule, "%s|%s|%s%s" % (b.name, b.local_name(p_ + 1), callee_name(t).split("::")[-1], tag), loc(t["sp"]), False if heavy else None, "must-precede",
                               "%s receives `%s` before the test at %s that refuses it with Err" % (callee_name(t), b.local_name(p_ + 1), loc(b.blocks[T]["term"]["sp"])), positive=heavy)
    ctx.count("uses-before-refusal" + tag, n)


def check_config_tail(ctx, F, tag):
    # (borrowed) "a position past the end is treated as the end": predecessor never answers an argument at or past the end with
    # the exhausted iterator (C10.R14)
    from core import Relabel
    if not isinstance(ctx, Relabel):
        import c10
        c10.check_predecessor_accepts_large_arguments(ctx, F, tag, rule="C09.R9.predecessor-never-refuses-a-large-argument")
        check_refusal_precedes_use(ctx, F, tag)
    check_select_clamps(ctx, F, tag)
    check_returned_arguments(ctx, F, tag)
    # a multiset can hold more values than its universe has positions: the provided `count_zeros() = len - count_ones` underflows
    # there, and every select_zero-family clamp of the sparse vector is built on it.  The sparse vector overrides it with a
    # subtraction guarded by count_ones >= len.
    cz = "<sparse_vector::SparseVector as ops::BitVec<'a>>::count_zeros"
    if not F.has_body(cz):
        ctx.ob("C09.R8.sparse-count-zeros-clamped", cz + tag, "src/sparse_vector.rs", False, "guard-dominance",
               "SparseVector does not override count_zeros(): the provided len() - count_ones() underflows for an overfull multiset")
    else:
        zb = F.body(cz)
        subs = [bi for bi in sorted(zb.reachable()) if zb.blocks[bi]["term"]["t"] == "assert" and zb.blocks[bi]["term"]["kind"].startswith("Overflow(Sub")]
        subs += [bi for bi, si, st in zb.stmts() if st["s"] == "assign" and st["rv"]["r"] == "bin" and st["rv"]["op"] == "Sub"]
        sat = any(callee_name(t).split("::")[-1] in ("saturating_sub", "checked_sub") for _, t in zb.calls())
        guarded = all(any(f[0] == "cmp" and f[1] in ("Lt", "Gt", "Le", "Ge") for f in facts_at(zb, bi)) for bi in subs)
        ctx.ob("C09.R8.sparse-count-zeros-clamped", cz + tag, loc(zb.raw["span"]), (bool(subs) and guarded) or sat, "guard-dominance",
               "count_zeros() subtracts behind a comparison of count_ones() with len() (or saturates): %s" % ((bool(subs) and guarded) or sat), nontrivial=False)

    # ---------------- R3 informational: sibling clamps
    for tr, methods in TRAIT_METHODS.items():
        for meth in methods:
            row = []
            for im in F.impls_of(tr):
                if im["self_ty"].get("def") in BITVECS:
                    for it in im["items"]:
                        if it["name"] == meth:
                            b = F.body(it["def"])
                            guards = set()
                            for u, v, f in edge_facts(b):
                                if f[0] == "cmp" and any(x[0] == "param" and x[1] >= 1 for x in list(subterms(f[2])) + list(subterms(f[3]))):
                                    guards.add(tstr(("bin", f[1], f[2], f[3]))[:50])
                            mins = [tstr(x)[:40] for _, t in b.calls() for x in [b.term_of_call(t)] if x[1].endswith("cmp::min")]
                            row.append("%s: %s%s" % (im["self_ty"]["def"].split("::")[-1], sorted(guards)[:2], (" min:" + str(mins)) if mins else ""))
            ctx.note("sibling clamps %s::%s%s -- %s" % (tr.split("::")[-1], meth, tag, " | ".join(row)))


def check_wm_load_width(ctx, F, tag, rule="C09.R2.width-predicate"):
    """WMCore::load accepts exactly the widths 1..=64 that construction can produce."""
    wl = F.body("<wavelet_matrix::wm_core::WMCore as serialize::Serialize>::load")
    aggs = [bi for bi, si, st in wl.stmts() if st["s"] == "assign" and st["rv"]["r"] == "agg" and st["rv"].get("def") == "wavelet_matrix::wm_core::WMCore"]
    ok = bool(aggs)
    for bi in aggs:
        fs = facts_at(wl, bi)
        import serfmt
        from guards import fact_nonzero, fact_at_most
        L = serfmt.load_seq(wl)
        if not L or L[0]["payload"] is None:
            raise Undecided("WMCore::load: the width element is not the first load")
        wt = wl.term_of_local(L[0]["payload"])
        ok = ok and fact_nonzero(fs, wt) and fact_at_most(fs, wt, 64) and not fact_at_most(fs, wt, 63)
    ctx.ob(rule, wl.name + tag, loc(wl.raw["span"]), ok, "guard-dominance", "WMCore::load refuses width == 0 || width > WORD_BITS before building: %s" % ok)

