"""A13: equivalence of size formulas in one length variable, decided over residues.

The serialization sizes, paddings and map guards of this crate are functions of one byte / bit / item count N built from
`+ - * / % & >> <<` with constants that are powers of two up to 64, `min` / `max` / `saturating_sub`, `div_ceil` /
`next_multiple_of`, and the crate's own rounding helpers (`bits::bytes_to_words`, `round_up_to_word_bytes`, ...).  Two such
formulas written differently (`bytes_to_words(n)`, `(n + 7) / 8`, `n.div_ceil(8)`, `(n + 7) >> 3`) cannot be compared as text, and
a formula that is almost the same (`n / 8`, `n / 8 + 1`) differs only for some N.

Write N = 64 * Q + r.  Every sub-term of such a formula evaluates to a form  q * Q + c  with integers q, c once r is fixed,
provided divisions and masks only meet forms whose q is divisible by the divisor (true for the formulas above, checked at every
step; otherwise the evaluation gives up).  Two formulas are equal for every N (overflow aside) iff their forms agree for each of the
64 residues, in both cases Q = 0 (all values concrete) and Q >= 1 (Q symbolic; `min` / `max` against a constant are decided by
the lower bound at Q = 1).  That is a finite case split over an abstract domain, not a run of the code: helpers are read through
their MIR bodies (so a changed helper changes the result), and the answer is a proof of equality, a residue for which the two
differ, or "cannot evaluate".

equiv(F, t1, t2, is_len) -> (True, None) | (False, witness text) | (None, reason)
"""
from guards import strip_casts
from pat import fold_consts

M = 64
ROUNDING_HELPERS = ("bits::bytes_to_words", "bits::bits_to_words", "bits::words_to_bytes", "bits::words_to_bits", "bits::round_up_to_word_bytes",
                    "bits::round_up_to_word_bits", "bits::div_round_up")


class GiveUp(Exception):
    pass


def _pow2(x):
    return x > 0 and (x & (x - 1)) == 0


def _exact(f):
    return f[0] == 0


def _lower(f, mode):
    """Smallest value of the form for Q >= mode (mode 1), or its value (mode 0)."""
    return f[1] if (mode == 0 or f[0] == 0) else (f[0] + f[1] if f[0] > 0 else None)


def ev(F, t, is_len, r, mode, env=None, depth=0):
    """Form (q, c) of term t with N = 64 Q + r; mode 0: Q = 0; mode 1: Q >= 1."""
    if depth > 24:
        raise GiveUp("too deep")
    t = strip_casts(t)
    while isinstance(t, tuple) and t and t[0] in ("ref", "deref"):
        t = strip_casts(t[1])
    if is_len(t):
        return (0, r) if mode == 0 else (M, r)
    if env is not None and t[0] == "param" and t[1] in env:
        return env[t[1]]
    k = t[0]
    if k == "form":
        return (t[1], t[2])
    if k == "const" and isinstance(t[1], int):
        return (0, t[1])
    if k == "bin":
        op = t[1]
        if op.endswith("WithOverflow"):
            op = op[:-len("WithOverflow")]
        a = ev(F, t[2], is_len, r, mode, env, depth + 1)
        b = ev(F, t[3], is_len, r, mode, env, depth + 1)
        if op in ("Lt", "Le", "Gt", "Ge", "Eq", "Ne"):
            return (0, 1 if _cmp(op, a, b, mode) else 0)        # a truth value, as `usize::from(n % 64 != 0)` uses it
        if op == "Add":
            return (a[0] + b[0], a[1] + b[1])
        if op == "Sub":
            res = (a[0] - b[0], a[1] - b[1])
            lo = _lower(res, mode)
            if lo is None or lo < 0:
                raise GiveUp("subtraction may underflow")
            return res
        if op == "Mul":
            if _exact(a):
                return (b[0] * a[1], b[1] * a[1])
            if _exact(b):
                return (a[0] * b[1], a[1] * b[1])
            raise GiveUp("product of two unknowns")
        if op in ("Shl",) and _exact(b) and 0 <= b[1] < 64:
            return (a[0] << b[1], a[1] << b[1])
        if op in ("Div", "Shr") and _exact(b):
            d = b[1] if op == "Div" else (1 << b[1] if 0 <= b[1] < 64 else 0)
            if d <= 0:
                raise GiveUp("division by zero / wide shift")
            if a[0] % d != 0:
                raise GiveUp("divisor does not divide the period")
            return (a[0] // d, a[1] // d)
        if op == "Rem" and _exact(b) and b[1] > 0:
            if a[0] % b[1] != 0:
                raise GiveUp("modulus does not divide the period")
            return (0, a[1] % b[1])
        if op == "BitAnd":
            for x, y in ((a, b), (b, a)):
                if _exact(y) and _pow2(y[1] + 1):            # low mask 2^k - 1
                    if x[0] % (y[1] + 1) != 0:
                        raise GiveUp("mask does not divide the period")
                    return (0, x[1] % (y[1] + 1))
                if _exact(y) and y[1] >= 0 and _pow2(((1 << 64) - y[1])):   # high mask !(2^k - 1) as a u64 constant
                    d = (1 << 64) - y[1]
                    if x[0] % d != 0:
                        raise GiveUp("mask does not divide the period")
                    return (x[0], x[1] - x[1] % d)
            if _exact(a) and _exact(b):
                return (0, a[1] & b[1])
            raise GiveUp("mask of unknown shape")
        raise GiveUp("operator %s" % op)
    if k == "un" and t[1] == "Not":
        inner = strip_casts(t[2])
        raise GiveUp("complement outside a mask")
    if k == "call":
        name = t[1]
        last = name.split("::")[-1].split("<")[0]
        args = [ev(F, a, is_len, r, mode, env, depth + 1) for a in t[2]] if last in ("min", "max", "saturating_sub", "div_ceil", "next_multiple_of", "wrapping_neg", "wrapping_sub", "wrapping_add") else None
        if last in ("min", "max") and len(t[2]) == 2:
            a, b = args
            if a[0] == b[0]:
                pick = (a if a[1] <= b[1] else b) if last == "min" else (a if a[1] >= b[1] else b)
                return pick
            la, lb = _lower(a, mode), _lower(b, mode)
            # one side grows with Q, the other does not: decided when the growing side starts at or above the other
            if a[0] > b[0] >= 0 and b[0] == 0 and la is not None and la >= b[1]:
                return b if last == "min" else a
            if b[0] > a[0] >= 0 and a[0] == 0 and lb is not None and lb >= a[1]:
                return a if last == "min" else b
            raise GiveUp("min / max not decided by the lower bound")
        if last == "saturating_sub" and len(t[2]) == 2:
            a, b = args
            res = (a[0] - b[0], a[1] - b[1])
            lo = _lower(res, mode)
            if lo is not None and lo >= 0:
                return res
            if _exact(res):
                return (0, 0)
            raise GiveUp("saturating_sub not decided")
        if last == "div_ceil" and len(t[2]) == 2 and _exact(args[1]) and args[1][1] > 0:
            a, d = args[0], args[1][1]
            if a[0] % d != 0:
                raise GiveUp("divisor does not divide the period")
            return (a[0] // d, (a[1] + d - 1) // d)
        if last == "next_multiple_of" and len(t[2]) == 2 and _exact(args[1]) and args[1][1] > 0:
            a, d = args[0], args[1][1]
            if a[0] % d != 0:
                raise GiveUp("divisor does not divide the period")
            return (a[0], ((a[1] + d - 1) // d) * d)
        if last == "wrapping_neg" and len(t[2]) == 1:
            return (-args[0][0], -args[0][1])
        if last in ("wrapping_sub", "wrapping_add") and len(t[2]) == 2:
            s = -1 if last == "wrapping_sub" else 1
            return (args[0][0] + s * args[1][0], args[0][1] + s * args[1][1])
        if last in ("from", "into", "try_from", "try_into", "unwrap", "clone") and len(t[2]) == 1:
            return ev(F, t[2][0], is_len, r, mode, env, depth + 1)
        if name in ("std::mem::size_of", "core::mem::size_of") and not t[2] and len(t) > 3 and t[3]:
            sz = {"u8": 1, "i8": 1, "u16": 2, "i16": 2, "u32": 4, "i32": 4, "u64": 8, "i64": 8, "usize": 8, "isize": 8, "u128": 16, "i128": 16}.get(t[3][0])
            if sz is not None:
                return (0, sz)                        # of the analysed (64-bit) configuration
        if name in ("bits::low_set", "bits::low_set_unchecked") and len(t[2]) == 1:
            w = ev(F, t[2][0], is_len, r, mode, env, depth + 1)
            if _exact(w) and 0 <= w[1] <= 64:
                return (0, (1 << w[1]) - 1)          # the table behind the accessor is decided by C17.R1 / R2
            raise GiveUp("mask of unknown width")
        # a helper of the crate with a straight-line body: evaluated through its own MIR
        if F.has_body(name) and not name.startswith("<"):
            cb = F.body(name)
            if cb.nargs == len(t[2]):
                body = cb.term_of_local(0)
                sub = {i: ev(F, a, is_len, r, mode, env, depth + 1) for i, a in enumerate(t[2])}
                if not any(isinstance(x, tuple) and x and x[0] in ("var", "deep") for x in _sub(body)):
                    return ev(F, fold_consts(body), lambda x: False, r, mode, sub, depth + 1)
                # a body with branches: followed path by path, every branch decided by the forms (or given up)
                return run_body(F, cb, [sub[i] for i in range(cb.nargs)], r, mode, depth + 1)
        raise GiveUp("call %s" % name[-40:])
    if k == "field" and isinstance(t[2], str) and t[2].isdigit():
        inner = strip_casts(t[1])
        if inner[0] == "tuple" and int(t[2]) < len(inner[1]):
            return ev(F, inner[1][int(t[2])], is_len, r, mode, env, depth + 1)
        if inner[0] == "call" and F.has_body(inner[1]) and not inner[1].startswith("<"):
            cb = F.body(inner[1])
            body = strip_casts(cb.term_of_local(0))
            if cb.nargs == len(inner[2]) and body[0] == "tuple" and int(t[2]) < len(body[1]) and \
                    not any(isinstance(x, tuple) and x and x[0] in ("var", "deep") for x in _sub(body)):
                sub = {i: ev(F, a, is_len, r, mode, env, depth + 1) for i, a in enumerate(inner[2])}
                return ev(F, fold_consts(body[1][int(t[2])]), lambda x: False, r, mode, sub, depth + 1)
        raise GiveUp("field of %s" % inner[0])
    if k == "namedconst" or k == "constref":
        raise GiveUp("unevaluated constant")
    raise GiveUp("term %s" % k)


def _sub(t):
    from facts import subterms
    return subterms(t)


def equiv(F, t1, t2, is_len):
    """Tried with the period 64 first (the word size), then 4096 and 65536 for formulas that divide by a block or superblock size."""
    global M
    t1, t2 = fold_consts(t1), fold_consts(t2)
    last = None
    try:
        for period in (64, 4096, 65536):
            M = period
            try:
                for mode in (0, 1):
                    for r in range(M):
                        a = ev(F, t1, is_len, r, mode)
                        b = ev(F, t2, is_len, r, mode)
                        if a != b:
                            n = r if mode == 0 else "%d*Q + %d (Q >= 1)" % (M, r)
                            return False, "differ for N = %s: %s vs %s" % (n, _show(a), _show(b))
                return True, None
            except GiveUp as g:
                last = str(g)
                if "period" not in last:
                    break
        return None, last
    finally:
        M = 64


def _show(f):
    return str(f[1]) if f[0] == 0 else "%d*Q%+d" % (f[0], f[1])


def value_at(F, t, is_len):
    """All forms of one formula: {(mode, r): form}, or None."""
    t = fold_consts(t)
    try:
        return {(mode, r): ev(F, t, is_len, r, mode) for mode in (0, 1) for r in range(M)}
    except GiveUp:
        return None


NVAR = ("param", 99, "N")


def abstract(t, pred):
    """The term with every sub-term satisfying pred (tested on the cast-stripped term) replaced by the variable N."""
    t0 = strip_casts(t)
    while isinstance(t0, tuple) and t0 and t0[0] in ("ref", "deref"):
        t0 = strip_casts(t0[1])
    if isinstance(t0, tuple) and t0 and isinstance(t0[0], str) and pred(t0):
        return NVAR
    if not isinstance(t, tuple) or not t:
        return t
    if not isinstance(t[0], str):
        return tuple(abstract(x, pred) for x in t)
    if t[0] == "call":
        return (t[0], t[1], tuple(abstract(x, pred) for x in t[2])) + t[3:]
    if t[0] in ("const", "param", "var", "namedconst", "constref", "fn", "static", "bytes", "zst"):
        return t
    return (t[0],) + tuple(abstract(x, pred) if isinstance(x, tuple) else x for x in t[1:])


def is_nvar(t):
    return isinstance(t, tuple) and t[:2] == ("param", 99)


def equiv_n(F, t1, p1, t2, p2):
    """equiv of two formulas whose length variable is recognised by different predicates."""
    return equiv(F, abstract(t1, p1), abstract(t2, p2), is_nvar)


def agrees(F, got, pred, want_of_n):
    """Fallback for a syntactic formula rule: is `got` (its length variable recognised by pred) equal, for every length, to the
    reference formula want_of_n(NVAR)?  (True | False | None, text)"""
    r, why = equiv(F, abstract(got, pred), want_of_n(NVAR), is_nvar)
    return r, ("equal for every length (residues)" if r else ("REFUTED over residues: " + why if r is False else "residues: not evaluable (%s)" % why))


def call(name, *args):
    return ("call", name, tuple(args), (), name)



def _cmp(op, a, b, mode):
    """Truth value of a comparison of two forms for every admitted Q, or GiveUp."""
    d = (a[0] - b[0], a[1] - b[1])
    if mode == 0 or d[0] == 0:
        v = d[1]
        lo = hi = v
    else:
        first = d[0] + d[1]                      # value at Q = 1; monotone in Q
        if d[0] > 0:
            lo, hi = first, None
        else:
            lo, hi = None, first
    def sign():
        if lo is not None and hi is not None:
            return (lo > 0) - (lo < 0)
        if lo is not None and lo > 0:
            return 1
        if hi is not None and hi < 0:
            return -1
        raise GiveUp("comparison not decided for every Q")
    if op in ("Eq", "Ne"):
        if lo is not None and hi is not None:
            return (lo == 0) == (op == "Eq")
        sgn = sign()
        return op == "Ne"
    sgn = sign() if not (lo is not None and hi is not None) else (lo > 0) - (lo < 0)
    return {"Lt": sgn < 0, "Le": sgn <= 0, "Gt": sgn > 0, "Ge": sgn >= 0}[op]


def run_body(F, b, args, r, mode, depth=0):
    """The form returned by a (branching) function of the crate for arguments given as forms: its MIR is followed from the entry,
    statement by statement, over the same abstract values as ev(); a branch is taken only when the forms decide its condition for
    every admitted Q (a comparison of two forms, an exact integer), overflow assertions are assumed to pass (the property rules
    that need them decide them separately), loops are cut off after 400 blocks.  GiveUp on anything else."""
    if depth > 8:
        raise GiveUp("too deep")
    env = {i + 1: a for i, a in enumerate(args)}

    def place(p):
        v = env.get(p["l"])
        if v is None:
            raise GiveUp("unset local")
        for pr in p["p"]:
            if isinstance(pr, dict) and "f" in pr and isinstance(v, tuple) and v and v[0] == "pair":
                v = v[1 + pr["f"]]
            else:
                raise GiveUp("projection")
        return v

    def operand(o):
        q = o.get("c") or o.get("m")
        if q is not None:
            return place(q)
        k = o.get("k")
        if k is not None and isinstance(k.get("v"), (int, str)) and not isinstance(k.get("v"), bool):
            try:
                return (0, int(k["v"]))
            except (TypeError, ValueError):
                raise GiveUp("constant")
        if k is not None and k.get("zst"):
            return ("unit",)
        if k is not None and isinstance(k.get("v"), bool):
            return bool(k["v"])
        raise GiveUp("operand")

    def as_term(v):
        if isinstance(v, bool):
            return ("form", 0, int(v))
        if isinstance(v, tuple) and len(v) == 2 and all(isinstance(x, int) for x in v):
            return ("form", v[0], v[1])
        raise GiveUp("non-integer operand")

    bi, steps = 0, 0
    while True:
        steps += 1
        if steps > 400:
            raise GiveUp("loop")
        blk = b.blocks[bi]
        for st in blk["stmts"]:
            if st["s"] != "assign":
                continue
            if st["lhs"]["p"]:
                raise GiveUp("store through a projection")
            rv = st["rv"]
            k = rv["r"]
            if k == "use":
                val = operand(rv["o"])
            elif k == "cast":
                val = operand(rv["o"])
                if rv.get("kind") != "IntToInt":
                    raise GiveUp("cast")
                if isinstance(val, bool):
                    val = (0, int(val))
            elif k == "bin":
                op = rv["op"]
                a, c = operand(rv["a"]), operand(rv["b"])
                if op in ("Lt", "Le", "Gt", "Ge", "Eq", "Ne"):
                    if isinstance(a, bool) or isinstance(c, bool):
                        a, c = (0, int(a)) if isinstance(a, bool) else a, (0, int(c)) if isinstance(c, bool) else c
                    val = _cmp(op, a, c, mode)
                elif op.endswith("WithOverflow"):
                    val = ("pair", ev(F, ("bin", op, as_term(a), as_term(c)), lambda x: False, r, mode, None, depth + 1), False)
                else:
                    val = ev(F, ("bin", op, as_term(a), as_term(c)), lambda x: False, r, mode, None, depth + 1)
            elif k == "un" and rv.get("op") == "Not":
                a = operand(rv["o"])
                if not isinstance(a, bool):
                    raise GiveUp("complement")
                val = not a
            else:
                raise GiveUp("rvalue %s" % k)
            env[st["lhs"]["l"]] = val
        t = blk["term"]
        k = t["t"]
        if k == "goto":
            bi = t["target"]
        elif k == "return":
            v = env.get(0)
            if isinstance(v, tuple) and len(v) == 2 and all(isinstance(x, int) for x in v):
                return v
            raise GiveUp("non-integer result")
        elif k == "assert":
            bi = t["target"]
        elif k == "drop":
            bi = t["target"]
        elif k == "switch":
            d = operand(t["discr"])
            if isinstance(d, bool):
                d = (0, int(d))
            if not (isinstance(d, tuple) and len(d) == 2 and d[0] == 0):
                raise GiveUp("branch on an unknown")
            nxt = t["otherwise"]
            for val, tgt in t["targets"]:
                if int(val) == d[1]:
                    nxt = tgt
            bi = nxt
        elif k == "call":
            if t["dest"]["p"] or t.get("target") is None:
                raise GiveUp("call shape")
            from facts import callee_name
            name = callee_name(t)
            argv = [operand(a) for a in t["args"]]
            gen = tuple(x if isinstance(x, str) else str(x) for x in (t["callee"].get("args") or ()))
            env[t["dest"]["l"]] = ev(F, ("call", name, tuple(as_term(a) for a in argv), gen, name), lambda x: False, r, mode, None, depth + 1)
            bi = t["target"]
        else:
            raise GiveUp("terminator %s" % k)


def fn_agrees(F, name, arg_terms, want, periods=(64,)):
    """Does the crate function `name`, called with arg_terms (NVAR for the length, constants otherwise), return want(NVAR) for
    every length?  Decided per residue of each period and for Q = 0 / Q >= 1 by run_body.  (True | False | None, text)"""
    global M
    if not F.has_body(name):
        return None, "no body"
    b = F.body(name)
    wt = fold_consts(want(NVAR))
    try:
        last = None
        for period in periods:
            M = period
            try:
                for mode in (0, 1):
                    for r in range(M):
                        argf = [ev(F, a, is_nvar, r, mode) for a in arg_terms]
                        got = run_body(F, b, argf, r, mode)
                        exp = ev(F, wt, is_nvar, r, mode)
                        if got != exp:
                            n = r if mode == 0 else "%d*Q + %d (Q >= 1)" % (M, r)
                            return False, "differ for N = %s: %s vs %s" % (n, _show(got), _show(exp))
                return True, "equal for every length (residues mod %d)" % period
            except GiveUp as g:
                last = str(g)
                if "period" not in last:
                    break
        return None, "residues: not evaluable (%s)" % last
    finally:
        M = 64
