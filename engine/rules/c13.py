"""C13 -- memory-mapped views expose exactly the serialized content at any offset (structural part).

 R1 guard before touch in all six MemoryMapped::new (shared with C14.R4 / C08)
 R2 the length formula in the guard, in map_len() and in the owned type's size_in_elements() is the same formula
 R3 nested views are created at offset + k, map_offset = nested - k, map_len = nested + k, where k is the number of header
    elements read and the number of scalar elements the owned serialize_header writes before the nested part
 R4 (thorough) a view cannot outlive its map (compile-fail witnesses)
"""
from facts import Undecided, loc, tstr, callee_name, callee_written, subterms, operand_place
from guards import facts_at, strip_casts
from pat import m, Bind, ANY, Call, Bin, Const, Param, SelfField, core, self_path
import mapped
import serfmt
import witness

META = {
    "level": "other",
    "technique": "static analysis: guard dominance before every read/carve of the map, three-way formula agreement (guard / map_len / size_in_elements), tiling constants (MIR, rustc_private driver); compile_fail lifetime witnesses in the thorough tier",
    "explanation": "Each MemoryMapped::new is analysed for every index into the map's slice, every sub-slice and every from_raw_parts: each "
                   "must be dominated by a comparison with map.len() whose failing edge returns UnexpectedEof, and the caller-supplied "
                   "offset must be bounded before it enters arithmetic. The length expression inside the guard, the one map_len() returns "
                   "and the one the owned type's size_in_elements() returns are reduced to the same normal form, so views tile the file "
                   "exactly as loads consume it. Nested mappers' +k/-k constants are tied to the number of header elements read and "
                   "written. Equality of exposed content with loaded content is the same bytes reinterpreted and is not decided further.",
    "trusted_base": ["rustc's MIR faithfully represents the source", "rustc's borrow checker (lifetime witnesses)"],
    "assumptions": ["header values of an honest file do not overflow offset + 1 + f(len)"],
}

OWNED = {"serialize::MappedSlice": "std::vec::Vec<V>", "serialize::MappedBytes": "std::vec::Vec<u8>", "serialize::MappedStr": "std::string::String"}
NESTED = {"raw_vector::RawVectorMapper": ("raw_vector::RawVector", 1), "int_vector::IntVectorMapper": ("int_vector::IntVector", 2),
          "serialize::MappedOption": ("std::option::Option<V>", 1)}


def normal_form(t, n_pred):
    """Multiset of additive leaves with the element-count term replaced by 'N'."""
    def sub(x):
        x = core(x) if x[0] in ("ref", "deref", "cast") else x
        if n_pred(x):
            return ("N",)
        if x[0] == "call":
            return ("call", x[1].split("::<")[0] if x[1].startswith("serialize::Serializable") else x[1], tuple(sub(a) for a in x[2]))
        if x[0] == "bin":
            a, b = sub(x[2]), sub(x[3])
            if x[1] in ("Add", "Mul") and repr(a) > repr(b):
                a, b = b, a
            return ("bin", x[1], a, b)
        if x[0] == "const":
            return ("const", x[1])
        return x
    leaves = [sub(l) for l in mapped.add_leaves(t)]
    return sorted(leaves, key=repr)


def callee_written_is_new(x):
    """The term is the nested view: a call of MemoryMapped::new (as written or resolved)."""
    return (len(x) > 4 and x[4] == "serialize::MemoryMapped::new") or x[1].endswith("MemoryMapped<'a>>::new") or x[1] == "serialize::MemoryMapped::new"


def check(ctx):
    configs = ["native"] if ctx.tier == "quick" else ["native", "portable", "native-rel", "portable-rel"]
    for cfg in configs:
        check_config(ctx, ctx.facts(cfg), "" if cfg == "native" else "@" + cfg)
    if ctx.tier == "thorough":
        witness.run(ctx, "C13")


VIEW_TWINS = [("<raw_vector::RawVector as raw_vector::AccessRaw>::%s" % meth, "<raw_vector::RawVectorMapper<'a> as raw_vector::AccessRaw>::%s" % meth)
              for meth in ("bit", "int", "word", "word_unchecked")] + \
             [("<int_vector::IntVector as ops::Access<'a>>::get", "<int_vector::IntVectorMapper<'a> as ops::Access<'a>>::get")]
VIEW_SUBST = [("IntVectorMapper<'a>", "IntVector"), ("RawVectorMapper<'a>", "RawVector"), ("serialize::MappedSlice<'_, u64>", "std::vec::Vec<u64>"), ("MappedSlice", "Vec")]


def check_view_accessors(ctx, F, tag):
    """"A mapped view exposes exactly the content that loading would give": the read accessors of the mapped vectors are the read
    accessors of the owned vectors with the storage type exchanged (both end in bits::read_int / the same word index).  Sibling
    agreement by effect-level isomorphism (A8); a pair that is structured differently (one side gained a fast path) is undecided."""
    import twins
    for a, b_ in VIEW_TWINS:
        if not (F.has_body(a) and F.has_body(b_)):
            raise Undecided("anchor lost: %s / %s" % (a, b_))
        ok, info = twins.compare(F.body(a), F.body(b_), VIEW_SUBST, types=False)
        ctx.ob("C13.R5.view-accessor-agrees-with-owned", "%s ~ %s%s" % (a.split("::")[-1], b_.split(" as ")[0].strip("<").split("::")[-1] + "::" + b_.split("::")[-1], tag),
               loc(F.body(b_).raw["span"]), ok, "mir-isomorphism",
               ("the mapped accessor is the owned accessor with the storage type exchanged (%s steps compared)" % info) if ok else "the accessors diverge: %s" % str(info)[:200],
               positive=ok is False)


def check_config(ctx, F, tag):
    check_view_accessors(ctx, F, tag)
    # "a view is refused exactly when loading refuses": a string view validates its bytes as loading does (zero-count)
    unchecked_utf8 = [(b.name, loc(t["sp"])) for b in F.all_bodies() if "::tests::" not in b.name for _, t in b.calls()
                      if callee_name(t).split("::")[-1] in ("from_utf8_unchecked", "from_utf8_unchecked_mut")]
    ctx.ob("C13.R2.no-unchecked-utf8", "crate" + tag, "src/", not unchecked_utf8, "who-may-call",
           "str::from_utf8_unchecked calls (count must be 0): %s" % unchecked_utf8[:3], nontrivial=False, positive=True)
    import c06
    c06.check_refusal_inventory(ctx, F, tag, "C13.R2.mapper-refusals-reviewed", lambda n: n.endswith("serialize::MemoryMapped<'a>>::new"))
    if not getattr(ctx, "_map", None):
        import c14
        from core import Relabel
        mapped_fn = lambda k: "Mapped" in k.split("|")[0] or "Mapper" in k.split("|")[0]
        c14.check_config(Relabel(ctx, {"C14.R1.result-consumed": ("C13.R4.refusal-propagates.result-consumed", mapped_fn),
                                       "C14.R1.io-result-propagated": ("C13.R4.refusal-propagates.io-result-propagated", mapped_fn)}), F, tag, views=False)
    mapped.check_views(ctx, F, tag, prefix="C13.R1")
    impls = {im["self"]: im for im in serfmt.serialize_impls(F)}
    ctx0 = ctx
    for im, b in mapped.views(F):
        name = im["self_ty"].get("def")
        ctx = mapped.Softened(ctx0, mapped.unmodelled_slice_calls(b))
        items = {i["name"]: i["def"] for i in im["items"]}
        mo = F.body(items["map_offset"])
        ml = F.body(items["map_len"])
        where = loc(b.raw["span"])
        sites = mapped.analyse_view(b)
        if name in OWNED:
            frp = [s for s in sites if s["kind"] == "from_raw_parts"]
            if len(frp) != 1:
                # the view is carved some other way (a constructor that delegates to another view's constructor): not a shape
                # the formula comparison reads; the delegate's own obligations stand
                ctx.ob("C13.R2.length-formulas-agree", name + tag, where, None, "formula-agreement", "%d from_raw_parts calls in %s::new: carved through another constructor" % (len(frp), name))
                continue
            # run the R1 pass again to obtain the guard term
            facts = mapped.view_facts(b, frp[0]["block"])
            n = strip_casts(frp[0]["count"])
            guard = None
            for f in facts:
                if f[0] == "cmp":
                    op, a, c = f[1], f[2], f[3]
                    if op in ("Gt", "Ge"):
                        op, a, c = {"Gt": "Lt", "Ge": "Le"}[op], c, a
                    if op == "Le" and mapped.is_map_len(c) and any(n in list(subterms(x)) for x in mapped.add_leaves(a)):
                        guard = a
            if guard is None:
                ctx.ob("C13.R2.length-formulas-agree", name + tag, where, False, "formula-agreement", "no `offset + .. <= map.len()` guard to compare")
                continue
            g_leaves = [l for l in mapped.add_leaves(guard) if not (strip_casts(l)[0] == "param" and strip_casts(l)[1] == 1)]
            g_nf = normal_form(rebuild_sum(g_leaves), lambda x: strip_casts(x) == n)
            # map_len: N = Self::len(self), which must be the length of the data field
            lenfn = F.body(name + "::len") if F.has_body(name + "::len") else None
            len_names = [k for k in F.bodies if k.split("::<")[0] == name and k.endswith("::len")]
            if not len_names:
                raise Undecided("anchor lost: %s::len" % name)
            lb = F.body(len_names[0])
            lt = lb.term_of_local(0)
            len_ok = any(self_path(x) == ["data"] for x in subterms(lt)) and (core(lt)[0] == "un" or (core(lt)[0] == "call" and core(lt)[1].endswith("::len")))
            m_nf = normal_form(ml.term_of_local(0), lambda x: x[0] == "call" and x[1] == len_names[0] and core(x[2][0])[:2] == ("param", 0))
            own = impls[OWNED[name]]["fns"]["size_in_elements"]
            o_nf = normal_form(own.term_of_local(0), lambda x: x[0] == "call" and x[1].endswith("::len") and core(x[2][0])[:2] == ("param", 0))
            ok = g_nf == m_nf == o_nf and len_ok
            sem = ""
            refuted = False
            if not ok and len_ok:
                # written differently: decide the three formulas over the residues of the length (A13) -- equal for every length,
                # or different for a length the witness names (`len / 8` for `bytes_to_words(len)`: one word short unless 8 | len)
                import residues
                p_g = lambda x: strip_casts(x) == n
                p_m = lambda x: x[0] == "call" and x[1] == len_names[0] and core(x[2][0])[:2] == ("param", 0)
                p_o = lambda x: x[0] == "call" and x[1].endswith("::len") and core(x[2][0])[:2] == ("param", 0)
                r1 = residues.equiv_n(F, rebuild_sum(g_leaves), p_g, ml.term_of_local(0), p_m)
                r2 = residues.equiv_n(F, ml.term_of_local(0), p_m, own.term_of_local(0), p_o)
                if r1[0] is True and r2[0] is True:
                    ok, sem = True, "; equal for every length (residues)"
                elif r1[0] is False or r2[0] is False:
                    refuted = True
                    sem = "; REFUTED over residues: guard vs map_len %s; map_len vs size_in_elements %s" % (r1[1] or "equal", r2[1] or "equal")
                else:
                    sem = "; residues: not evaluable (%s / %s)" % (r1[1], r2[1])
            ctx.ob("C13.R2.length-formulas-agree", name + tag, where, ok, "formula-agreement",
                   "guard: offset + %s <= map.len(); map_len() = %s; %s::size_in_elements() = %s; len() reads the data field: %s%s" % (
                       show(g_nf), show(m_nf), OWNED[name].split("::")[-1], show(o_nf), len_ok, sem), positive=refuted)
            # the data field is the carved slice and offset is the parameter
            aggs = [st for bi, si, st in b.stmts() if st["s"] == "assign" and st["rv"]["r"] == "agg" and st["rv"].get("def") == name]
            okf = len(aggs) == 1
            if okf:
                ops = dict(zip(aggs[0]["rv"]["fields"], aggs[0]["rv"]["ops"]))
                okf = core(b.term_of_operand(ops["offset"]))[:2] == ("param", 1) and any(x[0] == "call" and x[1].startswith("std::slice::from_raw_parts") for x in subterms(b.term_of_operand(ops["data"])))
            okm = self_path(mo.term_of_local(0)) == ["offset"]
            ctx.ob("C13.R3.leaf-offset", name + tag, where, okf and okm, "term-provenance", "view{data: carved slice, offset: the parameter}: %s; map_offset() = self.offset: %s" % (okf, okm))
        elif name in NESTED:
            owned, k = NESTED[name]
            idx = [s for s in sites if s["kind"] in ("index", "get")]
            consts = sorted(mapped.lin(s["idx"])[1] for s in idx if mapped.lin(s["idx"])[0] is not None and strip_casts(mapped.lin(s["idx"])[0])[:2] == ("param", 1))
            reads_ok = consts == list(range(k))
            nested = [(bi, t) for bi, t in b.calls() if callee_written(t) == "serialize::MemoryMapped::new"]
            nest_ok = len(nested) == 1 and core(b.term_of_operand(nested[0][1]["args"][0]))[:2] == ("param", 0) and \
                mapped.lin(b.term_of_operand(nested[0][1]["args"][1])) == (("param", 1, b.local_name(2)), k)
            # written header elements before the nested part
            W = serfmt.write_seq(impls[owned]["fns"]["serialize_header"])
            scalars = [w for w in W if w["ty"] == "usize" and w["method"] == "serialize"]
            wr_ok = len(scalars) == k
            if name == "serialize::MappedOption":
                okm = self_path(mo.term_of_local(0)) == ["offset"]
                oklen = m(Bin("Add", SelfField("data_len"), Const(1)), ml.term_of_local(0))
                if not oklen:
                    from guards import canon
                    # the constant spelled through its accessor (`absent_option_size() + self.data_len`)
                    oklen = m(Bin("Add", ("field", ("param", 0), "data_len"), Const(1)), canon(F, ml.term_of_local(0)))
                # data_len is the element read at offset, and the owned header element is value.size_in_elements()
                aggs = [(bi, st) for bi, si, st in b.stmts() if st["s"] == "assign" and st["rv"]["r"] == "agg" and st["rv"].get("def") == name]
                okd = len(aggs) >= 1
                header = None
                from guards import fact_nonzero, fact_zero
                if any("data_len" not in st["rv"]["fields"] for bi, st in aggs):
                    # the view no longer records the header element: its length can then only come from the nested view, which
                    # need not cover the whole payload the header announces
                    okd = False
                    aggs = []
                for bi, st in aggs:
                    ops = dict(zip(st["rv"]["fields"], st["rv"]["ops"]))
                    dl = strip_casts(b.term_of_operand(ops["data_len"]))
                    is_header = dl[0] == "index" and mapped.is_map_slice(dl[1]) and core(dl[2])[:2] == ("param", 1)
                    if is_header:
                        header = dl
                    okd = okd and core(b.term_of_operand(ops["offset"]))[:2] == ("param", 1) and (is_header or (dl[0] == "const" and dl[1] == 0))
                # an explicit 0 stands for the header only where the header was found to be 0
                for bi, st in aggs:
                    ops = dict(zip(st["rv"]["fields"], st["rv"]["ops"]))
                    dl = strip_casts(b.term_of_operand(ops["data_len"]))
                    if dl[0] == "const" and (header is None or not fact_zero(facts_at(b, bi), header)):
                        okd = False
                okd = okd and header is not None
                # the nested view is created exactly when data_len > 0
                fs = facts_at(b, nested[0][0]) if nested else []
                okg = any(f[0] == "cmp" and f[1] == "Gt" and m(Const(0), f[3]) for f in fs) or (header is not None and fact_nonzero(fs, header))
                ok = reads_ok and nest_ok and wr_ok and okm and oklen and okd and okg
                detail = "reads header elements at offsets %s (k=%d); nested at offset+%d: %s; Option header writes %d element(s); map_len = data_len + 1: %s; data_len = slice[offset]: %s; nested only when data_len > 0: %s" % (
                    consts, k, k, nest_ok, len(scalars), oklen, okd, okg)
            else:
                okm = m(Bin("Sub", Call(lambda n_: n_.endswith("::map_offset"), SelfField("data")), Const(k)), mo.term_of_local(0))
                oklen = m(Bin("Add", Call(lambda n_: n_.endswith("::map_len"), SelfField("data")), Const(k)), ml.term_of_local(0))
                # ... or the two values are computed once in `new` and kept in fields: the getter returns the field, and the
                # constructor stores the offset parameter, resp. k + (nested view).map_len(), into it
                aggs_ = [st for bi, si, st in b.stmts() if st["s"] == "assign" and st["rv"]["r"] == "agg" and st["rv"].get("def") == name]
                if len(aggs_) == 1:
                    ops_ = dict(zip(aggs_[0]["rv"]["fields"], aggs_[0]["rv"]["ops"]))
                    pm, pl_ = self_path(mo.term_of_local(0)), self_path(ml.term_of_local(0))
                    if not okm and pm and len(pm) == 1 and pm[0] in ops_:
                        okm = core(b.term_of_operand(ops_[pm[0]]))[:2] == ("param", 1)
                    if not oklen and pl_ and len(pl_) == 1 and pl_[0] in ops_:
                        oklen = m(Bin("Add", Const(k), Call(lambda n_: n_.endswith("::map_len"), ANY)), b.term_of_operand(ops_[pl_[0]])) and \
                            any(x[0] == "call" and callee_written_is_new(x) for x in subterms(b.term_of_operand(ops_[pl_[0]])))
                ok = reads_ok and nest_ok and wr_ok and okm and oklen
                detail = "reads header elements at offsets %s (k=%d); nested view at offset+%d: %s; %s::serialize_header writes %d scalar element(s) before the nested part; map_offset = nested - %d: %s; map_len = nested + %d: %s" % (
                    consts, k, k, nest_ok, owned.split("::")[-1], len(scalars), k, okm, k, oklen)
            ctx.ob("C13.R3.tiling-constants", name + tag, where, ok, "constant-agreement", detail)
        else:
            ctx.ob("C13.R2.length-formulas-agree", str(name) + tag, where, False, "formula-agreement", "view type without a table entry (owned counterpart unknown)")


def rebuild_sum(leaves):
    t = leaves[0]
    for l in leaves[1:]:
        t = ("bin", "Add", t, l)
    return t


def show(nf):
    def s(x):
        if x == ("N",):
            return "N"
        if x[0] == "const":
            return str(x[1])
        if x[0] == "bin":
            return "%s(%s, %s)" % (x[1], s(x[2]), s(x[3]))
        if x[0] == "call":
            return "%s(%s)" % (x[1].split("::")[-1], ", ".join(s(a) for a in x[2]))
        return tstr(x)
    return " + ".join(s(x) for x in nf)
