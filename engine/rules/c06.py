"""C06 -- serialization round trip is the identity and sizes are exact (structural part).

 R1 per Serialize impl: the sequence written by serialize_header+serialize_body equals, item by item and type by type, the
    sequence read by load, and the k-th loaded value becomes the k-th written field
 R2 size_in_elements sums exactly the written items; trait defaults not overridden; the five basic impls have the
    header/body/load/size shapes that make bytes written = bytes read = 8 * size_in_elements
 R3 size_by_params formulas equal the fixed element counts derived from the write sequences
"""
from facts import Undecided, loc, tstr, callee_name, callee_written, subterms, operand_place
from guards import try_sites, ok_blocks, must_pass_through, strip_casts, facts_at, edge_facts
from pat import m, Bind, ANY, Call, Bin, Const, Param, SelfField, Or, core, self_path
import serfmt
import rltables

META = {
    "level": "other",
    "technique": "static analysis: sibling agreement of serialize/load/size_in_elements call sequences and formulas extracted from MIR, table agreement of unserialized derived fields across builder / loader / readers, loader-validation vs builder-count shape (rustc_private driver; bodies normalised by helper inlining and combinator expansion)",
    "explanation": "For each of the 14 Serialize impls the ordered, typed sequence of nested serialize calls (header then body, success path, "
                   "loop/conditional structure kept) is extracted from MIR and compared with the ordered sequence of nested load calls and with "
                   "the multiset summed by size_in_elements; the loaded payload of the k-th `?` is traced into the k-th written field of the "
                   "returned aggregate. The five basic impls (Serializable, Vec<V>, Vec<u8>, String, Option<V>) are checked against their byte "
                   "formulas (length terms on the write side equal those on the read side and in the size). size_by_params is compared with "
                   "the element count implied by the write sequence. This decides that the three hand-synchronised methods agree; it does "
                   "not decide value equality for arbitrary content. R5: the three sample indexes of RLVector are not serialized; the component "
                   "of the sample pair and the universe each is built from must be the same in From<RLBuilder>, in load and in the query that "
                   "searches through it (table agreement across sites).",
    "trusted_base": ["write_all/read_exact transfer exactly the slice length or fail", "rustc's MIR faithfully represents the source"],
    "assumptions": ["representation invariants checked by the loaders (bits_to_words(len) == data.len(), len*width == data.len()) hold for values built through the API"],
}

BASIC = {"V", "std::vec::Vec<V>", "std::vec::Vec<u8>", "std::string::String", "std::option::Option<V>"}
REQUIRED_ITEMS = ["load", "serialize_body", "serialize_header", "size_in_elements"]


def root_local(b, o, limit=16):
    """Follows plain moves/copies of whole locals backwards; returns the first local not defined by such a move."""
    p = operand_place(o) if isinstance(o, dict) and ("c" in o or "m" in o) else o
    if p is None or p["p"]:
        return None
    l = p["l"]
    while limit > 0:
        limit -= 1
        ds = b.defs().get(l, [])
        whole = [d for d in ds if d[2] in ("assign", "call")]
        if len(whole) != 1 or whole[0][2] != "assign":
            return l
        rv = whole[0][3]
        if rv["r"] == "use":
            q = operand_place(rv["o"])
            if q is not None and not q["p"]:
                l = q["l"]
                continue
        return l
    return l


def padding_form(pad, facts, LEN, env, mutable=False):
    """(slice-ok, guard-ok) for the padding of a byte body: `pad` is `zeros[0..E]` / `zeros[..E]` with
    E = round_up_to_word_bytes(LEN) - LEN, under a dominating fact that E is positive (padded > len, E > 0, E != 0, E >= 1)."""
    RU = Call("bits::round_up_to_word_bytes", LEN)
    E = Bin("Sub", RU, LEN)
    idx = (lambda x: "IndexMut" in x and x.endswith("::index_mut")) if mutable else (lambda x: "Index" in x and x.endswith("::index"))
    second = m(Call(idx, ("repeat", Const(0), ANY), ("adt", "std::ops::Range", "Range", ANY, (Const(0), E))), pad, env) or \
        m(Call(idx, ("repeat", Const(0), ANY), ("adt", "std::ops::RangeTo", "RangeTo", ANY, (E,))), pad, env)
    guard = False
    for fc in facts:
        if fc[0] != "cmp":
            continue
        op, a, c = fc[1], fc[2], fc[3]
        if op in ("Lt", "Le"):
            op, a, c = {"Lt": "Gt", "Le": "Ge"}[op], c, a
        if op == "Gt" and m(RU, a, dict(env)) and m(LEN, c, dict(env)):
            guard = True
        if op in ("Gt", "Ne") and m(E, a, dict(env)) and m(Const(0), c):
            guard = True
        if op == "Ne" and m(E, c, dict(env)) and m(Const(0), a):
            guard = True
        if op == "Ge" and m(E, a, dict(env)) and m(Const(1), c):
            guard = True
    if not second:
        # the padding length written differently (`(8 - len % 8) % 8`, `len.wrapping_neg() & 7`, `len.next_multiple_of(8) - len`):
        # decided over the residues of the length (A13).  REFUTED is remembered for the caller.
        e2 = {}
        shape = m(Call(idx, ("repeat", Const(0), ANY), ("adt", "std::ops::Range", "Range", ANY, (Const(0), Bind("e")))), pad, e2) or \
            m(Call(idx, ("repeat", Const(0), ANY), ("adt", "std::ops::RangeTo", "RangeTo", ANY, (Bind("e"),))), pad, e2)
        if shape and "e" in e2:
            import residues
            r_, why = residues.agrees(None if False else _F[0], e2["e"], lambda x: bool(m(LEN, x, dict(env))),
                                      lambda N: ("bin", "Sub", residues.call("bits::round_up_to_word_bytes", N), N))
            padding_form.last = (r_, why)
            if r_:
                second = True
                ee = strip_casts(e2["e"])
                for fc in facts:
                    if fc[0] == "cmp" and ((fc[1] in ("Gt", "Ne", "Ge") and strip_casts(fc[2]) == ee) or (fc[1] in ("Lt", "Ne", "Le") and strip_casts(fc[3]) == ee)):
                        guard = True
        else:
            padding_form.last = (None, "padding slice not recognised")
    else:
        padding_form.last = (True, "")
    return bool(second), guard


_F = [None]
padding_form.last = (None, "")


def check(ctx):
    configs = ["native"] if ctx.tier == "quick" else ["native", "portable", "native-rel", "portable-rel"]
    for cfg in configs:
        check_config(ctx, ctx.facts(cfg), "" if cfg == "native" else "@" + cfg)
        # R5: fields that are not serialized are rebuilt by load exactly as the builder computes them
        rltables.check_tables(ctx, ctx.facts(cfg), "" if cfg == "native" else "@" + cfg, "C06.R5.rl")
        # R6: what load validates a structure against is what the builder produces (a loader that refuses the library's own output)
        import c19
        c19.check_partial_unit_counts(ctx, ctx.facts(cfg), "" if cfg == "native" else "@" + cfg, prefix="C06.R6")
        from core import Relabel
        c19.check_config(Relabel(ctx, {"C19.R2.validation-matches-builder": "C06.R6.validation-matches-builder"}), ctx.facts(cfg), "" if cfg == "native" else "@" + cfg)
        check_sparse_validation(ctx, ctx.facts(cfg), "" if cfg == "native" else "@" + cfg)
        check_sparse_bucket_count(ctx, ctx.facts(cfg), "" if cfg == "native" else "@" + cfg, "C06.R5.sparse-bucket-count")
        c19.check_sparse_builder_enables(ctx, ctx.facts(cfg), "" if cfg == "native" else "@" + cfg, "C06.R5")
        check_no_read_ahead(ctx, ctx.facts(cfg), "" if cfg == "native" else "@" + cfg)
        check_refusal_inventory(ctx, ctx.facts(cfg), "" if cfg == "native" else "@" + cfg, "C06.R6.loader-refusals-reviewed", lambda n: n.endswith("serialize::Serialize>::load"))
        # R9 (borrowed): a raw vector serializes to bits_to_words(len) words with zero bits past the end, and its loader insists
        # on exactly that -- so load(serialize(x)) succeeds only while every mutation keeps the word count and the tail (C05.R1 / R3 / R4)
        import c05
        if cfg == "native":
            c05.check_tail_invariant(ctx, ctx.facts(cfg), "", prefix="C06.R9.unused-bits-zero")
            c05.check_word_count(ctx, ctx.facts(cfg), "", rule="C06.R9.raw-vector-word-count")
            c05.check_grow_fill(ctx, ctx.facts(cfg), "", prefix="C06.R9.raw-vector")
        # R8 (borrowed): "exactly size_in_bytes(x) bytes are written" on the file route -- a buffering writer the library wraps
        # around the file is flushed on every successful path (C14.R2)
        import c14
        c14.check_config(Relabel(ctx, {"C14.R2.buffered-writer-flushed": "C06.R8.buffered-writer-flushed", "C14.R2.copy-count-checked": "C06.R8.copy-count-checked"}),
                         ctx.facts(cfg), "" if cfg == "native" else "@" + cfg, views=False)


# Number of places where each loader / mapper constructor builds an io::Error of its own (counted on the pinned tree, each read
# against what the writer produces: rules R2, R6 and C13.R2 decide the conditions themselves).
REVIEWED_REFUSALS = {
    "<bit_vector::select_support::SelectSupport<T> as serialize::Serialize>::load": 1,
    "<bit_vector::BitVector as serialize::Serialize>::load": 4,
    "<int_vector::IntVector as serialize::Serialize>::load": 1,
    "<raw_vector::RawVector as serialize::Serialize>::load": 1,
    "<rl_vector::RLVector as serialize::Serialize>::load": 1,
    "<std::string::String as serialize::Serialize>::load": 1,
    "<sparse_vector::SparseVector as serialize::Serialize>::load": 2,
    "<wavelet_matrix::wm_core::WMCore as serialize::Serialize>::load": 2,
    "<wavelet_matrix::WaveletMatrix as serialize::Serialize>::load": 1,
    "<int_vector::IntVectorMapper<'a> as serialize::MemoryMapped<'a>>::new": 1,
    "<raw_vector::RawVectorMapper<'a> as serialize::MemoryMapped<'a>>::new": 1,
    "<serialize::MappedSlice<'a, T> as serialize::MemoryMapped<'a>>::new": 2,
    "<serialize::MappedBytes<'a> as serialize::MemoryMapped<'a>>::new": 2,
    "<serialize::MappedStr<'a> as serialize::MemoryMapped<'a>>::new": 3,
    "<serialize::MappedOption<'a, T> as serialize::MemoryMapped<'a>>::new": 1,
}


def check_refusal_inventory(ctx, F, tag, rule, select):
    """"Every value the library writes loads back": a loader refuses only what the review has read against the writer.  A refusal
    the review has not seen (a new InvalidData test in a loader) may reject the library's own output for inputs no test builds; it is
    neither established nor refuted here -- the run is undecided and names the site.  (Fewer refusals than reviewed are left to
    the rules that ask for each validation by name.)"""
    for b in F.all_bodies():
        if not select(b.name) or "::tests::" in b.name:
            continue
        sites = [loc(t["sp"]) for bi, t in b.calls() if "io::Error::new" in callee_name(t) or "io::Error::other" in callee_name(t)]
        want = REVIEWED_REFUSALS.get(b.name, 0)
        if not sites and not want:
            continue
        ctx.ob(rule, b.name + tag, loc(b.raw["span"]), True if len(sites) <= want else None, "site-inventory",
               "%d refusal(s) built in this function, %d reviewed%s" % (len(sites), want, "" if len(sites) <= want else "; not reviewed against the writer: one of %s" % sites),
               nontrivial=False)


def check_no_read_ahead(ctx, F, tag):
    """"Exactly that many bytes are consumed on load, so structures written back to back load back in sequence": the loaders read
    from the caller's reader directly.  A buffering adaptor put around that reader inside a loader (BufReader::new(reader)) reads
    ahead of the structure and the surplus is lost when the loader returns -- there is no way to hand it back through `T: Read`.
    Zero-count rule over every function that takes the caller's reader."""
    hits = []
    for b in F.all_bodies():
        if "::tests::" in b.name or b.name.startswith("internal::"):
            continue
        for bi, t in b.calls():
            cn = callee_name(t)
            if cn.startswith("std::io::BufReader::<") and cn.split("::")[-1].split("<")[0] in ("new", "with_capacity"):
                src = b.term_of_operand(t["args"][-1])
                # wrapped around a reader parameter of the function (a `&mut T` the caller keeps using), not around a file the function opened
                if any(isinstance(x, tuple) and x and x[0] == "param" for x in subterms(src)) and \
                        not any(isinstance(x, tuple) and x and x[0] == "call" and ("File::open" in x[1] or "OpenOptions" in x[1]) for x in subterms(src)):
                    hits.append((b.name, loc(t["sp"])))
    ctx.ob("C06.R7.no-read-ahead-on-the-callers-reader", "crate" + tag, "src/", not hits, "who-may-call",
           "buffering readers wrapped around a reader the caller passed in (count must be 0): %s" % hits, nontrivial=False, positive=True)


def check_sparse_bucket_count(ctx, F, tag, rule):
    """The length of the sparse vector's `high` bitvector is ones + number of buckets, and the number of buckets for a universe N
    and low width w is ceil(N / 2^w) -- the builder allocates by it and the loader refuses a file that disagrees.  The private
    helper that computes it branches (on w < 64, on a non-zero remainder), so it is followed path by path over the residues of N
    (A13, residues.run_body) for the widths 1, 6, 8 and 10 and compared with the closed form.  Decides the count for those widths
    and every N; one bucket too many for N = 0, or a shift guarded by a byte count, differ for some residue."""
    import residues
    GB = "sparse_vector::SparseBuilder::get_buckets"
    if not F.has_body(GB):
        return
    b = F.body(GB)
    if b.nargs != 2:
        ctx.ob(rule, GB + tag, loc(b.raw["span"]), None, "abstract-interpretation(residues)", "get_buckets no longer takes (universe, low_width)")
        return
    verdict, notes = True, []
    for w in (1, 6, 8, 10):
        want = lambda N, w=w: ("call", "usize::div_ceil", (N, ("const", 1 << w)), (), "usize::div_ceil")
        r_, why = residues.fn_agrees(F, GB, [residues.NVAR, ("const", w)], want, (max(64, 1 << w),))
        notes.append("w = %d: %s" % (w, why))
        if r_ is False:
            verdict = False
        elif r_ is None and verdict:
            verdict = None
    ctx.ob(rule, GB + tag, loc(b.raw["span"]), verdict, "abstract-interpretation(residues)",
           "get_buckets(N, w) against ceil(N / 2^w): " + "; ".join(notes), positive=verdict is False)


def check_sparse_validation(ctx, F, tag):
    """SparseVector::load accepts a file only if `high` has low.len() + buckets bits; the builder allocates `high` with the bucket
    count of SparseBuilder::get_buckets.  Discharged when the loader's count is that same function of (len, low.width()) -- the
    two sides then agree by construction.  A loader that computes the count some other way may still agree; that cannot be decided
    from the shape (undecided), only a recognisably different argument list is a violation."""
    lb = F.body("<sparse_vector::SparseVector as serialize::Serialize>::load")
    L = serfmt.load_seq(lb)
    verdict, detail = None, "no comparison of high.len() with low.len() + a bucket count found"
    cmps = []
    from guards import edge_facts
    for u, v, f in edge_facts(lb):
        if f[0] == "cmp" and f[1] in ("Ne", "Eq"):
            cmps.append((f[2], f[3]))
    for bi, si, st in lb.stmts():
        if st["s"] == "assign" and st["rv"]["r"] == "bin" and st["rv"]["op"] in ("Ne", "Eq"):
            t = lb.term_of_rvalue(st["rv"])
            cmps.append((t[2], t[3]))
    for x, y in cmps:
        for a, b_ in ((x, y), (y, x)):
            b0 = core(b_)
            if b0[0] == "bin" and b0[1] == "Add":
                for p_, q_ in ((b0[2], b0[3]), (b0[3], b0[2])):
                    q0 = core(q_)
                    if q0[0] == "call" and q0[1] == "sparse_vector::SparseBuilder::get_buckets":
                        lenarg, warg = core(q0[2][0]), core(q0[2][1])
                        ok_len = len(L) >= 1 and L[0]["payload"] is not None and lenarg == core(lb.term_of_local(L[0]["payload"]))
                        ok_w = warg[0] == "call" and warg[1].endswith("::width")
                        verdict = bool(ok_len and ok_w)
                        detail = "high.len() is compared with low.len() + get_buckets(%s, %s): first argument is the loaded length: %s, second is low.width(): %s" % (tstr(lenarg)[:40], tstr(warg)[:40], ok_len, ok_w)
    ctx.ob("C06.R6.validation-matches-builder", "sparse-buckets" + tag, loc(lb.raw["span"]), verdict, "sibling-agreement", detail)


def flatten(ctx, name, H, B, where, tag):
    """Header + body items -> list of complete structures written, enforcing the only valid header/body split."""
    ok = True
    why = []
    split = None
    for i, it in enumerate(H):
        if it["method"] == "serialize_body":
            ok = False; why.append("serialize_body called from serialize_header")
        if it["method"] == "serialize_header":
            if i != len(H) - 1:
                ok = False; why.append("a nested serialize_header is not the last header item: its body would not be adjacent")
            split = it
    for i, it in enumerate(B):
        if it["method"] == "serialize_header":
            ok = False; why.append("serialize_header called from serialize_body")
        if it["method"] == "serialize_body":
            if i != 0 or split is None or split["path"] != it["path"] or split["ty"] != it["ty"]:
                ok = False; why.append("a nested serialize_body is not the first body item matching the header's last item")
    if split is not None and not any(it["method"] == "serialize_body" for it in B):
        ok = False; why.append("nested header written but its body never is")
    ctx.ob("C06.R1.header-body-split", name + tag, where, ok, "sequence-shape",
           "; ".join(why) or "nested header/body split is adjacent (header last, body first) or absent", nontrivial=split is not None)
    if split is not None:
        return H[:-1] + [dict(split, method="serialize")] + [b for b in B if b["method"] != "serialize_body"]
    return H + B


def check_config(ctx, F, tag):
    _F[0] = F
    impls = serfmt.serialize_impls(F)
    ctx.count("serialize-impls" + tag, len(impls))
    fixed_counts = {}
    for im in impls:
        name = im["self"]
        where = loc(im["impl"]["span"])
        ctx.ob("C06.R2.defaults-not-overridden", name + tag, where, im["item_names"] == REQUIRED_ITEMS, "item-structure",
               "impl items %s (serialize and size_in_bytes must stay the trait defaults)" % im["item_names"], nontrivial=False)
        fns = im["fns"]
        for r in REQUIRED_ITEMS:
            if r not in fns:
                raise Undecided("impl Serialize for %s lacks %s" % (name, r))
        if name in BASIC:
            continue
        H = serfmt.write_seq(fns["serialize_header"])
        B = serfmt.write_seq(fns["serialize_body"])
        W = flatten(ctx, name, H, B, where, tag)
        L = serfmt.load_seq(fns["load"])
        S = serfmt.size_items(fns["size_in_elements"])
        ctx.note("%s%s writes %s loads %s" % (name, tag, serfmt.describe(W), ["%s%s" % ({"once": "", "loop": "*", "cond": "?"}[x["mod"]], x["ty"]) for x in L]))
        # all writes go to the writer parameter
        wr = [it for it in H + B if not (core(it["writer"])[0] == "param" and core(it["writer"])[1] == 1)]
        ctx.ob("C06.R1.single-writer", name + tag, where, not wr, "term-provenance", "items written to something other than the writer parameter: %d" % len(wr), nontrivial=False)
        # ---- R1 order and type agreement
        same = len(W) == len(L) and all(w["ty"] == l["ty"] and w["mod"] == l["mod"] for w, l in zip(W, L))
        ctx.ob("C06.R1.write-load-sequence", name + tag, where, same and len(W) > 0, "sequence-agreement",
               "written %s vs loaded %s" % (serfmt.describe(W), ["%s%s" % ({"once": "", "loop": "*", "cond": "?"}[x["mod"]], x["ty"]) for x in L]))
        # ---- loaded payload k becomes field k
        lb = fns["load"]
        aggs = [(bi, st) for bi, si, st in lb.stmts() if st["s"] == "assign" and st["rv"]["r"] == "agg" and st["rv"].get("def") == im["self_def"]]
        if not aggs:
            raise Undecided("no %s aggregate in its load" % name)
        if same:
            for k, (w, l) in enumerate(zip(W, L)):
                if not w["path"]:
                    continue
                f = w["path"][0]
                for bi, st in aggs:
                    ops = dict(zip(st["rv"]["fields"], st["rv"]["ops"]))
                    if f not in ops:
                        ctx.ob("C06.R1.loaded-into-written-field", "%s.%s%s" % (name, f, tag), loc(st["sp"]), False, "payload-provenance", "written field %s is not set by load" % f, positive=True)
                        continue
                    root = root_local(lb, ops[f])
                    okp = root is not None and root == l["payload"]
                    detail = "field %s <- payload of load #%d (%s)" % (f, k, l["ty"])
                    if not okp and l["mod"] == "loop":
                        # loop item: payload pushed into the local that becomes the field
                        pushes = [t for _, t in lb.calls() if callee_name(t).startswith("std::vec::Vec::<T, A>::push")]
                        for t in pushes:
                            from facts import resolve_ref_local
                            if resolve_ref_local(lb, t["args"][0]) == root and root_local(lb, t["args"][1]) == l["payload"]:
                                okp = True
                                detail = "field %s <- vector into which every payload of looped load #%d is pushed" % (f, k)
                    ctx.ob("C06.R1.loaded-into-written-field", "%s.%s%s" % (name, f, tag), loc(st["sp"]), okp, "payload-provenance", detail)
        # ---- computed (non-field) items: the value written is a count the loader uses
        computed = [w for w in W if not w["path"] and w["mod"] == "once"]
        for w in computed:
            okc = False
            detail = "computed element %s" % tstr(w["recv"])
            r = core(w["recv"])
            if r[0] == "call" and r[1] == "wavelet_matrix::wm_core::WMCore::width":
                wb = F.body("wavelet_matrix::wm_core::WMCore::width")
                okw = m(Call(lambda n: n.startswith("std::vec::Vec::<") and n.endswith("::len"), SelfField("levels")), wb.term_of_local(0))
                # the loop on the write side iterates self.levels; on the load side 0..payload
                k = W.index(w)
                rng = [st for bi, si, st in lb.stmts() if st["s"] == "assign" and st["rv"]["r"] == "agg" and st["rv"].get("def") == "std::ops::Range"]
                okr = False
                for st in rng:
                    ops = dict(zip(st["rv"]["fields"], st["rv"]["ops"]))
                    if root_local(lb, ops["end"]) == L[k]["payload"] and m(Const(0), lb.term_of_operand(ops["start"])):
                        okr = True
                loops = [x for x in W if x["mod"] == "loop"]
                okl = len(loops) == 1 and any(self_path(x) == ["levels"] for x in subterms(loops[0]["recv"]))
                okc = okw and okr and okl
                detail = "width() = levels.len(): %s; load loops over 0..loaded width: %s; writer loops over self.levels: %s" % (okw, okr, okl)
            ctx.ob("C06.R1.computed-count-element", name + tag, loc(w["sp"]), okc, "term-provenance", detail)
        # ---- R2 size agreement
        sw = sorted((tuple(w["path"]), w["ty"], w["mod"]) for w in W if w["path"])
        ss = sorted((tuple(s["path"] or ()), s["ty"], s["mod"]) for s in S if s["path"])
        loopw = sorted((w["ty"], w["mod"]) for w in W if not w["path"] and w["mod"] == "loop")
        loops_ = sorted((s["ty"], s["mod"]) for s in S if not s["path"])
        ctx.ob("C06.R2.size-sums-written-items", name + tag, loc(fns["size_in_elements"].raw["span"]), sw == ss and loopw == loops_, "multiset-agreement",
               "size_in_elements sums %s; written %s" % (serfmt.describe(S), serfmt.describe(W)))
        sb = fns["size_in_elements"]
        ops = serfmt.arithmetic_ops(sb)
        consts = []
        for bi, si, st in sb.stmts():
            if st["s"] == "assign" and st["rv"]["r"] in ("use", "bin"):
                for o in ([st["rv"]["o"]] if st["rv"]["r"] == "use" else [st["rv"]["a"], st["rv"]["b"]]):
                    if "k" in o and o["k"].get("v") is not None and o["k"]["ty"] == "usize":
                        consts.append(int(o["k"]["v"]))
        n_scalar_computed = len([w for w in computed if w["mod"] == "once" and w["ty"] in ("usize", "u64")])
        ctx.ob("C06.R2.size-constants", name + tag, loc(sb.raw["span"]), all(op == "Add" for op, _, _, _ in ops) and sorted(consts) == [1] * n_scalar_computed, "formula",
               "arithmetic in size_in_elements: %s, constants %s; expected only additions and one constant 1 per computed element written (%d)" % (
                   sorted({op for op, _, _, _ in ops}), consts, n_scalar_computed))
        # every size call's result is added into the return value (no call result ignored)
        unused = []
        for s_ in S:
            if s_["dest"] is None or s_["dest"] == 0:
                continue
            used = any(s_["dest"] in [q["l"] for q in [operand_place(st["rv"].get("a", {})), operand_place(st["rv"].get("b", {}))] if q]
                       for bi, si, st in sb.stmts() if st["s"] == "assign" and st["rv"]["r"] == "bin") or \
                any(root_local(sb, st["rv"]["o"]) == s_["dest"] for bi, si, st in sb.stmts() if st["s"] == "assign" and st["rv"]["r"] == "use" and operand_place(st["rv"]["o"]))
            if not used:
                unused.append(tstr(s_["recv"]))
        ctx.ob("C06.R2.size-terms-all-added", name + tag, loc(sb.raw["span"]), not unused, "dataflow", "size terms not flowing into an addition: %s" % unused, nontrivial=False)
        fixed_counts[im["self_def"]] = W

    import c09
    c09.check_wm_load_width(ctx, F, tag, rule="C06.R1.loader-accepts-constructible-width")
    check_basic(ctx, F, {im["self"]: im for im in impls}, tag)
    check_defaults(ctx, F, tag)
    check_size_by_params(ctx, F, fixed_counts, tag)
    ctx.floor("serialize-impls" + tag, serfmt.FLOOR_IMPLS)


def is_vec_len(n):
    return n.startswith("std::vec::Vec::<") and n.endswith("::len")


def calls_named(b, pred):
    return [(bi, t) for bi, t in b.calls() if pred(callee_name(t)) or pred(callee_written(t))]


def check_defaults(ctx, F, tag):
    b = F.body("serialize::Serialize::serialize")
    seq = serfmt.write_seq(b)
    ok = [(i["method"], core(i["recv"])[0] == "param" and core(i["recv"])[1] == 0, i["mod"]) for i in seq] == \
        [("serialize_header", True, "once"), ("serialize_body", True, "once")]
    ctx.ob("C06.R2.default-serialize", "serialize::Serialize::serialize" + tag, loc(b.raw["span"]), ok, "sequence-shape",
           "default serialize = serialize_header(self) then serialize_body(self), both on every success path: %s" % [(i["method"], i["mod"]) for i in seq])
    b = F.body("serialize::Serialize::size_in_bytes")
    ok = m(Call("bits::words_to_bytes", Call("serialize::Serialize::size_in_elements", Param(0))), b.term_of_local(0))
    ctx.ob("C06.R2.default-size-in-bytes", "serialize::Serialize::size_in_bytes" + tag, loc(b.raw["span"]), ok, "formula", "size_in_bytes = %s" % tstr(b.term_of_local(0)))
    b = F.body("bits::words_to_bytes")
    ok = m(Bin("Mul", Param(0), Const(8)), b.term_of_local(0)) or m(Bin("Shl", Param(0), Const(3)), b.term_of_local(0))
    ctx.ob("C06.R2.words-to-bytes", "bits::words_to_bytes" + tag, loc(b.raw["span"]), ok, "formula", "words_to_bytes(n) = %s" % tstr(b.term_of_local(0)))
    b = F.body("serialize::Serializable::elements")
    ok = m(Bin("Div", Call("std::mem::size_of"), Const(8)), b.term_of_local(0)) or m(Bin("Shr", Call("std::mem::size_of"), Const(3)), b.term_of_local(0)) or \
        m(Call("bits::bytes_to_words", Call("std::mem::size_of")), b.term_of_local(0))
    ctx.ob("C06.R2.elements-formula", "serialize::Serializable::elements" + tag, loc(b.raw["span"]), ok, "formula", "elements() = %s" % tstr(b.term_of_local(0)))
    sz = [i for i in F.impls_of("serialize::Serializable")]
    ctx.count("serializable-impls" + tag, len(sz))
    for i in sz:
        ok = i.get("size") is not None and i["size"] % 8 == 0 and i["size"] > 0 and [x["name"] for x in i["items"]] == []
        ctx.ob("C06.R2.serializable-size", i["self_ty"]["s"] + tag, loc(i["span"]), ok, "layout",
               "size_of::<%s>() = %s bytes (must be a positive multiple of 8); elements() not overridden: %s" % (i["self_ty"]["s"], i.get("size"), [x["name"] for x in i["items"]] == []))
    ctx.floor("serializable-impls" + tag, 3)


def check_basic(ctx, F, by_name, tag):
    for n in BASIC:
        if n not in by_name:
            raise Undecided("anchor lost: impl Serialize for %s" % n)
    # ---------------- V: Serializable
    im = by_name["V"]; f = im["fns"]; where = loc(im["impl"]["span"])
    hb = f["serialize_header"]
    ctx.ob("C06.R2.basic.serializable-header-empty", "V" + tag, where, len(list(hb.calls())) == 0, "sequence-shape", "header of a Serializable writes nothing")
    bb = f["serialize_body"]
    wa = calls_named(bb, lambda x: x == "std::io::Write::write_all")
    # (size_of_val(self) of a Sized Self is size_of::<Self>())
    okb = len(wa) == 1 and (m(Call(lambda x: x.startswith("std::slice::from_raw_parts"), Param(0), Call("std::mem::size_of")), bb.term_of_operand(wa[0][1]["args"][1])) or
                            m(Call(lambda x: x.startswith("std::slice::from_raw_parts"), Param(0), Call("std::mem::size_of_val", Param(0))), bb.term_of_operand(wa[0][1]["args"][1]))) \
        and core(bb.term_of_operand(wa[0][1]["args"][0]))[:2] == ("param", 1)
    if okb:
        tys = [x[3][0] if len(x) > 3 and x[3] else "?" for x in subterms(bb.term_of_operand(wa[0][1]["args"][1])) if x[0] == "call" and x[1] in ("std::mem::size_of", "std::mem::size_of_val")]
        okb = bool(tys) and all(t_ in ("V", "Self") for t_ in tys)
    if not okb and not any(callee_name(t).startswith("std::slice::from_raw_parts") for _, t in bb.calls()):
        okb = None          # the bytes of the value are obtained some other way: a construction this rule does not read
    ctx.ob("C06.R2.basic.serializable-body", "V" + tag, where, okb, "formula", "body writes size_of::<Self>() bytes of self once")
    lb = f["load"]
    re = calls_named(lb, lambda x: x == "std::io::Read::read_exact")
    okl = False
    if len(re) == 1:
        env = {}
        okl = m(Call(lambda x: x.startswith("std::slice::from_raw_parts_mut"), Bind("v"), Call("std::mem::size_of")), lb.term_of_operand(re[0][1]["args"][1]), env)
        okl = okl and env.get("v", ("",))[0] == "call" and env["v"][1] == "std::default::Default::default"
        # the value returned is that local
        oks = [st for bi, si, st in lb.stmts() if st["s"] == "assign" and st["lhs"]["l"] == 0 and st["rv"]["r"] == "agg" and st["rv"].get("vname") == "Ok"]
        okl = okl and len(oks) == 1 and core(lb.term_of_operand(oks[0]["rv"]["ops"][0])) == env["v"]
    if okl:
        # ... of *this* type: size_of::<u64>() is the same number for the one-word types only
        tys = [x[3][0] if len(x) > 3 and x[3] else "?" for x in subterms(lb.term_of_operand(re[0][1]["args"][1])) if x[0] == "call" and x[1] == "std::mem::size_of"]
        okl = bool(tys) and all(t_ in ("V", "Self") for t_ in tys)
    ctx.ob("C06.R2.basic.serializable-load", "V" + tag, where, okl, "formula", "load reads size_of::<Self>() bytes into the value it returns")
    sb = f["size_in_elements"]
    ctx.ob("C06.R2.basic.serializable-size", "V" + tag, where, m(Call("serialize::Serializable::elements"), sb.term_of_local(0)), "formula", "size = %s" % tstr(sb.term_of_local(0)))

    # ---------------- Vec<V>
    im = by_name["std::vec::Vec<V>"]; f = im["fns"]; where = loc(im["impl"]["span"])
    H = serfmt.write_seq(f["serialize_header"])
    okh = len(H) == 1 and H[0]["ty"] == "usize" and H[0]["method"] == "serialize" and H[0]["mod"] == "once" and m(Call(is_vec_len, Param(0)), H[0]["recv"])
    ctx.ob("C06.R2.basic.vec-header", "Vec<V>" + tag, where, okh, "formula", "header = [len(self) as usize]: %s" % serfmt.describe(H))
    bb = f["serialize_body"]
    wa = calls_named(bb, lambda x: x == "std::io::Write::write_all")
    write_len = None
    if len(wa) == 1:
        env = {}
        if m(Call(lambda x: x.startswith("std::slice::from_raw_parts"), Call(lambda x: x.endswith("::as_ptr"), Param(0)), Bind("n")), bb.term_of_operand(wa[0][1]["args"][1]), env):
            write_len = env["n"]
    okw = write_len is not None and (m(Bin("Mul", Call(is_vec_len, Param(0)), Call("std::mem::size_of")), write_len) or
                                     # size_of_val of the vector's own element slice is the same number of bytes
                                     m(Call("std::mem::size_of_val", Call(lambda x: x.startswith("std::vec::Vec::<") and x.endswith("::as_slice"), Param(0))), write_len) or
                                     m(Call("std::mem::size_of_val", Call(lambda x: x.endswith("::deref") and "Vec" in x, Param(0))), write_len))
    if write_len is None and len(wa) == 1:
        okw = None          # one write_all, of a slice the rule cannot read back to (pointer, length): undecided
    ctx.ob("C06.R2.basic.vec-body", "Vec<V>" + tag, where, okw, "formula", "body writes len(self) * size_of::<V>() bytes: %s" % (tstr(write_len) if write_len else "?"))
    lb = f["load"]
    L = serfmt.load_seq(lb)
    okl = len(L) == 1 and L[0]["ty"] == "usize" and L[0]["mod"] == "once"
    detail = "load reads %s" % [x["ty"] for x in L]
    if okl:
        size = lb.term_of_local(L[0]["payload"]) if L[0]["payload"] is not None else None
        re = calls_named(lb, lambda x: x == "std::io::Read::read_exact")
        sl = calls_named(lb, lambda x: x.endswith("::set_len") and "Vec" in x)
        okl = len(re) == 1 and len(sl) == 1 and size is not None
        if okl:
            env = {}
            okl = m(Call(lambda x: x.startswith("std::slice::from_raw_parts_mut"), Call(lambda x: x.endswith("::as_mut_ptr"), Bind("vec")), Bin("Mul", Bind("size"), Call("std::mem::size_of"))),
                    lb.term_of_operand(re[0][1]["args"][1]), env)
            okl = okl and core(env.get("size")) == core(size) and m(Call(lambda x: "with_capacity" in x, Bind("size")), env.get("vec"), env)
            # set_len(size) after the successful read_exact, on the vector that is returned
            sbi, st_ = sl[0]
            okl = okl and core(lb.term_of_operand(st_["args"][1])) == core(size) and core(lb.term_of_operand(st_["args"][0])) == core(env.get("vec"))
            sites = [s for s in try_sites(lb) if s["src_local"] == re[0][1]["dest"]["l"]]
            on_success = len(sites) == 1 and sites[0]["cont_block"] is not None and lb.dominates(sites[0]["cont_block"], sbi)
            if not sites:
                # the same written as a match: set_len lies behind the fact that the read's result is Ok
                rd = re[0][1]["dest"]["l"]
                on_success = any(f_[0] == "discr" and f_[2] == 0 and any(x[:2] == ("var", rd) or (x[0] == "call" and x[1].endswith("::read_exact")) for x in subterms(f_[1]))
                                 for f_ in facts_at(lb, sbi))
            okl = okl and on_success
            detail = "read_exact(size * size_of::<V>()) into with_capacity(size); set_len(size) only on the read's success edge"
    ctx.ob("C06.R2.basic.vec-load", "Vec<V>" + tag, where, okl, "formula+dominance", detail)
    sb = f["size_in_elements"]
    ctx.ob("C06.R2.basic.vec-size", "Vec<V>" + tag, where,
           m(Bin("Add", Const(1), Bin("Mul", Call(is_vec_len, Param(0)), Call("serialize::Serializable::elements"))), sb.term_of_local(0)), "formula",
           "size = %s" % tstr(sb.term_of_local(0)))

    # ---------------- Vec<u8> and String (same format)
    for key, lenf, bytesf in (("std::vec::Vec<u8>", is_vec_len, lambda x: x.endswith("::as_slice") or (x.endswith("::deref") and "Vec" in x)),
                              ("std::string::String", lambda x: x == "std::string::String::len", lambda x: x == "std::string::String::as_bytes")):
        im = by_name[key]; f = im["fns"]; where = loc(im["impl"]["span"])
        short = key.split("::")[-1]
        H = serfmt.write_seq(f["serialize_header"])
        okh = len(H) == 1 and H[0]["ty"] == "usize" and H[0]["mod"] == "once" and m(Call(lenf, Param(0)), H[0]["recv"])
        ctx.ob("C06.R2.basic.bytes-header", short + tag, where, okh, "formula", "header = [len(self) as usize]: %s" % serfmt.describe(H))
        bb = f["serialize_body"]
        wa = serfmt.effective_calls(F, bb, lambda x: x == "std::io::Write::write_all")
        LEN = Or(Call(lenf, Param(0)), Call(lambda x: x.endswith("::len") and "slice" in x, Call(bytesf, Param(0))))
        okb = len(wa) == 2
        detail = "%d write_all calls (directly or through one helper)" % len(wa)
        if len(wa) != 2 and any(callee_written(t) in ("std::io::Write::write_vectored", "std::io::Write::write") for _, t in bb.calls()) or \
                (len(wa) != 2 and any(callee_written(t) in ("std::io::Write::write_vectored", "std::io::Write::write") for n_ in {callee_name(t) for _, t in bb.calls()} if F.has_body(n_) for _, t in F.body(n_).calls())):
            okb = None       # the body is written some other way (vectored / partial writes with their own bookkeeping): not a shape this formula rule reads
            detail += "; the body also uses partial / vectored writes"
        if okb:
            first = m(Call(bytesf, Param(0)), wa[0]["args"][1]) and wa[0]["mod"] == "once" and core(wa[0]["args"][0])[:2] == ("param", 1)
            env = {}
            from guards import resolve_nonzero_vars
            pad_block = [bi for bi, t in bb.calls() if t["sp"] == wa[1]["sp"] and callee_written(t) == "std::io::Write::write_all"]
            pad, pad_facts = resolve_nonzero_vars(bb, pad_block[0], wa[1]["args"][1]) if pad_block else (wa[1]["args"][1], [])
            # padding only when padded_len > len
            fs = list(wa[1]["facts"]) + pad_facts
            second, guard = padding_form(pad, fs, LEN, env)
            second = second and core(wa[1]["args"][0])[:2] == ("param", 1)
            okb = first and second and guard
            refuted_pad = False
            if first and not second:
                okb = None      # the padding length is computed by a formula this rule does not read: not refuted
                if padding_form.last[0] is False:
                    okb, refuted_pad = False, True          # ... unless it evaluates, and differs from the padding for some length
            detail = "body = bytes then zero padding of round_up_to_word_bytes(len) - len bytes when > 0%s: first=%s padding=%s guard=%s %s" % (
                (" (padding written by helper %s)" % wa[1]["via"]) if wa[1]["via"] else "", first, second, guard, padding_form.last[1])
        ctx.ob("C06.R2.basic.bytes-body", short + tag, where, okb, "formula", detail, positive=bool(okb is False and locals().get("refuted_pad")))
        sb = f["size_in_elements"]
        oks = m(Bin("Add", Const(1), Call("bits::bytes_to_words", Call(lenf, Param(0)))), sb.term_of_local(0))
        sem, pos = "", False
        if not oks:
            import residues
            is_n = lambda x: x[0] == "call" and (lenf(x[1]) if callable(lenf) else x[1] == lenf) and core(x[2][0])[:2] == ("param", 0)
            r_, sem = residues.agrees(F, sb.term_of_local(0), is_n, lambda N: ("bin", "Add", ("const", 1), residues.call("bits::bytes_to_words", N)))
            oks, pos = (True if r_ else oks), r_ is False
        ctx.ob("C06.R2.basic.bytes-size", short + tag, where, oks, "formula", "size = %s %s" % (tstr(sb.term_of_local(0)), sem), positive=pos)
    # Vec<u8>::load
    im = by_name["std::vec::Vec<u8>"]; lb = im["fns"]["load"]; where = loc(im["impl"]["span"])
    L = serfmt.load_seq(lb)
    okl = len(L) == 1 and L[0]["ty"] == "usize"
    detail = "loads %s" % [x["ty"] for x in L]
    if okl and L[0]["payload"] is not None:
        size = lb.term_of_local(L[0]["payload"])
        re = calls_named(lb, lambda x: x == "std::io::Read::read_exact")
        re.sort(key=lambda x: serfmt.rpo(lb)[x[0]])
        okl = len(re) == 2
        if len(re) == 1:
            # the padding is not consumed by a second read_exact: skipped some other way (a helper over io::copy, ..), which this
            # formula rule cannot read; what C14.R2 asks of such a skip (the count is compared) is decided there
            okl = None
            detail = "bytes read by read_exact, padding consumed by a construction this rule does not know"
        if okl:
            env = {}
            first = m(Call(lambda x: x.endswith("::as_mut_slice"), Call("std::vec::from_elem", Const(0), Bind("size"))), lb.term_of_operand(re[0][1]["args"][1]), env) and core(env["size"]) == core(size)
            vlen = Call(is_vec_len, Call("std::vec::from_elem", Const(0), Bind("size")))
            from guards import resolve_nonzero_vars
            skip, skip_facts = resolve_nonzero_vars(lb, re[1][0], lb.term_of_operand(re[1][1]["args"][1]))
            fs = facts_at(lb, re[1][0]) + skip_facts
            second, guard = padding_form(skip, fs, vlen, env, mutable=True)
            unread = first and not second
            oks = [st for bi, si, st in lb.stmts() if st["s"] == "assign" and st["lhs"]["l"] == 0 and st["rv"]["r"] == "agg" and st["rv"].get("vname") == "Ok"]
            ret = len(oks) == 1 and m(Call("std::vec::from_elem", Const(0), Bind("size")), lb.term_of_operand(oks[0]["rv"]["ops"][0]), env)
            okl = first and second and guard and ret
            if unread and ret:
                okl = None
            detail = "load = read size bytes into vec![0; size], then skip round_up(len) - len padding bytes when > 0: first=%s padding=%s guard=%s returns-vector=%s" % (first, second, guard, ret)
    ctx.ob("C06.R2.basic.bytes-load", "Vec<u8>" + tag, where, okl, "formula", detail)
    # String::load = Vec<u8>::load then from_utf8
    im = by_name["std::string::String"]; lb = im["fns"]["load"]; where = loc(im["impl"]["span"])
    L = serfmt.load_seq(lb)
    okl = len(L) == 1 and L[0]["ty"] == "std::vec::Vec<u8>" and L[0]["mod"] == "once"
    if okl:
        # the loaded bytes go through from_utf8; the value returned on success is its Ok payload (written as `.map_err(..)` on the
        # result, or as the match that stands for)
        fu = [t for bi, t in lb.calls() if callee_name(t) == "std::string::String::from_utf8"]
        okl = len(fu) == 1 and L[0]["payload"] is not None and root_local(lb, fu[0]["args"][0]) == L[0]["payload"]
        if okl:
            fterm = lb.term_of_call(fu[0])
            r0 = [t for bi, t in lb.calls() if not t["dest"]["p"] and t["dest"]["l"] == 0 and callee_written(t) != "std::ops::FromResidual::from_residual"]
            call_form = len(r0) == 1 and m(Call(lambda x: x.endswith("::map_err"), Call("std::string::String::from_utf8", ANY), ANY), lb.term_of_call(r0[0]))
            oks = [st for bi, si, st in lb.stmts() if st["s"] == "assign" and not st["lhs"]["p"] and st["lhs"]["l"] == 0 and st["rv"]["r"] == "agg" and st["rv"].get("vname") == "Ok"]
            match_form = not r0 and len(oks) == 1 and core(lb.term_of_operand(oks[0]["rv"]["ops"][0])) == ("field", ("downcast", fterm, "Ok"), "0")
            okl = call_form or match_form
    ctx.ob("C06.R2.basic.string-load", "String" + tag, where, okl, "formula", "String::load = from_utf8(Vec<u8>::load(reader)?) with the error mapped")

    # ---------------- Option<V>
    im = by_name["std::option::Option<V>"]; f = im["fns"]; where = loc(im["impl"]["span"])
    hb = f["serialize_header"]
    H = serfmt.write_seq(hb)
    okh = len(H) == 1 and H[0]["ty"] == "usize" and H[0]["mod"] == "once"
    detail = "header items %s" % serfmt.describe(H)
    if okh:
        r = core(H[0]["recv"])
        okh = r[0] == "var"
        if okh:
            ds = [d for d in hb.defs().get(r[1], []) if d[2] in ("assign", "call")]
            vals = []
            for (bi, si, kind, payload) in ds:
                if kind == "assign":
                    vals.append(("assign", hb.term_of_rvalue(payload), bi))
                else:
                    vals.append(("call", hb.term_of_call(payload), bi))
            zero = [v for v in vals if m(Const(0), v[1])]
            some = [v for v in vals if m(Call("serialize::Serialize::size_in_elements", ("field", ("downcast", ANY, "Some"), ANY)), v[1])]
            okh = len(vals) == 2 and len(zero) == 1 and len(some) == 1
            if okh:
                fs = facts_at(hb, some[0][2])
                in_some = any(fc[0] == "discr" and fc[2] == 1 for fc in fs)
                # the 0 is either the initial value overwritten in the Some arm, or the value of the None arm
                fz = facts_at(hb, zero[0][2])
                in_none = any(fc[0] == "discr" and (fc[2] == 0 or (isinstance(fc[2], tuple) and fc[2][0] == "not" and 1 in fc[2][1])) for fc in fz)
                okh = in_some and (hb.dominates(zero[0][2], some[0][2]) or in_none)
            detail = "header element = 0, overwritten by value.size_in_elements() exactly in the Some arm: %s" % okh
    ctx.ob("C06.R2.basic.option-header", "Option<V>" + tag, where, okh, "formula+dominance", detail)
    B = serfmt.write_seq(f["serialize_body"])
    okb = len(B) == 1 and B[0]["mod"] == "cond" and B[0]["method"] == "serialize" and B[0]["ty"] == "V" and \
        any(fc[0] == "discr" and fc[2] == 1 for fc in facts_at(f["serialize_body"], B[0]["block"]))
    ctx.ob("C06.R2.basic.option-body", "Option<V>" + tag, where, okb, "sequence-shape", "body = value.serialize() in the Some arm only: %s" % serfmt.describe(B))
    lb = f["load"]
    L = serfmt.load_seq(lb)
    okl = [(x["ty"], x["mod"]) for x in L] == [("usize", "once"), ("V", "cond")]
    detail = "loads %s" % [(x["ty"], x["mod"]) for x in L]
    if okl and L[0]["payload"] is not None:
        size = lb.term_of_local(L[0]["payload"])
        fs = facts_at(lb, L[1]["block"])
        nz = any(fc[0] == "cmp" and fc[1] == "Ne" and core(fc[2]) == core(size) and m(Const(0), fc[3]) for fc in fs)
        # None is returned exactly under size == 0
        nones = [bi for bi, si, st in lb.stmts() if st["s"] == "assign" and st["rv"]["r"] == "agg" and st["rv"].get("def") == "std::option::Option" and st["rv"]["vname"] == "None"]
        zn = len(nones) >= 1 and all(any(fc[0] == "cmp" and fc[1] == "Eq" and core(fc[2]) == core(size) and m(Const(0), fc[3]) for fc in facts_at(lb, bi)) for bi in nones)
        somes = [st for bi, si, st in lb.stmts() if st["s"] == "assign" and st["rv"]["r"] == "agg" and st["rv"].get("def") == "std::option::Option" and st["rv"]["vname"] == "Some"]
        sp = len(somes) == 1 and root_local(lb, somes[0]["rv"]["ops"][0]) == L[1]["payload"]
        # the guard of the nested load is the refutable part; how the two results are wrapped (a match, `then(..).transpose()`,
        # a helper) is a construction the provenance walk may not follow: undecided then, not refuted
        okl = (nz and zn and sp) if (nz and zn and sp) or not nz else None
        detail = "load: V::load only when size != 0: %s; None only when size == 0: %s; Some(payload): %s" % (nz, zn, sp)
    ctx.ob("C06.R2.basic.option-load", "Option<V>" + tag, where, okl, "formula+dominance", detail)
    sb = f["size_in_elements"]
    S = serfmt.size_items(sb)
    oks = len(S) == 1 and S[0]["mod"] == "cond" and S[0]["ty"] == "V"
    consts = [int(st["rv"]["o"]["k"]["v"]) for bi, si, st in sb.stmts() if st["s"] == "assign" and st["rv"]["r"] == "use" and "k" in st["rv"]["o"] and st["rv"]["o"]["k"].get("v") is not None and st["rv"]["o"]["k"]["ty"] == "usize"]
    ops = serfmt.arithmetic_ops(sb)
    form1 = consts == [1] and [op for op, _, _, _ in ops] == ["Add"]           # let mut n = 1; if let Some(v) = self { n += v.size() }
    form2 = False                                                               # 1 + (size of the value in the Some arm | 0)
    rt = core(sb.term_of_local(0))
    if rt[0] == "bin" and rt[1] == "Add" and [op for op, _, _, _ in ops] == ["Add"]:
        for one, rest in ((rt[2], rt[3]), (rt[3], rt[2])):
            rest = core(rest)
            from guards import canon
            if (m(Const(1), one) or canon(F, one) == ("const", 1)) and rest[0] == "var":
                vals = [(d[0], sb.term_of_rvalue(d[3]) if d[2] == "assign" else sb.term_of_call(d[3])) for d in sb.defs().get(rest[1], []) if d[2] in ("assign", "call")]
                zero = [v for v in vals if m(Const(0), v[1])]
                some = [v for v in vals if m(Call("serialize::Serialize::size_in_elements", ANY), v[1])]
                form2 = len(vals) == 2 and len(zero) == 1 and len(some) == 1 and \
                    any(fc[0] == "discr" and fc[2] == 1 for fc in facts_at(sb, some[0][0]))
    oks = oks and (form1 or form2)
    ctx.ob("C06.R2.basic.option-size", "Option<V>" + tag, where, oks, "formula", "size = 1 (+ value.size_in_elements() in the Some arm): items %s consts %s ops %s" % (serfmt.describe(S), consts, [op for op, _, _, _ in ops]))
    b = F.body("serialize::absent_option_size")
    ctx.ob("C06.R2.basic.absent-option-size", "serialize::absent_option_size" + tag, loc(b.raw["span"]), m(Const(1), b.term_of_local(0)), "constant", "absent_option_size() = %s" % tstr(b.term_of_local(0)))
    b = F.body("serialize::absent_option")
    W = serfmt.write_seq(b)
    ctx.ob("C06.R2.basic.absent-option", "serialize::absent_option" + tag, loc(b.raw["span"]),
           len(W) == 1 and W[0]["ty"] == "usize" and m(Const(0), W[0]["recv"]), "sequence-shape", "absent_option writes the single element 0: %s" % serfmt.describe(W))


def check_size_by_params(ctx, F, fixed, tag):
    # RawVector: len element + Vec<u64> (1 length element + data.len() items of 1 element)
    W = fixed.get("raw_vector::RawVector")
    if W is None:
        raise Undecided("anchor lost: RawVector write sequence")
    b = F.body("raw_vector::RawVector::size_by_params")
    n_usize = len([w for w in W if w["ty"] == "usize"])
    n_vec = len([w for w in W if w["ty"] == "std::vec::Vec<u64>"])
    env = {}
    ok = m(Bin("Add", Bind("c"), Call("bits::bits_to_words", Param(0))), b.term_of_local(0), env) and env["c"][0] == "const" and \
        env["c"][1] == n_usize + n_vec and n_vec == 1 and len(W) == n_usize + n_vec
    # loader invariant ties data.len() to bits_to_words(len)
    lb = F.body("<raw_vector::RawVector as serialize::Serialize>::load")
    inv = False
    for bi, si, st in lb.stmts():
        if st["s"] == "assign" and st["rv"]["r"] == "agg" and st["rv"].get("def") == "raw_vector::RawVector":
            for fc in facts_at(lb, bi):
                if fc[0] == "cmp" and fc[1] == "Eq" and ((m(Call("bits::bits_to_words", ANY), fc[2]) and m(Call(is_vec_len, ANY), fc[3])) or (m(Call("bits::bits_to_words", ANY), fc[3]) and m(Call(is_vec_len, ANY), fc[2]))):
                    inv = True
    ctx.ob("C06.R3.raw-vector-size-by-params", "raw_vector::RawVector::size_by_params" + tag, loc(b.raw["span"]), ok and inv, "formula-agreement",
           "size_by_params(c) = %s; written: %d scalar elements + %d element vector(s) each with a length element; loader enforces bits_to_words(len) == data.len(): %s" % (
               tstr(b.term_of_local(0)), n_usize, n_vec, inv))
    W = fixed.get("int_vector::IntVector")
    if W is None:
        raise Undecided("anchor lost: IntVector write sequence")
    b = F.body("int_vector::IntVector::size_by_params")
    n_usize = len([w for w in W if w["ty"] == "usize"])
    n_raw = len([w for w in W if w["ty"] == "raw_vector::RawVector"])
    env = {}
    ok = m(Bin("Add", Bind("c"), Call("raw_vector::RawVector::size_by_params", Bin("Mul", Param(0), Param(1)))), b.term_of_local(0), env) and \
        env["c"][0] == "const" and env["c"][1] == n_usize and n_raw == 1 and len(W) == n_usize + n_raw
    lb = F.body("<int_vector::IntVector as serialize::Serialize>::load")
    inv = False
    for bi, si, st in lb.stmts():
        if st["s"] == "assign" and st["rv"]["r"] == "agg" and st["rv"].get("def") == "int_vector::IntVector":
            for fc in facts_at(lb, bi):
                if fc[0] == "cmp" and fc[1] == "Eq" and (m(Bin("Mul", ANY, ANY), fc[2]) or m(Bin("Mul", ANY, ANY), fc[3])):
                    inv = True
    ctx.ob("C06.R3.int-vector-size-by-params", "int_vector::IntVector::size_by_params" + tag, loc(b.raw["span"]), ok and inv, "formula-agreement",
           "size_by_params(c, w) = %s; written: %d scalar elements + 1 raw vector; loader enforces len * width == data.len(): %s" % (tstr(b.term_of_local(0)), n_usize, inv))
