"""C17 -- bit-level primitives (structural part): tables equal their definitions; accessors index exactly those tables;
both cfg arms of the in-word select are analysed and their table indices fit the tables under the function's contract.

 R1 the four lookup tables equal their mathematical definitions, entry by entry, in both build configurations
 R2 bit-geometry constants are consistent; low_set/high_set (checked and unchecked) index LOW_SET/HIGH_SET by their parameter
 R3 bits::select: the BMI2 arm is `_pdep_u64(1 << rank, n).trailing_zeros()`; the portable arm reads _PS_OVERFLOW[rank + 1] and
    _SELECT_IN_BYTE[(r << 8) + (x & 0xFF)] with tables long enough for every index the contract allows
 R4 read_int masks the single-word result with low_set(width) and the second word with low_set((offset + width) & 63); write_int = C05.R2
"""
from facts import Undecided, loc, tstr, callee_name, callee_written, subterms, operand_place
from guards import facts_at, strip_casts
from pat import m, Bind, ANY, Call, Bin, Const, Param, SelfField, core
import c05

META = {
    "level": "other",
    "technique": "static analysis: compile-time-evaluated constants compared with their definitions; term shape of table accessors; mask-width dataflow (complement in a narrower type); both cfg arms type-checked and analysed (rustc_private driver, two target-feature configurations)",
    "explanation": "The driver evaluates every const item of the crate (rustc const-eval, not execution of library code). The four tables are "
                   "compared entry by entry with definitions computed independently (65+65+65 entries and the 1024 entries of _SELECT_IN_BYTE "
                   "that the contract of bits::select can reach). The accessors are shown to index exactly these tables by their parameter, "
                   "and the crate is analysed with and without BMI2 so that the table-based select -- never compiled by the test machine -- is "
                   "type-checked and its index arithmetic matched against the table lengths. The arithmetic of read/write/select results "
                   "over their whole domains is not decided (that would be evaluating the functions).",
    "trusted_base": ["rustc const evaluation", "core::arch::x86_64::_pdep_u64 and u64::trailing_zeros semantics"],
    "assumptions": ["contract of bits::select: rank < n.count_ones()"],
}

M64 = (1 << 64) - 1


def check(ctx):
    configs = ["native", "portable"] if ctx.tier == "quick" else ["native", "portable", "native-rel", "portable-rel"]
    for cfg in configs:
        check_config(ctx, ctx.facts(cfg), "@" + cfg, cfg)
    if ctx.tier == "thorough":
        import poscontrol
        poscontrol.run(ctx, "C17")


WIDTHS = {"u8": 8, "u16": 16, "u32": 32, "u64": 64, "usize": 64, "i8": 8, "i16": 16, "i32": 32, "i64": 64, "isize": 64, "u128": 128, "i128": 128}


def narrow_complement_masks(F):
    """`!x` computed in an unsigned type narrower than the type it is then used in as an and-mask: zero-extension clears every
    bit above the narrow width, so the mask is never the mathematical complement. Returns [(fn, from, to, where)]."""
    from facts import operand_place
    hits = []
    for b in F.all_bodies():
        if "::tests::" in b.name or b.name.startswith("internal::"):
            continue
        widened = {}
        for bi, si, st in b.stmts():
            if st["s"] == "assign" and st["rv"]["r"] == "cast" and st["rv"]["kind"] == "IntToInt" and not st["lhs"]["p"]:
                p = operand_place(st["rv"]["o"])
                if p is None or p["p"]:
                    continue
                frm, to = b.local_ty(p["l"]), st["rv"]["ty"]
                if frm in WIDTHS and to in WIDTHS and WIDTHS[frm] < WIDTHS[to] and frm.startswith("u"):
                    inner = b.term_of_operand(st["rv"]["o"])
                    if any(x[0] == "un" and x[1] == "Not" for x in subterms(inner) if x[0] != "cast" or True) and not any(
                            x[0] == "cast" and x[2] in WIDTHS and WIDTHS[x[2]] >= WIDTHS[to] for x in subterms(inner)):
                        widened[st["lhs"]["l"]] = (frm, to, st["sp"])
        if not widened:
            continue
        for bi, si, st in b.stmts():
            if st["s"] == "assign" and st["rv"]["r"] == "bin" and st["rv"]["op"] == "BitAnd":
                for o in (st["rv"]["a"], st["rv"]["b"]):
                    p = operand_place(o)
                    while p is not None and not p["p"] and p["l"] not in widened:
                        ds = [d for d in b.defs().get(p["l"], []) if d[2] == "assign"]
                        if len(ds) == 1 and ds[0][3]["r"] == "use" and len(b.defs().get(p["l"], [])) == 1:
                            p = operand_place(ds[0][3]["o"])
                        else:
                            break
                    if p is not None and not p["p"] and p["l"] in widened:
                        frm, to, sp = widened[p["l"]]
                        hits.append((b.name, frm, to, loc(sp)))
    return hits


def reverse_shift_mismatches(F):
    """`x.reverse_bits() >> (K - bits)` keeps the low `bits` bits of x reversed only if K is the width of x's type: reports
    [(function, type width, K, where)] where the two differ."""
    import re
    hits, seen = [], 0
    for b in F.all_bodies():
        if "::tests::" in b.name or b.name.startswith("internal::"):
            continue
        for bi, si, st in b.stmts():
            if st["s"] != "assign" or st["rv"]["r"] != "bin" or st["rv"]["op"] != "Shr":
                continue
            x = core(b.term_of_operand(st["rv"]["a"]))
            if not (x[0] == "call" and x[1].endswith("::reverse_bits")):
                continue
            mt = re.search(r"impl ([ui])(\d+|size)>", x[1])
            if not mt:
                continue
            width = 64 if mt.group(2) == "size" else int(mt.group(2))
            amt = core(b.term_of_operand(st["rv"]["b"]))
            if amt[0] == "bin" and amt[1] == "Sub" and core(amt[2])[0] == "const" and isinstance(core(amt[2])[1], int):
                seen += 1
                if core(amt[2])[1] != width:
                    hits.append((b.name, width, core(amt[2])[1], loc(st["sp"])))
    return hits, seen


def bit_provenance(t, params):
    """Where each of the 64 result bits of a term comes from: 0, 1, ('n', k) = bit k of parameter n, or None (not a copy).
    Casts, shifts by constants, and / or / xor with decidable bits, `from` / `into`, and reverse_bits / swap_bytes of a stated width
    are followed; anything else gives None for every bit.  A domain for bit permutations, nothing more."""
    import re
    W_ = {"u8": 8, "u16": 16, "u32": 32, "u64": 64, "usize": 64}
    unknown = [None] * 64
    if not isinstance(t, tuple) or not t:
        return unknown
    k = t[0]
    if k in ("ref", "deref"):
        return bit_provenance(t[1], params)
    if k == "param" and t[1] in params:
        return [(t[1], i) for i in range(64)]
    if k == "const" and isinstance(t[1], int) and t[1] >= 0:
        return [(t[1] >> i) & 1 for i in range(64)]
    if k == "cast":
        v = bit_provenance(t[1], params)
        w = W_.get(t[2]) if len(t) > 2 else None
        if w is None:
            return unknown
        return [v[i] if i < w else 0 for i in range(64)]
    if k == "bin":
        a = bit_provenance(t[2], params)
        if t[1] in ("Shl", "Shr"):
            c = core(t[3])
            if c[0] != "const" or not isinstance(c[1], int) or not 0 <= c[1] < 64:
                return unknown
            n_ = c[1]
            return [a[i - n_] if i >= n_ else 0 for i in range(64)] if t[1] == "Shl" else [a[i + n_] if i + n_ < 64 else 0 for i in range(64)]
        b = bit_provenance(t[3], params)
        out = []
        for x, y in zip(a, b):
            mixed = ("mix",) if (x is not None and y is not None) else None      # a known function of input bits that is not a copy
            if t[1] == "BitOr":
                out.append(y if x == 0 else x if y == 0 else (1 if 1 in (x, y) else (x if x == y else mixed)))
            elif t[1] == "BitAnd":
                out.append(0 if 0 in (x, y) else y if x == 1 else x if y == 1 else (x if x == y else mixed))
            elif t[1] == "BitXor":
                out.append(y if x == 0 else x if y == 0 else mixed)
            elif t[1] == "Add":
                out.append(y if x == 0 else x if y == 0 else None)      # no carries while one side is 0 at every position
            else:
                return unknown
        if t[1] == "Add" and any(x not in (0,) and y not in (0,) for x, y in zip(a, b)):
            return unknown
        return out
    if k == "call":
        last = t[1].split("::")[-1].split("<")[0]
        if last in ("from", "into") and len(t[2]) == 1:
            return bit_provenance(t[2][0], params)
        mt = re.search(r"impl ([ui])(\d+|size)>", t[1])
        if last in ("reverse_bits", "swap_bytes") and mt and len(t[2]) == 1:
            w = 64 if mt.group(2) == "size" else int(mt.group(2))
            v = bit_provenance(t[2][0], params)
            if w > 64:
                return unknown
            if last == "reverse_bits":
                return [v[w - 1 - i] if i < w else 0 for i in range(64)]
            return [v[(w // 8 - 1 - i // 8) * 8 + i % 8] if i < w else 0 for i in range(64)]
    return unknown


def check_reverse_low(ctx, F, tag):
    """reverse_low(n, bits) is the low `bits` bits of n in reverse order: the full reversal of n shifted down by 64 - bits.  The
    word that is shifted is read bit by bit (bit_provenance): bit i must be bit 63 - i of n.  A reversal assembled from narrower
    pieces with one conversion in the wrong place puts a piece in the wrong half."""
    fn = "bits::reverse_low"
    if not F.has_body(fn):
        return
    b = F.body(fn)
    t = core(b.term_of_local(0))
    env = {}
    ok, detail = None, "result %s" % tstr(t)[:90]
    if t[0] == "bin" and t[1] == "Shr" and m(Bin("Sub", Const(64), Param(1)), t[3]):
        v = bit_provenance(t[2], {0})
        wrong = [(i, v[i]) for i in range(64) if v[i] != (0, 63 - i)]
        if not wrong:
            ok = True
            detail = "the shifted word is n with bit i <- bit 63 - i for all 64 bits"
        elif all(x is not None for _, x in wrong):
            ok = False
            i, x = wrong[0]
            detail = "bit %d of the shifted word is %s, not bit %d of n (%d of 64 bits misplaced)" % (
                i, "constant %d" % x if isinstance(x, int) else ("a combination of several bits of n" if x == ("mix",) else "bit %d of n" % x[1]), 63 - i, len(wrong))
        else:
            detail = "the shifted word is not a bit permutation the domain can read: %s" % tstr(t[2])[:80]
    ctx.ob("C17.R6.reverse-low-is-the-reversal", fn + tag, loc(b.raw["span"]), ok, "abstract-interpretation(bit provenance)", detail, positive=ok is False)


def check_select_lane_masks(ctx, F, sel, tag, rr, lo):
    """Portable in-word select: the two constant and-masks that cut one byte lane out of a shifted word keep every bit the lane
    can carry. (1) the byte of `n` that indexes _SELECT_IN_BYTE can be any of 0..=255: a constant mask must keep bits 0..7;
    (2) the prefix count cut out of the byte-wise cumulative popcount (a word multiplied by 0x0101..01) takes every value in
    0..=56 (n = all ones reaches 0, 8, .., 56; other words the rest), so a constant mask on it must keep bits 0..5. A mask
    that drops such a bit returns a wrong position for the words that set it. Decides the mask extent, not the arithmetic."""
    def const_mask(t):
        t = core(t)
        if t[0] == "bin" and t[1] == "BitAnd":
            for a, b in ((t[2], t[3]), (t[3], t[2])):
                cb = core(b)
                if cb[0] == "const" and isinstance(cb[1], int):
                    return core(a), cb[1]
        return None, None
    x, c = const_mask(lo)
    if c is not None and any(y[0] == "bin" and y[1] == "Shr" for y in subterms(x)):
        ctx.ob("C17.R3.select-lane-mask-extent", "bits::select|byte-of-n" + tag, loc(sel.raw["span"]), (c & 0xFF) == 0xFF, "mask-extent",
               "the byte of n that indexes _SELECT_IN_BYTE is cut out with & %#x: every bit of the byte is needed" % c, positive=True)
    t = core(rr)
    if t[0] == "bin" and t[1] == "Sub" and m(Param(1), t[2]):
        x, c = const_mask(t[3])
        swar = x is not None and any(y[0] == "const" and y[1] == 0x0101010101010101 for y in subterms(x)) and any(
            y[0] == "bin" and y[1] == "Shr" for y in subterms(x))
        if c is not None and swar:
            ctx.ob("C17.R3.select-lane-mask-extent", "bits::select|prefix-count" + tag, loc(sel.raw["span"]), (c & 0x3F) == 0x3F, "mask-extent",
                   "the count of ones in lower bytes (0..=56, a lane of the word multiplied by 0x0101..01) is cut out with & %#x: bits 0..5 are needed" % c,
                   positive=True)


def check_select_byte_search(ctx, F, sel, tag):
    """Portable in-word select, the byte search: `_PS_OVERFLOW[rank + 1]` is added to a word whose byte k holds the number of ones in
    bytes 0..=k (prefix sums: the byte-wise popcount multiplied by 0x0101..01, or summed up by a ladder of byte shifts); the
    first byte whose sum exceeds the rank carries into bit 7.  Added to the byte-wise popcount itself -- the multiplication
    performed only afterwards, for the relative rank -- the search finds the first byte that has more than `rank` ones of its own."""
    for bi, t in sel.calls():
        if callee_name(t).split("::")[-1] != "trailing_zeros" or not t["args"]:
            continue
        a = core(sel.term_of_operand(t["args"][0]))
        if not (a[0] == "bin" and a[1] == "BitAnd"):
            continue
        for x_, c_ in ((a[2], a[3]), (a[3], a[2])):
            if core(c_)[:2] != ("const", 0x8080808080808080):
                continue
            add = core(x_)
            if not (add[0] == "bin" and add[1] == "Add"):
                continue
            for w_, o_ in ((add[2], add[3]), (add[3], add[2])):
                if not any(y[0] == "constref" and y[1] == "bits::_PS_OVERFLOW" for y in subterms(o_)):
                    continue
                subs = list(subterms(w_))
                mult = any((y[0] == "bin" and y[1] == "Mul") or (y[0] == "call" and y[1].split("::")[-1] in ("overflowing_mul", "wrapping_mul")) for y in subs)
                ladder = len([y for y in subs if y[0] == "bin" and y[1] == "Shl" and core(y[3])[0] == "const" and isinstance(core(y[3])[1], int) and core(y[3])[1] % 8 == 0]) >= 3
                ctx.ob("C17.R3.select-byte-search-over-prefix-sums", "bits::select" + tag, loc(t["sp"]), mult or ladder, "term-provenance",
                       "the word the overflow pattern is added to is a prefix sum over bytes (multiplication by 0x0101..01: %s, shift ladder: %s)" % (mult, ladder),
                       positive=True)
                return


def check_config(ctx, F, tag, cfg):
    # ---------------- R7 the helpers do not fail inside the domain their documentation states (interval interpretation, A12)
    if F.data["target"].get("overflow_checks"):
        import intervals
        intervals.check_documented_domains(ctx, F, tag, "C17.R7")
    # ---------------- R8 the rounding helpers compute what their documentation says, for every argument (A13: each body is
    # evaluated over the residues of its argument and compared with the closed form; equal / refuted with a witness / not evaluable)
    import residues
    N_ = lambda x: x[:2] == ("param", 0)
    c_ = lambda v: ("const", v)
    forms = {
        "bits::bytes_to_words": lambda N: ("bin", "Div", ("bin", "Add", N, c_(7)), c_(8)),
        "bits::bits_to_words": lambda N: ("bin", "Div", ("bin", "Add", N, c_(63)), c_(64)),
        "bits::words_to_bytes": lambda N: ("bin", "Mul", N, c_(8)),
        "bits::words_to_bits": lambda N: ("bin", "Mul", N, c_(64)),
        "bits::round_up_to_word_bytes": lambda N: ("bin", "Mul", ("bin", "Div", ("bin", "Add", N, c_(7)), c_(8)), c_(8)),
        "bits::round_up_to_word_bits": lambda N: ("bin", "Mul", ("bin", "Div", ("bin", "Add", N, c_(63)), c_(64)), c_(64)),
    }
    for fn, want in forms.items():
        if not F.has_body(fn):
            continue
        hb = F.body(fn)
        r_, why = residues.agrees(F, hb.term_of_local(0), N_, want)
        ctx.ob("C17.R8.rounding-helper-closed-form", fn + tag, loc(hb.raw["span"]), r_, "abstract-interpretation(residues)",
               "%s(n) = %s; against the documented closed form: %s" % (fn.split("::")[-1], tstr(hb.term_of_local(0))[:70], why), positive=r_ is False)
    # ---------------- R9 SWAR arithmetic wraps by design: a multiplication by a word-sized pattern constant (0x0101..01 spreads byte
    # sums) overflows 64 bits for almost every word; under an overflow check it is a panic in every debug build of that arm
    swar = []
    for hb in F.all_bodies():
        if not hb.raw["span"].startswith("src/bits.rs") or "::tests::" in hb.name:
            continue
        for bi in sorted(hb.reachable()):
            tt = hb.blocks[bi]["term"]
            if tt["t"] == "assert" and tt["kind"].startswith("Overflow(Mul") and not tt["exp"]:
                ops_ = [hb.term_of_operand(o) for o in tt["ops"]]
                if any(core(o)[0] == "const" and isinstance(core(o)[1], int) and core(o)[1] >= (1 << 56) for o in ops_):
                    swar.append((hb.name, loc(tt["sp"])))
    ctx.ob("C17.R9.swar-multiply-wraps", "src/bits.rs" + tag, "src/bits.rs", not swar, "dataflow",
           "overflow-checked multiplications by a word-sized constant in bits.rs (count must be 0; `overflowing_mul` / `wrapping_mul` is the form that means it): %s" % swar, nontrivial=False, positive=True)
    # ---------------- R6 reversal width
    check_reverse_low(ctx, F, tag)
    hits, seen = reverse_shift_mismatches(F)
    ctx.ob("C17.R6.reverse-shift-width", "crate" + tag, "src/", not hits, "dataflow",
           "%d `reverse_bits() >> (K - bits)` sites; K differs from the reversed type's width at: %s" % (seen, hits), nontrivial=False)
    # ---------------- R5 mask width
    hits = narrow_complement_masks(F)
    ctx.ob("C17.R5.mask-complement-width", "crate" + tag, "src/", not hits, "dataflow",
           "and-masks built by widening the complement of a narrower unsigned value (count must be 0): %s" % hits[:4], nontrivial=False)
    # ---------------- R1 tables
    low = F.const("bits::LOW_SET")
    high = F.const("bits::HIGH_SET")
    pso = F.const("bits::_PS_OVERFLOW")
    sib = F.const("bits::_SELECT_IN_BYTE")
    where = "src/bits.rs"
    bad = [i for i in range(65) if i >= len(low) or low[i] != (1 << i) - 1]
    ctx.ob("C17.R1.table", "bits::LOW_SET" + tag, where, len(low) == 65 and not bad, "constant-table", "LOW_SET[i] = 2^i - 1 for i in 0..=64; mismatching entries: %s" % bad[:8])
    bad = [i for i in range(65) if i >= len(high) or high[i] != (((1 << i) - 1) << (64 - i)) & M64]
    ctx.ob("C17.R1.table", "bits::HIGH_SET" + tag, where, len(high) == 65 and not bad, "constant-table", "HIGH_SET[i] = (2^i - 1) << (64 - i); mismatching entries: %s" % bad[:8])
    bad = [i for i in range(65) if i >= len(pso) or pso[i] != int.from_bytes(bytes([128 - i] * 8), "little")]
    ctx.ob("C17.R1.table", "bits::_PS_OVERFLOW" + tag, where, len(pso) == 65 and not bad, "constant-table", "_PS_OVERFLOW[i] = byte (128 - i) replicated 8 times; mismatching entries: %s" % bad[:8])
    bad = []
    reach = 0
    for x in range(256):
        pos = [b for b in range(8) if (x >> b) & 1]
        for r, p in enumerate(pos):
            reach += 1
            if 256 * r + x >= len(sib) or sib[256 * r + x] != p:
                bad.append((r, x))
    ctx.ob("C17.R1.table", "bits::_SELECT_IN_BYTE" + tag, where, len(sib) == 2048 and not bad, "constant-table",
           "_SELECT_IN_BYTE[256 r + x] = position of the r-th set bit of x for all %d (r, x) with r < popcount(x); mismatching: %s" % (reach, bad[:8]))
    ctx.count("table-entries-checked" + tag, 65 * 3 + reach)

    # ---------------- R2 geometry
    def opt_const(name, default):
        # (a private helper constant may be folded away by a clean-up: `o % WORD_BITS` for `o & OFFSET_MASK`; the relation then
        # has nothing to constrain)
        return F.const(name) if F.consts.get(name) else default
    wb, wby = F.const("bits::WORD_BITS"), F.const("bits::WORD_BYTES")
    ish, om = opt_const("bits::INDEX_SHIFT", 6), opt_const("bits::OFFSET_MASK", wb - 1)
    ok = wb == 64 and wby * 8 == wb and (1 << ish) == wb and om == wb - 1
    ctx.ob("C17.R2.geometry", "bits" + tag, where, ok, "constant-relations", "WORD_BITS=%d WORD_BYTES=%d INDEX_SHIFT=%d OFFSET_MASK=%d: 2^INDEX_SHIFT = WORD_BITS, OFFSET_MASK = WORD_BITS-1, WORD_BYTES*8 = WORD_BITS" % (wb, wby, ish, om))
    so = F.body("bits::split_offset")
    t = so.term_of_local(0)
    hi = [Bin("Shr", Param(0), Const(6)), Bin("Div", Param(0), Const(64))]
    lo = [Bin("BitAnd", Param(0), Const(63)), Bin("Rem", Param(0), Const(64))]
    ok = t[0] == "tuple" and len(t[1]) == 2 and any(m(h, t[1][0]) for h in hi) and any(m(l_, t[1][1]) for l_ in lo)
    ctx.ob("C17.R2.split-offset", "bits::split_offset" + tag, loc(so.raw["span"]), ok, "term-shape", "split_offset(o) = %s" % tstr(t))
    for fn, table in (("bits::low_set", "bits::LOW_SET"), ("bits::high_set", "bits::HIGH_SET")):
        b = F.body(fn)
        t = b.term_of_local(0)
        if not (t[0] == "index"):
            raise Undecided("%s has an unrecognised shape: %s" % (fn, tstr(t)))
        ok = (core(t[1]) == ("namedconst", table) or (core(t[1])[0] in ("const", "constref") and table in core(t[1]))) and core(t[2])[:2] == ("param", 0)
        bc = [bb for bb in b.blocks if bb["term"]["t"] == "assert" and bb["term"]["kind"] == "BoundsCheck"]
        ctx.ob("C17.R2.table-accessor", fn + tag, loc(b.raw["span"]), ok and len(bc) == 1, "term-shape", "%s(n) = %s with a bounds check: %s" % (fn.split("::")[-1], tstr(t), len(bc) == 1))
    for fn, table in (("bits::low_set_unchecked", "bits::LOW_SET"), ("bits::high_set_unchecked", "bits::HIGH_SET")):
        b = F.body(fn)
        t = core(b.term_of_local(0))
        ok = m(Call(lambda n_: n_.endswith("::get_unchecked"), ANY, Param(0)), t) and any(x == ("constref", table) for x in subterms(t))
        f = F.fn(fn)
        ctx.ob("C17.R2.table-accessor", fn + tag, loc(b.raw["span"]), ok and f["unsafe"], "term-shape", "%s(n) = %s; declared unsafe: %s" % (fn.split("::")[-1], tstr(t)[:100], f["unsafe"]))

    # ---------------- R3 select arms
    sel = F.body("bits::select")
    f = F.fn("bits::select")
    bmi2 = "bmi2" in F.data["target"]["features"]
    expect_bmi2 = cfg.startswith("native")
    if bmi2 != expect_bmi2:
        raise Undecided("configuration %s: bmi2 feature is %s" % (cfg, bmi2))
    gets = [(bi, t) for bi, t in sel.calls() if callee_name(t).endswith("::get_unchecked")]
    if bmi2:
        t = core(sel.term_of_local(0))
        ok = m(("cast", Call(lambda n_: n_.endswith("::trailing_zeros"), Call(lambda n_: n_.endswith("_pdep_u64"), Bin("Shl", Const(1), Param(1)), Param(0))), ANY), sel.term_of_local(0)) or \
            m(Call(lambda n_: n_.endswith("::trailing_zeros"), Call(lambda n_: n_.endswith("_pdep_u64"), Bin("Shl", Const(1), Param(1)), Param(0))), t)
        ctx.ob("C17.R3.select-arm", "bits::select|bmi2" + tag, loc(sel.raw["span"]), ok and not gets and f["unsafe"], "term-shape",
               "select(n, rank) = %s (PDEP of 1 << rank under mask n, then TZCNT); no table access; unsafe: %s" % (tstr(t)[:120], f["unsafe"]))
    else:
        ok = len(gets) == 2
        detail = "%d table reads" % len(gets)
        if ok:
            byt = {}
            for bi, t in gets:
                tab = [x[1] for x in subterms(sel.term_of_operand(t["args"][0])) if x[0] == "constref"]
                byt[tab[0] if tab else "?"] = sel.term_of_operand(t["args"][1])
            i1 = byt.get("bits::_PS_OVERFLOW")
            i2 = byt.get("bits::_SELECT_IN_BYTE")
            ok1 = i1 is not None and m(Bin("Add", Param(1), Const(1)), i1) and len(pso) >= 64 + 1
            # (relative_rank << 8) + (x & 0xFF): relative_rank <= 7 under the contract (reviewed), so the index is < 8 * 256 = len
            env2 = {}
            # (`+` or `|`: the byte is below 256 and the shifted rank has its low 8 bits clear, so the two agree)
            ok2 = i2 is not None and (m(Bin("Add", Bin("Shl", Bind("rr"), Const(8)), ANY), i2, env2) or
                                      m(Bin("BitOr", Bin("Shl", Bind("rr"), Const(8)), ANY), i2, env2)) and len(sib) == 8 * 256
            if ok2:
                # the byte: `x & 0xFF`, `x as u8`, ... anything that is at most 255 by construction (casts kept: they carry the bound)
                import c08
                add = core(i2)
                lo = add[3] if m(Bin("Shl", ANY, Const(8)), add[2]) else add[2]
                lo_max = c08.max_value(F, sel, lo, None)
                ok2 = lo_max is not None and lo_max <= 255
            if ok2:
                check_select_lane_masks(ctx, F, sel, tag, env2["rr"], lo)
                check_select_byte_search(ctx, F, sel, tag)
            ok = ok1 and ok2
            detail = "_PS_OVERFLOW[%s] (rank < 64 by contract, table has 65 entries): %s; _SELECT_IN_BYTE[%s] (relative rank <= 7, table has 8*256 entries): %s" % (
                tstr(i1) if i1 else "?", ok1, tstr(i2)[:70] if i2 else "?", ok2)
            if ok2:
                ctx.exempt("C17.R3.select-arm", "bits::select|portable", loc(sel.raw["span"]), "relative_rank = rank - (ones in lower bytes) <= 7 when rank < n.count_ones(): arithmetic of the SDSL byte-prefix trick, not decided statically")
        ctx.ob("C17.R3.select-arm", "bits::select|portable" + tag, loc(sel.raw["span"]), ok and f["unsafe"], "term-shape+table-length", detail)

    # ---------------- R4 read_int
    rb = F.body("bits::read_int")
    rets = [(bi, st) for bi, si, st in rb.stmts() if st["s"] == "assign" and st["lhs"]["l"] == 0 and not st["lhs"]["p"]]
    so_ = Call("bits::split_offset", Param(1))
    off = ("field", so_, "1")
    single = Bin("BitAnd", Bin("Shr", ANY, off), Call("bits::low_set_unchecked", Param(2)))
    second = Bin("BitOr", Bin("Shr", ANY, off), Bin("Shl", Bin("BitAnd", ANY, Call("bits::low_set_unchecked", Bin("BitAnd", Bin("Add", off, Param(2)), Const(None, "bits::OFFSET_MASK")))), Bin("Sub", Const(64), off)))
    terms = [rb.term_of_rvalue(st["rv"]) for _, st in rets]

    def is_low(n_):
        return n_ in ("bits::low_set_unchecked", "bits::low_set")
    # necessary structure only (an exact-formula match would also fire on behaviour-preserving rewrites):
    # the single-word result is and-ed with low_set(width); in the straddling result the second word is and-ed with a low_set(..) of
    # a term over (offset, width) before it is shifted in
    single = Bin("BitAnd", ANY, Call(is_low, Param(2)))
    t_second = [t for t in terms if not m(single, t)]
    ok_second = len(t_second) == 1 and any(x[0] == "bin" and x[1] == "BitAnd" and any(
        y[0] == "call" and is_low(y[1]) and any(z[:2] == ("param", 2) for z in subterms(y)) and any(z[0] == "call" and z[1] == "bits::split_offset" for z in subterms(y))
        for y in (core(x[2]), core(x[3]))) for x in subterms(t_second[0]))
    ok = len(terms) == 2 and any(m(single, t) for t in terms) and ok_second
    ctx.ob("C17.R4.read-int-masks", "bits::read_int" + tag, loc(rb.raw["span"]), ok, "term-shape",
           "single word: (w >> offset) & low_set(width); straddling: (w0 >> offset) | ((w1 & low_set((offset + width) & 63)) << (64 - offset)): %s" % [tstr(t)[:90] for t in terms])
    # the branch between them is offset + width <= WORD_BITS
    for bi, st in rets:
        t = rb.term_of_rvalue(st["rv"])
        fs = facts_at(rb, bi)
        if m(single, t):
            g = any(fc[0] == "cmp" and fc[1] == "Le" and m(Bin("Add", off, Param(2)), fc[2]) and m(Const(64), fc[3]) for fc in fs)
            if not g:
                # the same test with terms moved across (`width <= 64 - offset`)
                from guards import fact_linear_le
                offs = [x for x in subterms(t) if m(off, x)]
                g = bool(offs) and fact_linear_le(fs, ("bin", "Add", offs[0], ("param", 2, rb.local_name(3))), ("const", 64))
            ctx.ob("C17.R4.read-int-branch", "bits::read_int|single" + tag, loc(st["sp"]), g, "guard-dominance", "single-word read only when offset + width <= 64: %s" % g)
    c05.check_write_int(ctx, F, tag, prefix="C17.R4")
