"""C18 -- memory maps are valid while alive, fully released on drop, and fail loudly.

 R1 mmap's result is compared with MAP_FAILED and the failing edge never reaches the MemoryMap aggregate
 R2 Drop: munmap(ptr field, byte length) on every path
 R3 slices are rebuilt from (ptr, len) of the same self; len = bytes_to_words(mmap length); multiple-of-8 guard dominates mmap
 R4 MAP_SHARED, open mode and protection agree with the mapping mode
 R5 ptr/len stored only by the constructor; MemoryMap neither Clone nor Copy; as_mut_slice is unsafe and takes &mut self
"""
from facts import Undecided, loc, subterms, tstr, callee_name, operand_place
from guards import facts_at, has_cmp, must_pass_through, switch_arm_defs, const_names, strip_casts, edge_facts

MM = "serialize::MemoryMap"
NEW = "serialize::MemoryMap::new"
DROP = "<serialize::MemoryMap as std::ops::Drop>::drop"
ASREF = "<serialize::MemoryMap as std::convert::AsRef<[u64]>>::as_ref"
ASMUT = "serialize::MemoryMap::as_mut_slice"
MODE = "serialize::MappingMode"

META = {
    "level": "other",
    "technique": "static analysis: MIR dominance/guard facts, must-pass-through, term provenance of mmap/munmap arguments, who-may-store (rustc_private driver)",
    "explanation": "From the MIR of MemoryMap::new, Drop, as_ref and as_mut_slice: the mmap result must be compared against MAP_FAILED on the "
                   "only path to the MemoryMap aggregate; munmap must be reached on every path of drop with the ptr field and the byte length "
                   "(an expression in the len field that inverts the constructor's bytes_to_words, or a field holding mmap's own length); slices "
                   "are rebuilt from the same (ptr, len) pair; flags/open mode/protection per mapping mode are read from the switch arms; stores "
                   "to ptr/len are enumerated crate-wide. With POSIX mmap/munmap semantics as trusted base these obligations imply the property.",
    "trusted_base": ["POSIX mmap/munmap semantics (MAP_FAILED on error incl. length 0 -> EINVAL; munmap(addr,len) unmaps whole pages of [addr,addr+len))",
                     "the OS honours MAP_SHARED write-back", "rustc's MIR faithfully represents the source"],
    "assumptions": ["the file is not truncated by another process while mapped"],
}


def strip_ptr(t):
    """Strips pointer casts and ptr::cast calls."""
    while True:
        if isinstance(t, tuple) and t[0] == "cast":
            t = t[1]
        elif isinstance(t, tuple) and t[0] == "call" and t[1].endswith("::cast") and "ptr::" in t[1] and len(t[2]) == 1:
            t = t[2][0]
        else:
            return t


RAW_SLICE_CTORS = ("std::ptr::slice_from_raw_parts", "std::slice::from_raw_parts")


def raw_slice_parts(t):
    """(pointer term, length term) if t is a (fat pointer / reference to a) slice made from raw parts, else None."""
    while isinstance(t, tuple) and t and t[0] in ("cast", "ref", "deref"):
        t = t[1]
    if isinstance(t, tuple) and t and t[0] == "call" and t[1].startswith(RAW_SLICE_CTORS) and len(t[2]) == 2:
        return t[2][0], t[2][1]
    return None


def through_raw_slice(t):
    """The thin pointer / the length of a slice made from raw parts are the parts it was made from:
    `slice_from_raw_parts_mut(p, n).cast()` is p, `.len()` of it is n."""
    t0 = t
    while isinstance(t0, tuple) and t0 and t0[0] == "cast":
        t0 = t0[1]
    if isinstance(t0, tuple) and t0 and t0[0] == "call" and len(t0[2]) == 1:
        last = t0[1].split("::")[-1]
        parts = raw_slice_parts(t0[2][0])
        if parts is not None:
            if last in ("cast", "as_ptr", "as_mut_ptr"):
                return parts[0]
            if last == "len":
                return parts[1]
    parts = raw_slice_parts(t) if isinstance(t, tuple) and t and t[0] == "cast" else None
    if parts is not None:
        return parts[0]       # `fat as *mut u8`
    return t


def self_field(t, name):
    """True if t is field `name` of *self (param 0)."""
    t = strip_ptr(through_raw_slice(t))
    if t[0] != "field" or t[2] != name:
        return False
    base = t[1]
    while base[0] in ("deref", "ref"):
        base = base[1]
    return base[0] == "param" and base[1] == 0


def is_map_failed(t):
    t0 = t
    t = strip_ptr(t)
    if t[0] == "const":
        if len(t) > 2 and t[2] == "libc::MAP_FAILED":
            return True
        if t[1] in (2 ** 64 - 1, -1):
            return True
    if t[0] == "un" and t[1] == "Not" and strip_ptr(t[2])[0] == "const" and strip_ptr(t[2])[1] == 0:
        return True
    return False


def by_variant(arms, vnames):
    """{variant name: value} from the arms of a discriminant switch; the `otherwise` arm (`matches!`, `if let`) stands for every
    variant not named by another arm."""
    out = {vnames[k]: v for k, v in arms.items() if isinstance(k, int) and k < len(vnames)}
    for k, v in arms.items():
        if isinstance(k, tuple) and k and k[0] == "not":
            for i, n in enumerate(vnames):
                if i not in k[1] and n not in out:
                    out[n] = v
    return out


def check(ctx):
    # (the release configuration is part of the quick tier: an unmap, a check or a length that lives inside a debug_assert! is
    # compiled out there, and only there)
    configs = ["native", "native-rel"] if ctx.tier == "quick" else ["native", "portable", "native-rel", "portable-rel"]
    for cfg in configs:
        check_config(ctx, ctx.facts(cfg), "" if cfg == "native" else "@" + cfg)
    if ctx.tier == "thorough":
        import witness
        witness.run(ctx, "C18")


def check_config(ctx, F, tag):
    adt = F.adt(MM)
    fields = [f["name"] for f in adt["variants"][0]["fields"]]
    if "ptr" not in fields or "len" not in fields:
        raise Undecided("anchor lost: MemoryMap fields ptr/len (have %s)" % fields)
    new = F.body(NEW)
    nwhere = loc(new.raw["span"])

    # ---- constructor aggregates, crate-wide (A10)
    aggs = []
    for b in F.all_bodies():
        for bi, si, st in b.stmts():
            if st["s"] == "assign" and st["rv"]["r"] == "agg" and st["rv"].get("def") == MM:
                aggs.append((b, bi, si, st))
    ctx.count("MemoryMap-aggregates" + tag, len(aggs))
    import inline
    others_ = sorted({b.name for b, _, _, _ in aggs if b.name != NEW})
    ctx.ob("C18.R5.single-constructor", MM + tag, nwhere, (len(aggs) >= 1 and not others_) if not inline.only_new(others_) else None, "who-may-construct",
           "MemoryMap aggregates are in: %s (must be only %s)" % (sorted({b.name for b, _, _, _ in aggs}), NEW))
    if not aggs:
        raise Undecided("anchor lost: no MemoryMap aggregate")

    mmaps = [(bi, t) for bi, t in new.calls() if callee_name(t) == "libc::mmap"]
    if not mmaps:
        raise Undecided("anchor lost: no libc::mmap call in %s" % NEW)
    import serfmt
    order = serfmt.rpo(new)
    mmaps.sort(key=lambda x: order.get(x[0], 1 << 30))
    if len(mmaps) > 1:
        # a retry / fallback: the calls must map the same file with the same length and protection; the rules below are then
        # decided on the first call, R1 on every call
        same = all(new.term_of_operand(t["args"][k]) == new.term_of_operand(mmaps[0][1]["args"][k]) for _, t in mmaps[1:] for k in (1, 2, 4))
        if not same:
            raise Undecided("%d libc::mmap calls in %s that differ in length, protection or file" % (len(mmaps), NEW))
    mbi, mcall = mmaps[0]
    mwhere = loc(mcall["sp"])
    if mcall["dest"]["p"]:
        raise Undecided("mmap result stored into a projection")
    mres = mcall["dest"]["l"]
    mres_t = new.term_of_local(mres)
    mlen_t = new.term_of_operand(mcall["args"][1])

    # ---- R1: MAP_FAILED comparison dominates every aggregate
    for b, bi, si, st in aggs:
        if b.name != NEW:
            continue
        facts = facts_at(b, bi)
        ok = False
        seen = []
        for f in facts:
            if f[0] == "cmp" and f[1] == "Ne":
                x, y = strip_ptr(f[2]), strip_ptr(f[3])
                seen.append("%s != %s" % (tstr(x), tstr(y)))
                if (x == strip_ptr(mres_t) and is_map_failed(f[3])) or (y == strip_ptr(mres_t) and is_map_failed(f[2])):
                    ok = True
        nullcheck = [f for f in facts if f[0] == "bool" and f[1][0] == "call" and f[1][1].endswith("::is_null")]
        if len(mmaps) > 1:
            # every call's result is compared with MAP_FAILED (or replaced by a later call's) on every path to the aggregate
            results = {t["dest"]["l"] for _, t in mmaps if not t["dest"]["p"]}
            grew = True
            while grew:
                grew = False
                for bj, sj, stj in new.stmts():
                    if stj["s"] == "assign" and not stj["lhs"]["p"] and stj["rv"]["r"] in ("use", "cast"):
                        q = operand_place(stj["rv"]["o"])
                        if q is not None and not q["p"] and q["l"] in results and stj["lhs"]["l"] not in results:
                            results.add(stj["lhs"]["l"])
                            grew = True
            def about_result(x):
                x = strip_ptr(x)
                return (x[0] == "var" and x[1] in results) or any(x == strip_ptr(new.term_of_local(l)) for l in results)
            via = [v for (u, v, f) in edge_facts(new) if f[0] == "cmp" and f[1] == "Ne" and
                   ((about_result(f[2]) and is_map_failed(f[3])) or (about_result(f[3]) and is_map_failed(f[2])))]
            unchecked = []
            for k, (cbi, ct) in enumerate(mmaps):
                others = [ob for ob, _ in mmaps if ob != cbi]
                start = ct.get("target")
                if start is None or start in via:
                    continue
                if bi in new.reach_from([start], avoid=set(via) | set(others)) or start == bi:
                    unchecked.append(loc(ct["sp"]))
            ctx.ob("C18.R1.map-failed-check", NEW + tag, mwhere, not unchecked, "must-pass-through",
                   "%d mmap calls; each result must pass a `!= MAP_FAILED` edge (or be replaced by a later call) before the MemoryMap is built; unchecked: %s" % (len(mmaps), unchecked or "none"))
        else:
          ctx.ob("C18.R1.map-failed-check", NEW + tag, mwhere, ok and new.dominates(mbi, bi), "guard-dominance",
                 "the MemoryMap aggregate must be dominated by `mmap result != MAP_FAILED`; facts on the path: %s%s" % (
                     seen, "; only a null test is present (mmap reports failure as MAP_FAILED = -1, never null)" if nullcheck and not ok else ""))
        # ptr field derives from the mmap result
        rv = st["rv"]
        ops = dict(zip(rv["fields"], rv["ops"]))
        pt = strip_ptr(b.term_of_operand(ops["ptr"]))
        okpt = pt == strip_ptr(mres_t)
        if len(mmaps) > 1:
            okpt = pt[0] == "var" and pt[1] in results or any(pt == strip_ptr(new.term_of_local(l)) for l in results)
        ctx.ob("C18.R3.ptr-is-mmap-result", NEW + tag, loc(st["sp"]), okpt, "term-provenance",
               "MemoryMap.ptr = %s (must be the mmap result)" % tstr(pt))
        lt = b.term_of_operand(ops["len"])
        ok_len = lt[0] == "call" and lt[1] == "bits::bytes_to_words" and lt[2][0] == mlen_t
        sem, pos = "", False
        if not ok_len and lt != mlen_t:
            import residues
            r_, sem = residues.agrees(F, lt, lambda x: x == strip_casts(mlen_t), lambda N: residues.call("bits::bytes_to_words", N))
            ok_len, pos = bool(r_), r_ is False
        ctx.ob("C18.R3.len-is-words-of-mmap-length", NEW + tag, loc(st["sp"]), ok_len, "term-provenance",
               "MemoryMap.len = %s; mmap length = %s (len must be bytes_to_words of the mapped byte length) %s" % (tstr(lt), tstr(mlen_t), sem), positive=pos)
        len_field_holds = "words" if ok_len else ("bytes" if lt == mlen_t else "unknown")

    # mmap length is the file size
    src = strip_casts(mlen_t)
    ok_src = src[0] == "call" and src[1] == "std::fs::Metadata::len"
    ctx.ob("C18.R3.mmap-length-is-file-size", NEW + tag, mwhere, ok_src, "term-provenance",
           "mmap length term: %s (must be the file's metadata.len())" % tstr(mlen_t))
    # multiple-of-8 guard dominates mmap
    facts = facts_at(new, mbi)
    ok8 = False
    for f in facts:
        if f[0] == "cmp" and f[1] == "Eq":
            for x, y in ((f[2], f[3]), (f[3], f[2])):
                if x == mlen_t and y[0] == "call" and y[1] == "bits::round_up_to_word_bytes" and y[2][0] == mlen_t:
                    ok8 = True
                if y[0] == "const" and y[1] == 0 and x[0] == "bin" and x[2] == mlen_t and x[3][0] == "const" and \
                        ((x[1] == "Rem" and x[3][1] == 8) or (x[1] == "BitAnd" and x[3][1] == 7)):
                    ok8 = True
                if not ok8 and x == mlen_t and y != mlen_t:
                    # `len == <the next multiple of 8, written some other way>`: decided over the residues of len (A13)
                    import residues
                    r_, _why = residues.agrees(F, y, lambda z: z == strip_casts(mlen_t), lambda N: residues.call("bits::round_up_to_word_bytes", N))
                    ok8 = ok8 or bool(r_)
    ctx.ob("C18.R3.size-multiple-of-8-guard", NEW + tag, mwhere, ok8, "guard-dominance",
           "mmap must be dominated by `len == round_up_to_word_bytes(len)` (or len %% 8 == 0); cmp facts: %s" %
           [tstr(("bin", f[1], f[2], f[3])) for f in facts if f[0] == "cmp"])

    # ---- R4 flags / modes
    # a shared file mapping: MAP_SHARED present, nothing that detaches the mapping from the file or places it (advisory flags such as
    # MAP_POPULATE / MAP_NORESERVE do not change what the slice shows)
    FORBIDDEN = {"MAP_PRIVATE", "MAP_ANONYMOUS", "MAP_ANON", "MAP_FIXED", "MAP_FIXED_NOREPLACE", "MAP_SHARED_VALIDATE"}
    okf, shown = True, []
    for _, ct in mmaps:
        flags = new.term_of_operand(ct["args"][3])
        alts = [flags]
        if strip_casts(flags)[0] == "var":        # chosen per case (`if populate { A | B } else { A }`): every choice must qualify
            roots = new.root_defs(strip_casts(flags)[1])
            if roots:
                alts = [new.term_of_rvalue(rv) for _, rv in roots]
        for fl in alts:
            names = {n.split("::")[-1] for n in const_names(fl)}
            pure = all(x[0] in ("const", "namedconst", "constref", "cast") or (x[0] == "bin" and x[1] == "BitOr") for x in subterms(fl) if isinstance(x, tuple) and x and isinstance(x[0], str))
            okf = okf and "MAP_SHARED" in names and not (names & FORBIDDEN) and pure
            shown.append(tstr(fl))
    ctx.ob("C18.R4.map-shared", NEW + tag, mwhere, okf, "constant",
           "mmap flags term(s): %s (MAP_SHARED, or-ed only with advisory flags; none of %s)" % (shown, sorted(FORBIDDEN)))
    modeadt = F.adt(MODE)
    vnames = [v["name"] for v in modeadt["variants"]]
    if sorted(vnames) != ["Mutable", "ReadOnly"]:
        raise Undecided("anchor lost: MappingMode variants %s" % vnames)
    def arm_values(t):
        """Per-arm values of a term that is a local assigned once in each arm of one switch, or one component of such a local
        holding a tuple (`let (write, prot) = match mode { .. }`)."""
        t = strip_casts(t)
        if t[0] == "var":
            return switch_arm_defs(new, t[1])
        if t[0] == "field" and strip_casts(t[1])[0] == "var" and str(t[2]).isdigit():
            arms = switch_arm_defs(new, strip_casts(t[1])[1])
            if arms and all(v[0] == "tuple" and int(t[2]) < len(v[1]) for v in arms[1].values()):
                return arms[0], {k: v[1][int(t[2])] for k, v in arms[1].items()}
        return None
    arms = arm_values(new.term_of_operand(mcall["args"][2]))
    okp = False
    detail = "protection argument is not a per-mode switch result"
    if arms:
        on, m = arms
        byname = by_variant(m, vnames)
        mode_param = on[0] == "discr" and on[1][0] == "param" and on[1][1] == 1
        okp = mode_param and const_names(byname.get("ReadOnly", ())) == {"libc::PROT_READ"} and \
            const_names(byname.get("Mutable", ())) == {"libc::PROT_READ", "libc::PROT_WRITE"} and \
            (byname["Mutable"][0] == "bin" and byname["Mutable"][1] == "BitOr")
        detail = "prot per mode: %s (switch on %s)" % ({k: tstr(v) for k, v in byname.items()}, tstr(on))
    ctx.ob("C18.R4.protection-matches-mode", NEW + tag, mwhere, okp, "switch-arm-terms", detail)
    wcalls = [(bi, t) for bi, t in new.calls() if callee_name(t) == "std::fs::OpenOptions::write"]
    okw = False
    detail = "no OpenOptions::write call"
    if len(wcalls) == 1:
        t = new.term_of_operand(wcalls[0][1]["args"][1])
        t0 = strip_casts(t)
        if t0[0] == "call" and t0[1].endswith("PartialEq>::eq") and len(t0[2]) == 2:
            # write = (mode == MappingMode::Mutable)
            x, y = strip_ptr(t0[2][0]), strip_ptr(t0[2][1])
            while x[0] in ("ref", "deref"):
                x = x[1]
            while y[0] in ("ref", "deref"):
                y = y[1]
            okw = x[0] == "param" and x[1] == 1 and y[0] == "promoted" and any(d.endswith("MappingMode::Mutable") for d in y[3])
            detail = "write(mode == MappingMode::Mutable): %s" % okw
        if arm_values(t):
            arms = arm_values(t)
            if arms:
                on, m = arms
                byname = by_variant(m, vnames)
                okw = on[0] == "discr" and on[1][0] == "param" and on[1][1] == 1 and \
                    byname.get("ReadOnly") == ("const", 0) and byname.get("Mutable") == ("const", 1)
                detail = "write(..) per mode: %s" % {k: tstr(v) for k, v in byname.items()}
        # the opened file is the one mapped
        opens = [(bi, c) for bi, c in new.calls() if callee_name(c).startswith("std::fs::OpenOptions::open")]
        fd = new.term_of_operand(mcall["args"][4])
        okfd = fd[0] == "call" and fd[1].endswith("as_raw_fd")
        okw = okw and len(opens) == 1 and okfd
        detail += "; fd term %s" % tstr(fd)
    ctx.ob("C18.R4.open-mode-matches-mode", NEW + tag, nwhere, okw, "switch-arm-terms", detail)

    # ---- R2 Drop
    if not F.has_body(DROP):
        # the mapping is created by mmap in `new` (established above) and nothing in this configuration unmaps it when the value
        # goes away: whatever the reason the impl is not compiled (a cfg that excludes this target), "after drop no part of the
        # file remains mapped" is refuted here
        others = [b.name for b in F.all_bodies() if any(callee_name(t) == "libc::munmap" for _, t in b.calls())]
        ctx.ob("C18.R2.munmap-on-every-path", DROP + tag, nwhere, False if not others else None, "must-pass-through",
               "no Drop impl for MemoryMap is compiled in this configuration; munmap callers: %s" % (others or "none"), positive=not others)
        return
    drop = F.body(DROP)
    dwhere = loc(drop.raw["span"])
    mun = [(bi, t) for bi, t in drop.calls() if callee_name(t) == "libc::munmap"]
    # a path may leave without munmap only behind a test that the mapping has no elements (nothing is mapped then)
    empty_edges = []
    for u, v, f in edge_facts(drop):
        if f[0] == "cmp" and f[1] == "Eq" and ((self_field(f[2], "len") and strip_casts(f[3])[:2] == ("const", 0)) or (self_field(f[3], "len") and strip_casts(f[2])[:2] == ("const", 0))):
            empty_edges.append(v)
        if f[0] == "bool" and f[2] is True and f[1][0] == "call" and f[1][1].split("::")[-1] == "is_empty" and \
                (raw_slice_parts(f[1][2][0]) is not None and self_field(raw_slice_parts(f[1][2][0])[1], "len") or strip_ptr(f[1][2][0])[:2] == ("param", 0) or
                 (strip_ptr(f[1][2][0])[0] in ("ref", "deref") and strip_ptr(f[1][2][0])[1][:2] == ("param", 0))):
            empty_edges.append(v)
    ctx.ob("C18.R2.munmap-on-every-path", DROP + tag, dwhere,
           len(mun) >= 1 and must_pass_through(drop, 0, [bi for bi, _ in mun] + empty_edges), "must-pass-through",
           "%d munmap call(s); every path entry->return passes one%s" % (len(mun), " (or leaves behind a test that the map has no elements)" if empty_edges else ""))
    for bi, t in mun:
        a0 = drop.term_of_operand(t["args"][0])
        a1 = drop.term_of_operand(t["args"][1])
        ctx.ob("C18.R2.munmap-pointer", DROP + tag, loc(t["sp"]), self_field(a0, "ptr"), "term-provenance",
               "munmap address term: %s (must be self.ptr)" % tstr(a0))
        okb = False
        if len_field_holds == "words":
            if a1[0] == "call" and a1[1] == "bits::words_to_bytes" and self_field(a1[2][0], "len"):
                okb = True
            if a1[0] == "call" and a1[1] == "std::mem::size_of_val" and raw_slice_parts(a1[2][0]) is not None and self_field(raw_slice_parts(a1[2][0])[1], "len") and \
                    len(a1) > 3 and a1[3] and a1[3][0].startswith("["):
                okb = True      # size_of_val::<[u64]> of the slice itself (size_of_val of the fat pointer is 16, whatever the length)
            if a1[0] == "bin" and a1[1] == "Mul":
                x, y = a1[2], a1[3]
                for p, q in ((x, y), (y, x)):
                    if self_field(p, "len") and q[0] == "const" and q[1] == 8:
                        okb = True
            if a1[0] == "bin" and a1[1] == "Shl" and self_field(a1[2], "len") and a1[3][0] == "const" and a1[3][1] == 3:
                okb = True
        elif len_field_holds == "bytes":
            okb = self_field(a1, "len")
        sem, pos = "", False
        if not okb and len_field_holds == "words":
            import residues
            r_, sem = residues.agrees(F, a1, lambda x: self_field(x, "len"), lambda N: ("bin", "Mul", N, ("const", 8)))
            okb, pos = bool(r_), r_ is False
        ctx.ob("C18.R2.munmap-length-in-bytes", DROP + tag, loc(t["sp"]), okb, "term-provenance",
               "munmap length term: %s; the len field holds %s (constructor stores bytes_to_words(mmap length)), so the byte length is "
               "words_to_bytes(self.len) %s" % (tstr(a1), len_field_holds, sem), positive=pos)

    # ---- R3 slices
    for name in (ASREF, ASMUT):
        b = F.body(name)
        frp = [(bi, t) for bi, t in b.calls() if callee_name(t).startswith(RAW_SLICE_CTORS)]
        ok = len(frp) == 1
        detail = "%d from_raw_parts calls" % len(frp)
        if ok:
            a0 = b.term_of_operand(frp[0][1]["args"][0])
            a1 = b.term_of_operand(frp[0][1]["args"][1])
            ok = self_field(a0, "ptr") and self_field(a1, "len") and len_field_holds == "words"
            detail = "from_raw_parts(%s, %s); element type u64, len field holds %s" % (tstr(a0), tstr(a1), len_field_holds)
        ctx.ob("C18.R3.slice-from-same-pair", name + tag, loc(b.raw["span"]), ok, "term-provenance", detail)

    # ---- R5 stores, Clone/Copy, unsafe as_mut_slice
    stores = []
    for b in F.all_bodies():
        for bi, si, st in b.stmts():
            if st["s"] == "assign" and st["lhs"]["p"]:
                for e in st["lhs"]["p"]:
                    if isinstance(e, dict) and e.get("adt") == MM and e.get("name") in ("ptr", "len"):
                        stores.append("%s (%s)" % (b.name, e["name"]))
    ctx.ob("C18.R5.no-field-stores", MM + tag, nwhere, (not stores) if not inline.only_new(stores) else None, "who-may-store",
           "direct stores to MemoryMap.ptr/len outside the aggregate: %s" % stores)
    bad = [t for t in ("std::clone::Clone", "std::marker::Copy") if F.derives(MM, t) or F.manual_impl(MM, t)]
    ctx.ob("C18.R5.not-clone-copy", MM + tag, loc(adt["span"]), not bad, "item-structure", "MemoryMap implements %s (must be neither)" % bad)
    fn = F.fn(ASMUT)
    ctx.ob("C18.R5.as-mut-slice-unsafe-mut-self", ASMUT + tag, loc(fn["span"]), fn["unsafe"] and "&mut serialize::MemoryMap" in fn["sig"].replace("'a ", "").replace("'_ ", ""),
           "item-structure", "signature: %s unsafe=%s" % (fn["sig"], fn["unsafe"]))
    for f in adt["variants"][0]["fields"]:
        if f["name"] in ("ptr", "len"):
            ctx.ob("C18.R5.field-private", "%s.%s%s" % (MM, f["name"], tag), loc(adt["span"]), f["vis"] != "pub", "item-structure",
                   "field %s visibility %s" % (f["name"], f["vis"]))
    ctx.floor("MemoryMap-aggregates" + tag, 1)
