"""C12 -- buffered file writers produce exactly the in-memory serialization (structural part).

 R1 the headers the writers emit have the same elements, in the same order, as the in-memory serialize_header of the
    corresponding vector, and placeholders have the final header's length
 R2 open/closed typestate: close_with_header clears `file` only after the final flush and the header rewrite both succeeded;
    a closed writer's close is effect-free; Drop reaches close
 R3 the pushed-bits counters move together with the buffer; the flush trigger compares the buffer with buf_len; buf_len is a
    positive multiple of 64 at both constructors; the flushed buffer is cleared before anything else is written
"""
from facts import Undecided, loc, tstr, callee_name, callee_written, subterms, operand_place
from guards import facts_at, must_pass_through, strip_casts, try_sites, ok_blocks
from effects import field_store_blocks, mutation_sites, comutated
from pat import m, Bind, ANY, Call, Bin, Const, Param, SelfField, core, self_path
import serfmt

RW = "raw_vector::RawVectorWriter"
IW = "int_vector::IntVectorWriter"

META = {
    "level": "other",
    "technique": "static analysis: header sequence agreement with the in-memory impl, typestate/must-pass-through on close, co-mutation of counters at every raw push site (MIR, rustc_private driver; bodies normalised by helper inlining and combinator expansion)",
    "explanation": "The writers re-implement the vector headers by hand. Their element lists (terms pushed into the header vector) are "
                   "compared with the write sequence of RawVector/IntVector::serialize_header extracted for C06, the placeholder and final "
                   "headers must have equal length, `file = None` must be dominated by the success edges of flush(Final) and write_header, "
                   "all mutations of close are under is_open(), Drop must reach close, and the len counters are incremented in the same body "
                   "as the push into the buffer by the pushed width. The carry-over arithmetic of flush(Safe) is not decided.",
    "trusted_base": ["rustc's MIR faithfully represents the source", "File::seek(Start(0)) + write_all overwrite the placeholder bytes"],
    "assumptions": ["callers of RawVectorWriter::new pass close_with_header a header of the same length as the placeholder (documented)"],
}


def check(ctx):
    configs = ["native"] if ctx.tier == "quick" else ["native", "portable", "native-rel", "portable-rel"]
    for cfg in configs:
        check_config(ctx, ctx.facts(cfg), "" if cfg == "native" else "@" + cfg)


def arrays_in(b):
    out = []
    for bi, si, st in b.stmts():
        if st["s"] == "assign" and st["rv"]["r"] == "agg" and st["rv"]["agg"] == "array":
            out.append((bi, st, [b.term_of_operand(o) for o in st["rv"]["ops"]]))
    return out


def check_config(ctx, F, tag):
    from core import Relabel
    if not isinstance(ctx, Relabel) and tag in ("", "@portable"):
        # (borrowed) the buffer length the flush arithmetic relies on is a whole number of words because the constructor rounds it
        # with bits::round_up_to_word_bits: that helper, and the two it is made of, against their closed forms (C17.R8)
        import c17
        c17.check_config(Relabel(ctx, {"C17.R8.rounding-helper-closed-form": ("C12.R3.buffer-rounding-helper",
                                                                               lambda k: any(x in k for x in ("round_up_to_word_bits", "bits_to_words", "words_to_bits")))}),
                         F, tag, "native" if tag == "" else "portable")
    # the writer's extend() pushes every item as it is (push truncates it to the width, as the in-memory vector does): a value
    # passed through min / max / clamp first is another value
    for nm in sorted(F.bodies):
        if nm.startswith("<int_vector::IntVectorWriter as std::iter::Extend<") and nm.endswith(">::extend"):
            eb = F.body(nm)
            pu = [(bi, t) for bi, t in eb.calls() if callee_name(t).endswith("Push>::push")]
            ok = None
            detail = "%d push calls" % len(pu)
            if pu:
                ok = True
                for bi, t in pu:
                    a = core(eb.term_of_operand(t["args"][1]))
                    item = a[0] == "field" and any(x[0] == "call" and x[1].split("::")[-1] == "next" for x in subterms(a))
                    conv = a[0] == "call" and a[1].split("::")[-1] in ("from", "into") and len(a[2]) == 1
                    if item or conv:
                        continue
                    altered = a[0] == "call" and a[1].split("::")[-1] in ("min", "max", "clamp", "saturating_sub", "saturating_add", "wrapping_add", "wrapping_sub") or a[0] == "bin"
                    ok = False if altered else (None if ok else ok)
                    detail += "; pushed: %s" % tstr(a)[:70]
            ctx.ob("C12.R2.extend-pushes-the-item", nm + tag, loc(eb.raw["span"]), ok, "term-provenance", detail, positive=ok is False)
    impls = {im["self"]: im for im in serfmt.serialize_impls(F)}
    # ---------------- R1 RawVectorWriter::write_header vs RawVector::serialize_header
    wh = F.body(RW + "::write_header")
    pushes = sorted([(bi, t) for bi, t in wh.calls() if callee_name(t).startswith("std::vec::Vec::<") and callee_name(t).endswith("::push") and
                     core(wh.term_of_operand(t["args"][0]))[:2] == ("param", 1)], key=lambda x: serfmt.rpo(wh)[x[0]])
    rvh = serfmt.write_seq(impls["raw_vector::RawVector"]["fns"]["serialize_header"])
    # header elements of RawVector: one per usize item, one (the length) per nested vector header
    expect = []
    for it in rvh:
        if it["ty"] == "usize" and it["method"] == "serialize":
            expect.append(("field", it["path"]))
        elif it["ty"] == "std::vec::Vec<u64>" and it["method"] == "serialize_header":
            expect.append(("veclen", it["path"]))
        else:
            expect.append(("other", it["ty"]))
    got = [core(wh.term_of_operand(t["args"][1])) for _, t in pushes]
    if not got and len(arrays_in(wh)) == 1:
        got = [core(x) for x in arrays_in(wh)[0][2]]          # the header built as one array literal (extend_from_slice(&[len, words]))
    ok = len(got) == len(expect) == 2 and expect[0] == ("field", ["len"]) and expect[1][0] == "veclen" and \
        m(SelfField("len"), got[0]) and m(Call("bits::bits_to_words", SelfField("len")), got[1])
    sem, pos = "", False
    if not ok and len(got) == len(expect) == 2 and expect[0] == ("field", ["len"]) and expect[1][0] == "veclen" and m(SelfField("len"), got[0]):
        # the word count written differently: decided over the residues of len (A13)
        import residues
        r_, sem = residues.agrees(F, got[1], lambda x: self_path(x) == ["len"], lambda N: residues.call("bits::bits_to_words", N))
        ok, pos = (True if r_ else ok), r_ is False
    if not ok and not got:
        ok = None           # the header is assembled in a way this rule does not read
    ctx.ob("C12.R1.raw-header-agreement", RW + "::write_header" + tag, loc(wh.raw["span"]), ok, "sequence-agreement",
           "writer header = %s; RawVector::serialize_header writes %s (data.len() == bits_to_words(len) by the loader's invariant) %s" % (
               [tstr(g) for g in got], serfmt.describe(rvh), sem), positive=pos)
    # seek to the start precedes, serialize_body of the header follows, all propagated
    seeks = [bi for bi, t in wh.calls() if callee_written(t) == "std::io::Seek::seek" and
             m(("adt", "std::io::SeekFrom", "Start", ANY, (Const(0),)), wh.term_of_operand(t["args"][1]))]
    bodies = [(bi, t) for bi, t in wh.calls() if callee_written(t) == "serialize::Serialize::serialize_body" and core(wh.term_of_operand(t["args"][0]))[:2] == ("param", 1)]
    ok = len(seeks) == 1 and len(bodies) == 1 and all(wh.dominates(seeks[0], bi) for bi, _ in pushes) and all(wh.dominates(bi, bodies[0][0]) for bi, _ in pushes)
    ctx.ob("C12.R1.header-rewritten-at-start", RW + "::write_header" + tag, loc(wh.raw["span"]), ok, "dominance",
           "seek(Start(0)) -> pushes -> header.serialize_body(file): %s" % ok)
    # ---------------- R1 IntVectorWriter headers
    ivh = serfmt.write_seq(impls["int_vector::IntVector"]["fns"]["serialize_header"])
    lead = [it["path"] for it in ivh if it["ty"] == "usize" and it["method"] == "serialize"]
    cl = F.body(IW + "::close")
    arrs = arrays_in(cl)
    ok = len(arrs) == 1 and len(arrs[0][2]) == len(lead) and all(self_path(x) == p for x, p in zip(arrs[0][2], lead))
    if not arrs:
        # the header is not written as one array literal: built by pushes into a vector, in that order
        hp = sorted([(serfmt.rpo(cl)[bi], core(cl.term_of_operand(t["args"][1]))) for bi, t in cl.calls()
                     if callee_name(t).startswith("std::vec::Vec::<") and callee_name(t).endswith("::push") and len(t["args"]) == 2], key=lambda x: x[0])
        ok = (len(hp) == len(lead) and all(self_path(x) == p for (_, x), p in zip(hp, lead))) if hp else None
    ctx.ob("C12.R1.int-header-agreement", IW + "::close" + tag, loc(cl.raw["span"]), ok, "sequence-agreement",
           "close header = %s; IntVector::serialize_header leads with %s" % ([tstr(x) for a in arrs for x in a[2]], lead))
    cw = [t for _, t in cl.calls() if callee_name(t) == RW + "::close_with_header"]
    ok = len(cw) == 1 and self_path(cl.term_of_operand(cw[0]["args"][0])) == ["writer"] and cw[0]["dest"]["l"] == 0
    ctx.ob("C12.R1.int-close-delegates", IW + "::close" + tag, loc(cl.raw["span"]), ok, "call-sequence", "close = self.writer.close_with_header(header), result returned: %s" % ok)
    for ctor in (IW + "::new", IW + "::with_buf_len"):
        b = F.body(ctor)
        arrs2 = arrays_in(b)
        ok = len(arrs2) == 1 and len(arrs2[0][2]) == len(lead) and all(m(Const(0), x) for x in arrs2[0][2])
        ctx.ob("C12.R1.placeholder-length", ctor + tag, loc(b.raw["span"]), ok, "sequence-agreement",
               "placeholder header %s has the %d elements of the final header" % ([tstr(x) for a in arrs2 for x in a[2]], len(lead)))

    # ---------------- R2 typestate
    ch = F.body(RW + "::close_with_header")
    stores = field_store_blocks(ch, RW, "file")
    stores = [x for x in stores if not ch.blocks[x[0]]["cleanup"]]
    ok = len(stores) == 1
    detail = "%d stores to .file" % len(stores)
    if ok:
        bi, si, st = stores[0]
        val = ch.term_of_rvalue(st["rv"])
        isnone = core(val)[0] == "adt" and core(val)[2] == "None"
        sites = try_sites(ch)
        fl = [s for s in sites if s["src_local"] is not None and m(Call(RW + "::flush", Param(0), ANY), ch.term_of_local(s["src_local"]))]
        whs = [s for s in sites if s["src_local"] is not None and m(Call(RW + "::write_header", Param(0), Param(1)), ch.term_of_local(s["src_local"]))]
        okf = len(fl) == 1 and fl[0]["cont_block"] is not None and ch.dominates(fl[0]["cont_block"], bi)
        okh = len(whs) == 1 and whs[0]["cont_block"] is not None and ch.dominates(whs[0]["cont_block"], bi)
        final = False
        if fl:
            ft = core(ch.term_of_local(fl[0]["src_local"]))
            mode = core(ft[2][1])
            final = mode[0] == "adt" and mode[2] == "Final"
        order = okf and okh and ch.dominates(fl[0]["cont_block"], whs[0]["call_block"])
        ok = isnone and okf and okh and final and order
        detail = "file := %s; after flush(Final)? success: %s (mode Final: %s); after write_header? success: %s; flush before header: %s" % (tstr(val), okf, final, okh, order)
    ctx.ob("C12.R2.closed-only-after-success", RW + "::close_with_header" + tag, loc(ch.raw["span"]), ok, "dominance", detail)
    muts = mutation_sites(ch, 1, by_ref=True)
    unguarded = []
    for bi, k, d, sp in muts:
        if not any(f[0] == "bool" and f[2] is True and m(Call(RW + "::is_open", Param(0)), f[1]) for f in facts_at(ch, bi)):
            unguarded.append((k, d))
    ctx.ob("C12.R2.close-idempotent", RW + "::close_with_header" + tag, loc(ch.raw["span"]), muts and not unguarded, "per-path-effects",
           "mutations %s; not under is_open(): %s" % ([(k, d) for _, k, d, _ in muts], unguarded))
    io = F.body(RW + "::is_open")
    ctx.ob("C12.R2.is-open-reads-file", RW + "::is_open" + tag, loc(io.raw["span"]), m(Call(lambda n: n.endswith("::is_some"), SelfField("file")), io.term_of_local(0)), "term-shape",
           "is_open() = %s" % tstr(io.term_of_local(0)), nontrivial=False)
    c0 = F.body(RW + "::close")
    cw = [t for _, t in c0.calls() if callee_name(t) == RW + "::close_with_header"]
    ctx.ob("C12.R2.close-delegates", RW + "::close" + tag, loc(c0.raw["span"]), len(cw) == 1 and core(c0.term_of_operand(cw[0]["args"][0]))[:2] == ("param", 0) and cw[0]["dest"]["l"] == 0,
           "call-sequence", "close = close_with_header(self, &mut Vec::new())", nontrivial=False)
    for w, close in ((RW, RW + "::close"), (IW, IW + "::close")):
        if not F.has_body("<%s as std::ops::Drop>::drop" % w):
            # the writer has no Drop impl of its own: the fields are dropped one by one, and for the integer writer that is the raw
            # writer's Drop, which knows nothing of the outer header -- "dropping an open writer leaves the same complete file"
            ctx.ob("C12.R2.drop-closes", "<%s as std::ops::Drop>::drop%s" % (w, tag), "src/", False, "must-pass-through", "%s has no Drop impl: an open writer that goes out of scope is not closed by its own close()" % w)
            continue
        d = F.body("<%s as std::ops::Drop>::drop" % w)
        cb = [bi for bi, t in d.calls() if callee_name(t) == close and core(d.term_of_operand(t["args"][0]))[:2] == ("param", 0)]
        # (a path may leave without close() behind a test that the writer is not open: close() does nothing then)
        from guards import edge_facts as _ef
        skip = [v for u, v, f in _ef(d) if f[0] == "bool" and f[2] is False and isinstance(f[1], tuple) and f[1][0] == "call" and f[1][1].split("::")[-1] == "is_open"]
        ctx.ob("C12.R2.drop-closes", d.name + tag, loc(d.raw["span"]), bool(cb) and must_pass_through(d, 0, cb + skip), "must-pass-through", "Drop calls close(self) on every path%s: %s" % (" (or leaves behind !is_open())" if skip else "", bool(cb)))
    # every use of the File goes through self.file.as_mut() (no other access path to the field)
    users = {}
    for b in F.all_bodies():
        for bi, t in b.calls():
            for a in t["args"]:
                if self_path(b.term_of_operand(a)) == ["file"] and F.fns.get(b.name, [{}])[0].get("impl_self") == RW:
                    users.setdefault(b.name, set()).add(callee_name(t).split("::")[-1])
    users = {k: v for k, v in users.items() if not k.endswith("as std::fmt::Debug>::fmt")}
    bad = {k: sorted(v) for k, v in users.items() if not v <= {"as_mut", "is_some", "is_none"}}
    import inline
    ctx.ob("C12.R2.file-only-through-as-mut", RW + tag, "src/raw_vector.rs", (bool(users) and not bad) if not inline.only_new(list(bad)) else None, "who-may-access",
           "accesses to .file: %s; other than as_mut()/is_some(): %s" % ({k: sorted(v) for k, v in users.items()}, bad))

    # ---------------- R2c the file is opened create + write + truncate: whatever was at the path before is gone ("the file left
    # after close() is byte-identical to the serialization" also when a longer file was there)
    for ctor in (RW + "::new", RW + "::with_buf_len"):
        b = F.body(ctor)
        opens = [(bi, t) for bi, t in b.calls() if callee_name(t).startswith("std::fs::OpenOptions::open")]
        creates = [(bi, t) for bi, t in b.calls() if callee_name(t) in ("std::fs::File::create",)]
        if creates and not opens:
            ctx.ob("C12.R2.file-opened-truncating", ctor + tag, loc(creates[0][1]["sp"]), True, "call-chain", "File::create (create + write + truncate)")
            continue
        excl = [(bi, t) for bi, t in b.calls() if callee_name(t) in ("std::fs::File::create_new",)]
        if excl and not opens:
            # O_EXCL: an existing file at the path is an error, where the writer is documented to overwrite it -- no file is left at all
            ctx.ob("C12.R2.file-opened-truncating", ctor + tag, loc(excl[0][1]["sp"]), False, "call-chain",
                   "File::create_new refuses a path at which a file exists (the writer overwrites: create + write + truncate)", positive=True)
            continue
        if len(opens) != 1:
            ctx.ob("C12.R2.file-opened-truncating", ctor + tag, loc(b.raw["span"]), None, "call-chain", "%d OpenOptions::open calls" % len(opens))
            continue
        # option setters applied to the same OpenOptions value, in whatever statement form (chained or one by one)
        setters = {}
        for bi, t in b.calls():
            cn = callee_name(t)
            if cn.startswith("std::fs::OpenOptions::") and cn.split("::")[-1] in ("create", "write", "truncate", "append", "create_new") and len(t["args"]) == 2:
                setters[cn.split("::")[-1]] = core(b.term_of_operand(t["args"][1]))
        on = lambda k: setters.get(k, ("const", 0))[:2] == ("const", 1)
        ok = on("write") and on("create") and on("truncate") and not on("append") and not on("create_new")
        ctx.ob("C12.R2.file-opened-truncating", ctor + tag, loc(opens[0][1]["sp"]), ok, "call-chain",
               "OpenOptions: %s (needed: write, create, truncate; not append)" % {k: tstr(v) for k, v in sorted(setters.items())})
    # ---------------- R2d the writers' own stores into the buffer carry the value only masked to the item width (shared with C05.R2)
    import c05
    from core import Relabel
    c05.check_masked_direct_stores(Relabel(ctx, {"C05.R2.no-unmasked-direct-store": ("C12.R2.no-unmasked-direct-store", lambda k: "Writer" in k)}), F, tag, "C05.R2")
    # ---------------- R3 counters
    for fn, width_term, pushname in (("<raw_vector::RawVectorWriter as raw_vector::PushRaw>::push_bit", Const(1), "push_bit"),
                                     ("<raw_vector::RawVectorWriter as raw_vector::PushRaw>::push_int", Param(2), "push_int")):
        b = F.body(fn)
        st_len = field_store_blocks(b, RW, "len")
        pb = [(bi, t) for bi, t in b.calls() if callee_name(t).endswith("::" + pushname) and self_path(b.term_of_operand(t["args"][0])) == ["buf"]]
        ok = len(st_len) == 1 and len(pb) == 1
        detail = "%d stores to len, %d pushes into buf" % (len(st_len), len(pb))
        if ok:
            v = b.term_of_rvalue(st_len[0][2]["rv"])
            okv = m(Bin("Add", SelfField("len"), width_term), v)
            okw = True
            if pushname == "push_int":
                okw = core(b.term_of_operand(pb[0][1]["args"][2]))[:2] == ("param", 2) and core(b.term_of_operand(pb[0][1]["args"][1]))[:2] == ("param", 1)
            ok = okv and okw and comutated(b, st_len[0][0], [pb[0][0]]) and comutated(b, pb[0][0], [st_len[0][0]])
            detail = "len := %s together with buf.%s(..same width..): %s" % (tstr(v), pushname, ok)
        if not ok:
            # bits that enter the buffer by direct stores (a fast path that bypasses buf.push_*): a construction this rule cannot pair
            direct = [st for bi, si, st in b.stmts() if st["s"] == "assign" and st["lhs"]["p"] and
                      any(isinstance(e, dict) and e.get("name") == "buf" for e in st["lhs"]["p"])]
            if direct:
                ok = None
                detail += "; the buffer is also written by %d direct store(s)" % len(direct)
        ctx.ob("C12.R3.len-counts-pushed-bits", fn + tag, loc(b.raw["span"]), ok, "co-mutation+term", detail)
        fl = [(bi, t) for bi, t in b.calls() if callee_name(t) == RW + "::flush"]
        okt = len(fl) == 1
        if okt:
            fs = facts_at(b, fl[0][0])
            okt = any(f[0] == "cmp" and f[1] == "Ge" and m(Call(lambda n: n.endswith("::len"), SelfField("buf")), f[2]) and m(SelfField("buf_len"), f[3]) for f in fs)
            mode = core(b.term_of_operand(fl[0][1]["args"][1]))
            okt = okt and mode[0] == "adt" and mode[2] == "Safe"
        ctx.ob("C12.R3.flush-trigger", fn + tag, loc(b.raw["span"]), okt, "guard-dominance", "flush(Safe) exactly when buf.len() >= buf_len: %s" % okt)
    # "for every item width": the item writer's constructors admit exactly the widths the in-memory vector admits (1..=64)
    import c09
    c09.check_width_predicate(ctx, F, tag, "C12.R4", only=("int_vector::IntVectorWriter::new", "int_vector::IntVectorWriter::with_buf_len"))
    b = F.body("<int_vector::IntVectorWriter as ops::Push>::push")
    st_len = field_store_blocks(b, IW, "len")
    pb = [(bi, t) for bi, t in b.calls() if callee_name(t).endswith("::push_int") and self_path(b.term_of_operand(t["args"][0])) == ["writer"]]
    ok = len(st_len) == 1 and len(pb) == 1 and m(Bin("Add", SelfField("len"), Const(1)), b.term_of_rvalue(st_len[0][2]["rv"])) and \
        m(Call(lambda n: n.endswith("::width"), Param(0)), b.term_of_operand(pb[0][1]["args"][2])) and comutated(b, st_len[0][0], [pb[0][0]])
    ctx.ob("C12.R3.int-len-counts-items", b.name + tag, loc(b.raw["span"]), ok, "co-mutation+term", "len += 1 together with writer.push_int(value, self.width()): %s" % ok)
    # ... and nowhere else: any other method of the item writer that pushes into the raw writer directly counts each push the same way
    for ob in F.all_bodies():
        if ob.name == b.name:
            continue
        raw = [(bi, t) for bi, t in ob.calls() if callee_name(t).endswith("::push_int") and self_path(ob.term_of_operand(t["args"][0])) == ["writer"] and
               ob.local_ty(1).replace("&mut ", "").startswith("int_vector::IntVectorWriter")]
        if not raw:
            continue
        lens = field_store_blocks(ob, IW, "len")
        for bi, t in raw:
            good = [x for x in lens if m(Bin("Add", SelfField("len"), Const(1)), ob.term_of_rvalue(x[2]["rv"])) and comutated(ob, bi, [x[0]]) and
                    (x[0] in ob.loop_blocks()) == (bi in ob.loop_blocks())]
            ctx.ob("C12.R3.int-len-counts-items", ob.name + tag, loc(t["sp"]), bool(good), "co-mutation+term", positive=True, detail=
                   "direct writer.push_int in %s is paired with len += 1 on the same path and in the same loop: %s" % (ob.name, bool(good)))
    # buf_len at the constructors
    dflt = F.const(RW + "::DEFAULT_BUFFER_SIZE")
    for ctor in (RW + "::new", RW + "::with_buf_len"):
        b = F.body(ctor)
        aggs = [st for bi, si, st in b.stmts() if st["s"] == "assign" and st["rv"]["r"] == "agg" and st["rv"].get("def") == RW]
        ok = len(aggs) == 1
        detail = "no aggregate"
        if not aggs:
            # one constructor delegating to the other with a constant buffer length: a positive multiple of 64
            deleg = [t for _, t in b.calls() if callee_name(t) in (RW + "::new", RW + "::with_buf_len") and callee_name(t) != ctor]
            if len(deleg) == 1:
                from pat import fold_consts
                blc = core(fold_consts(b.term_of_operand(deleg[0]["args"][-1])))
                ok = blc[0] == "const" and isinstance(blc[1], int) and blc[1] > 0 and blc[1] % 64 == 0
                detail = "delegates to %s with buf_len = %s" % (callee_name(deleg[0]).split("::")[-1], tstr(blc))
                ctx.ob("C12.R3.buf-len-multiple-of-64", ctor + tag, loc(b.raw["span"]), ok, "term-shape+constant", detail)
                continue
        if ok:
            ops = dict(zip(aggs[0]["rv"]["fields"], aggs[0]["rv"]["ops"]))
            bl = core(b.term_of_operand(ops["buf_len"]))
            if bl[0] == "const":
                ok = bl[1] == dflt and dflt > 0 and dflt % 64 == 0
            else:
                from guards import is_max_name
                ok = m(Call(is_max_name, Call("bits::round_up_to_word_bits", ANY), Const(64)), bl) or m(Call(is_max_name, Const(64), Call("bits::round_up_to_word_bits", ANY)), bl)
                if not ok:
                    # written differently: the same function of the requested size for every size (A13), e.g.
                    # `n.next_multiple_of(64).max(64)`; `n.next_multiple_of(64)` alone is refuted at n = 0
                    import residues
                    wp = [i for i in range(b.nargs) if b.local_name(i + 1) == "buf_len"]
                    if wp:
                        r_, why = residues.agrees(F, bl, lambda x: x[:2] == ("param", wp[0]),
                                                  lambda N: residues.call("std::cmp::max", residues.call("bits::round_up_to_word_bits", N), ("const", 64)))
                        ok = bool(r_)
                        sem_bl = why
                        pos_bl = r_ is False
            ln = b.term_of_operand(ops["len"])
            fl = core(b.term_of_operand(ops["file"]))
            ok = ok and m(Const(0), ln) and fl[0] == "adt" and fl[2] == "Some"
            detail = "buf_len = %s (positive multiple of 64), len = %s, file = Some(..) %s" % (tstr(bl)[:80], tstr(ln), locals().get("sem_bl", ""))
        ctx.ob("C12.R3.buf-len-multiple-of-64", ctor + tag, loc(b.raw["span"]), ok, "term-shape+constant", detail, positive=bool(locals().get("pos_bl")) and not ok)
        sem_bl, pos_bl = "", False
    # flush: after the buffer body was written successfully it is cleared on every path
    fb = F.body(RW + "::flush")
    sites = try_sites(fb)
    sb = [s for s in sites if s["src_local"] is not None and m(Call("serialize::Serialize::serialize_body", SelfField("buf"), ANY), fb.term_of_local(s["src_local"]))]
    clears = [bi for bi, t in fb.calls() if callee_name(t).endswith("::clear") and self_path(fb.term_of_operand(t["args"][0])) == ["buf"]]
    ok = len(sb) == 1 and sb[0]["cont_block"] is not None and bool(clears) and must_pass_through(fb, sb[0]["cont_block"], clears)
    ctx.ob("C12.R3.flushed-buffer-cleared", RW + "::flush" + tag, loc(fb.raw["span"]), ok, "must-pass-through", "buf.serialize_body(file)? then buf.clear() on every path: %s" % ok)
    pi = [(bi, t) for bi, t in fb.calls() if callee_name(t).endswith("::push_int") and self_path(fb.term_of_operand(t["args"][0])) == ["buf"]]
    ok = len(pi) == 1 and bool(clears) and all(fb.dominates(c, pi[0][0]) for c in clears[:1])
    pair_form = False
    if ok:
        v, w = core(fb.term_of_operand(pi[0][1]["args"][1])), core(fb.term_of_operand(pi[0][1]["args"][2]))
        pair_form = v[0] == "field" and w[0] == "field" and v[1] == w[1] and (v[2], w[2]) == ("0", "1")
        # ... or the saved pair resolved to what it was saved from: value = buf.int(buf_len, width), width = buf.len() - buf_len
        direct_form = v[0] == "call" and v[1].endswith("::int") and len(v[2]) == 3 and core(v[2][2]) == w and \
            m(Bin("Sub", Call(lambda n: n.endswith("::len"), SelfField("buf")), SelfField("buf_len")), w)
        ok = pair_form or direct_form
    guard_ok = False
    guard_detail = "no guard"
    if ok:
        # the push-back happens whenever the saved width is non-zero: its guard tests the width component, never the value
        fs = facts_at(fb, pi[0][0])
        if pair_form:
            on_width = [f for f in fs if f[0] == "cmp" and core(f[2])[0] == "field" and core(f[2])[1] == v[1] and core(f[2])[2] == "1" and f[1] in ("Gt", "Ne") and m(Const(0), f[3])]
            on_value = [f for f in fs if f[0] == "cmp" and any(x[0] == "field" and x[1] == v[1] and x[2] == "0" for x in list(subterms(f[2])) + list(subterms(f[3])))]
        else:
            from guards import fact_nonzero
            on_width = [1] if fact_nonzero(fs, w) or any(f[0] == "cmp" and f[1] == "Gt" and m(Call(lambda n: n.endswith("::len"), SelfField("buf")), f[2]) and m(SelfField("buf_len"), f[3]) for f in fs) else []
            on_value = [f for f in fs if f[0] == "cmp" and any(core(x) == v for x in list(subterms(f[2])) + list(subterms(f[3])))]
        guard_ok = bool(on_width) and not on_value
        guard_detail = "guards on the saved pair: width component %d, value component %d" % (len(on_width), len(on_value))
    ctx.ob("C12.R3.overflow-carried-back", RW + "::flush" + tag, loc(fb.raw["span"]), ok and guard_ok, "term-shape+dominance",
           "after clear(), the saved overflow (value, width) pair is pushed back: %s; pushed back exactly when width > 0: %s (%s)" % (ok, guard_ok, guard_detail))
