"""Extraction of the serialization structure of every `Serialize` impl: what serialize_header/serialize_body write,
what load reads, what size_in_elements sums. Shared by C06, C07, C12, C13, C19."""
from facts import Undecided, loc, tstr, callee_name, callee_written, subterms, operand_place
from guards import try_sites, ok_blocks, must_pass_through, strip_casts

TRAIT = "serialize::Serialize"
W_METHODS = {"serialize::Serialize::serialize": "serialize",
             "serialize::Serialize::serialize_header": "serialize_header",
             "serialize::Serialize::serialize_body": "serialize_body"}
LOAD = "serialize::Serialize::load"
SIZE = "serialize::Serialize::size_in_elements"
FLOOR_IMPLS = 14


def serialize_impls(F):
    out = []
    for im in F.impls_of(TRAIT):
        fns = {}
        for it in im["items"]:
            if it["kind"].lower().startswith("fn") or it["kind"] in ("Fn", "AssocFn") or True:
                if F.has_body(it["def"]):
                    fns[it["name"]] = F.body(it["def"])
        out.append({"impl": im, "self": im["self_ty"]["s"], "self_def": im["self_ty"].get("def"), "fns": fns,
                    "item_names": sorted(i["name"] for i in im["items"])})
    return out


def self_path(t):
    """If t denotes (a reference to) a field path of *self, returns the list of field names, else None."""
    path = []
    while True:
        if t[0] in ("ref", "deref"):
            t = t[1]
        elif t[0] == "field":
            path.append(t[2])
            t = t[1]
        else:
            break
    if t[0] == "param" and t[1] == 0:
        return list(reversed(path))
    return None


def avoid_blocks(b):
    """Blocks that are not on a success path: `?` break arms and blocks that build an Err."""
    av = set()
    for s in try_sites(b):
        if s["break_block"] is not None:
            av.add(s["break_block"])
    for bi, si, st in b.stmts():
        if st["s"] == "assign" and st["rv"]["r"] == "agg" and st["rv"].get("agg") == "adt" and st["rv"].get("vname") == "Err" \
                and st["rv"]["def"] == "std::result::Result":
            av.add(bi)
    return av


def rpo(b):
    seen = set()
    order = []

    def dfs(x):
        seen.add(x)
        for s in reversed(b.succ(x)):
            if s not in seen:
                dfs(s)
        order.append(x)
    import sys
    sys.setrecursionlimit(10000)
    dfs(0)
    order.reverse()
    return {blk: i for i, blk in enumerate(order)}


def modifier(b, block, avoid):
    if block in b.loop_blocks():
        return "loop"
    rets = b.return_blocks()
    reach = b.reach_from([0], avoid=set(avoid) | {block})
    if any(r in reach for r in rets):
        return "cond"
    return "once"


def write_seq(b):
    av = avoid_blocks(b)
    order = rpo(b)
    items = []
    for bi, t in b.calls():
        w = callee_written(t)
        if w not in W_METHODS or bi in av:
            continue
        recv = b.term_of_operand(t["args"][0])
        items.append({"method": W_METHODS[w], "recv": recv, "path": self_path(recv), "ty": t["callee"].get("self_ty", {}).get("s", "?"),
                      "mod": modifier(b, bi, av), "block": bi, "sp": t["sp"], "writer": b.term_of_operand(t["args"][1])})
    items.sort(key=lambda x: order.get(x["block"], 1 << 30))
    return items


def load_seq(b):
    av = avoid_blocks(b)
    order = rpo(b)
    items = []
    sites = try_sites(b)
    for bi, t in b.calls():
        if callee_written(t) != LOAD or bi in av:
            continue
        payload = None
        if not t["dest"]["p"]:
            for s in sites:
                if s["src_local"] == t["dest"]["l"]:
                    payload = s["payload_local"]
        if payload is None and not t["dest"]["p"]:
            # no `?` on this load: the Ok payload taken by a match on the result (`V::load(reader).map(..)` written out)
            outs = [st["lhs"]["l"] for _, _, st in b.stmts() if st["s"] == "assign" and not st["lhs"]["p"] and st["rv"]["r"] == "use" and
                    (operand_place(st["rv"]["o"]) or {}).get("l") == t["dest"]["l"] and
                    [e.get("name") for e in (operand_place(st["rv"]["o"]) or {}).get("p", []) if isinstance(e, dict) and "down" in e] == ["Ok"]]
            if len(outs) == 1:
                payload = outs[0]
        items.append({"ty": t["callee"].get("self_ty", {}).get("s", "?"), "mod": modifier(b, bi, av), "block": bi, "sp": t["sp"],
                      "payload": payload, "dest": t["dest"]["l"] if not t["dest"]["p"] else None})
    items.sort(key=lambda x: order.get(x["block"], 1 << 30))
    return items


def size_items(b):
    order = rpo(b)
    items = []
    for bi, t in b.calls():
        if callee_written(t) != SIZE:
            continue
        recv = b.term_of_operand(t["args"][0])
        items.append({"recv": recv, "path": self_path(recv), "ty": t["callee"].get("self_ty", {}).get("s", "?"),
                      "mod": "loop" if bi in b.loop_blocks() else modifier(b, bi, set()), "block": bi, "sp": t["sp"],
                      "dest": t["dest"]["l"] if not t["dest"]["p"] else None})
    items.sort(key=lambda x: order.get(x["block"], 1 << 30))
    return items


def arithmetic_ops(b):
    """All binary arithmetic rvalues of a body: list of (op, term_a, term_b, block)."""
    out = []
    for bi, si, st in b.stmts():
        if st["s"] == "assign" and st["rv"]["r"] == "bin":
            op = st["rv"]["op"]
            if op.endswith("WithOverflow"):
                op = op[:-len("WithOverflow")]
            if op in ("Add", "Sub", "Mul", "Div", "Rem", "Shl", "Shr", "BitAnd", "BitOr", "BitXor"):
                out.append((op, b.term_of_operand(st["rv"]["a"]), b.term_of_operand(st["rv"]["b"]), bi))
    return out


def describe(items):
    return ["%s%s:%s" % ({"once": "", "loop": "*", "cond": "?"}[i["mod"]], ".".join(i["path"]) if i.get("path") else tstr(i.get("recv", ("?",)))[:40],
                          i["ty"]) for i in items]


def subst_params(t, args):
    """Rewrites a callee-vocabulary term into the caller's: ('param', i, _) -> args[i]."""
    if not isinstance(t, tuple) or not t:
        return t
    if isinstance(t[0], str):
        if t[0] == "param" and t[1] < len(args):
            return args[t[1]]
        if t[0] == "call":
            return (t[0], t[1], tuple(subst_params(x, args) for x in t[2])) + t[3:]
        if t[0] == "adt":
            return t[:4] + (tuple(subst_params(x, args) for x in t[4]),)
        return tuple(subst_params(x, args) if isinstance(x, tuple) else x for x in t)
    return tuple(subst_params(x, args) for x in t)


def effective_calls(F, b, pred, depth=1):
    """Calls matching `pred` made by `b` directly or through a crate-local helper it calls (one level, arguments substituted).
    Each: {name, args, facts, mod, order, sp, via}. `facts` are the comparison facts guarding the call, in b's vocabulary."""
    from guards import facts_at
    av = avoid_blocks(b)
    order = rpo(b)
    out = []
    for bi, t in b.calls():
        if bi in av:
            continue
        n = callee_name(t)
        w = callee_written(t)
        args = [b.term_of_operand(a) for a in t["args"]]
        if pred(n) or pred(w):
            out.append({"name": n, "args": args, "facts": facts_at(b, bi), "mod": modifier(b, bi, av), "order": (order.get(bi, 1 << 30), 0), "sp": t["sp"], "via": None})
        elif depth > 0 and F.has_body(n) and not t["callee"].get("trait") and n != b.name:
            cb = F.body(n)
            outer_mod = modifier(b, bi, av)
            outer_facts = facts_at(b, bi)
            for e in effective_calls(F, cb, pred, depth - 1):
                facts = list(outer_facts) + [tuple(subst_params(x, args) if isinstance(x, tuple) else x for x in f) for f in e["facts"]]
                mod = e["mod"] if outer_mod == "once" else outer_mod
                out.append({"name": e["name"], "args": [subst_params(a, args) for a in e["args"]], "facts": facts, "mod": mod,
                            "order": (order.get(bi, 1 << 30), e["order"]), "sp": e["sp"], "via": n})
    out.sort(key=lambda x: (x["order"][0], str(x["order"][1])))
    return out
