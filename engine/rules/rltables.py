"""Run-length vector: the sample table and the three sample indexes are written by one site and read by several.

`RLBuilder` keeps one `(a, b)` tuple per block; `From<RLBuilder>` interleaves the tuples into `samples` and builds three
`SampleIndex`es from closures over the tuples; `load` rebuilds the same three indexes from closures over the interleaved
vector (they are not serialized); `iter_for_bit / iter_for_one / iter_for_zero` narrow a search with one index and then
binary-search the interleaved vector through a closure of their own.  Every one of these sites names a *component* of the
sample pair (first, second, second - first).  The rule decides that all sites naming the same index agree on the component
and on the universe the index is built for:

    index field          component at From   component at load   component at the reader   universe at From / load

A disagreement (load building `rank_index` from the first component, a reader searching the second component inside a range
narrowed by the first) leaves every small vector intact -- with at most `SampleIndex::RATIO` blocks the index has a single
sample -- which is why no test sees it.
"""
from facts import Undecided, loc, tstr, callee_name, subterms, operand_place
from guards import strip_casts
from serfmt import rpo

FROM = "<rl_vector::RLVector as std::convert::From<rl_vector::RLBuilder>>::from"
LOAD = "<rl_vector::RLVector as serialize::Serialize>::load"
READERS = ["rl_vector::RLVector::iter_for_bit", "rl_vector::RLVector::iter_for_one", "rl_vector::RLVector::iter_for_zero"]
INDEX_NEW = "rl_vector::index::SampleIndex::new"
INDEX_RANGE = "rl_vector::index::SampleIndex::range"
FIELDS = ("rank_index", "select_index", "select_zero_index")


def peel(t):
    while isinstance(t, tuple) and t and t[0] in ("ref", "deref", "cast"):
        t = t[1]
    return t


def closure_of(t):
    for x in subterms(t):
        if x[0] == "closure" and len(x) > 2:
            return x[2]
    return None


def parity(idx):
    """2*i -> 0, 2*i + 1 -> 1 (either operand order)."""
    idx = peel(idx)

    def is_double(x):
        x = peel(x)
        if x[0] == "bin" and x[1] == "Mul":
            a, b = peel(x[2]), peel(x[3])
            return (a[0] == "const" and a[1] == 2) or (b[0] == "const" and b[1] == 2)
        if x[0] == "bin" and x[1] == "Shl":
            b = peel(x[3])
            return b[0] == "const" and b[1] == 1
        return False
    if is_double(idx):
        return 0
    if idx[0] == "bin" and idx[1] == "Add":
        a, b = peel(idx[2]), peel(idx[3])
        if is_double(a) and b[0] == "const" and b[1] == 1:
            return 1
        if is_double(b) and a[0] == "const" and a[1] == 1:
            return 1
    if idx[0] == "bin" and idx[1] == "BitOr":
        a, b = peel(idx[2]), peel(idx[3])
        if is_double(a) and b[0] == "const" and b[1] == 1:
            return 1
    return None


def component(t, interleave):
    """Component of the sample pair denoted by a closure's return term: 0, 1, ('sub', x, y) or None.
    interleave: parity -> tuple field (None for closures over the builder's tuples)."""
    t = peel(t)
    if t[0] == "field" and t[2] in ("0", "1") and interleave is None:
        return int(t[2])
    if t[0] == "call" and t[1].endswith("::get") and "IntVector" in t[1] and interleave is not None and len(t[2]) == 2:
        p = parity(t[2][1])
        return interleave.get(p) if p is not None else None
    if t[0] == "bin" and t[1] == "Sub":
        a, b = component(t[2], interleave), component(t[3], interleave)
        return ("sub", a, b) if a is not None and b is not None else None
    if t[0] == "call" and (t[1].endswith("Sub>::sub") or t[1].endswith("::sub")) and len(t[2]) == 2:
        a, b = component(t[2][0], interleave), component(t[2][1], interleave)
        return ("sub", a, b) if a is not None and b is not None else None
    return None


def closure_component(F, cdef, interleave):
    if cdef is None or not F.has_body(cdef):
        return None
    return component(F.body(cdef).term_of_local(0), interleave)


def cname(c):
    if c is None:
        return "?"
    if isinstance(c, tuple):
        return "%s - %s" % (cname(c[1]), cname(c[2]))
    return ("first", "second")[c]


def aggregate(b):
    aggs = [(bi, st) for bi, si, st in b.stmts() if st["s"] == "assign" and st["rv"]["r"] == "agg" and st["rv"].get("def") == "rl_vector::RLVector"]
    if len(aggs) != 1:
        raise Undecided("anchor lost: %s builds %d RLVector values" % (b.name, len(aggs)))
    st = aggs[0][1]
    return {f: o for f, o in zip(st["rv"]["fields"], st["rv"]["ops"])}


def root(b, o, limit=16):
    """Local an operand is a plain copy / integer cast of."""
    p = operand_place(o)
    if p is None or p["p"]:
        return None
    l = p["l"]
    while limit > 0:
        limit -= 1
        ds = b.defs().get(l, [])
        whole = [d for d in ds if d[2] in ("assign", "call")]
        if len(whole) != 1 or whole[0][2] != "assign":
            return l
        rv = whole[0][3]
        if rv["r"] == "use" or (rv["r"] == "cast" and rv.get("kind") == "IntToInt"):
            q = operand_place(rv["o"])
            if q is not None and not q["p"]:
                l = q["l"]
                continue
        return l
    return l


def stateful(t):
    """Does the term contain a call that consumes an input stream (two such calls are different values with equal terms)?"""
    return any(x[0] == "call" and x[1].endswith("Serialize>::load") for x in subterms(t))


def same_value(b, o1, o2):
    r1, r2 = root(b, o1), root(b, o2)
    if r1 is not None and r1 == r2:
        return True
    t1, t2 = peel(b.term_of_operand(o1)), peel(b.term_of_operand(o2))
    return t1 == t2 and not stateful(t1)


def universe_class(b, uo, agg):
    """LEN / ONES / ZEROS relative to the values stored in the `len` and `ones` fields of the value being built."""
    if same_value(b, uo, agg["len"]):
        return "LEN"
    if same_value(b, uo, agg["ones"]):
        return "ONES"
    r = root(b, uo)
    ds = [d for d in b.defs().get(r, []) if d[2] in ("assign", "call")] if r is not None else []
    if len(ds) == 1 and ds[0][2] == "assign" and ds[0][3]["r"] == "use":
        q = operand_place(ds[0][3]["o"])          # `_r = move (_t.0)` with `_t = SubWithOverflow(a, b)`
        if q is not None and len(q["p"]) == 1 and str(q["p"][0].get("f")) == "0":
            ds = [d for d in b.defs().get(q["l"], []) if d[2] in ("assign", "call")]
    if len(ds) == 1 and ds[0][2] == "assign" and ds[0][3]["r"] == "bin" and ds[0][3]["op"].startswith("Sub"):
        if same_value(b, ds[0][3]["a"], agg["len"]) and same_value(b, ds[0][3]["b"], agg["ones"]):
            return "ZEROS"
    t = peel(b.term_of_operand(uo))
    L = peel(b.term_of_operand(agg["len"]))
    if t[0] == "call" and t[1].split("::")[-1] == "count_zeros" and len(t[2]) == 1 and L[0] == "call" and len(L[2]) == 1 and peel(t[2][0]) == peel(L[2][0]) and not stateful(t):
        return "ZEROS"
    return None


def check_every_slot_written(ctx, F, tag, prefix):
    """SampleIndex::new fills `samples[1..]` in a loop over the slot numbers; a slot's value is the running offset, also when no
    value fell into the slot's interval.  Every iteration of that loop must therefore pass the store: with the store moved into the
    inner scan (executed only when a value is consumed) the slots of empty intervals keep their initial 0, `range()` returns an
    inverted range and every query in a gap fails.  Decided on the CFG: without the store's blocks the loop head is on no cycle."""
    if not F.has_body(INDEX_NEW):
        return
    b = F.body(INDEX_NEW)
    heads = [bi for bi, t in b.calls() if "ops::Range<" in callee_name(t) and callee_name(t).split("::")[-1] == "next" and bi in b.loop_blocks()]
    sets = [bi for bi, t in b.calls() if callee_name(t).split("::")[-1] == "set" and "IntVector" in callee_name(t)]
    ok = None
    detail = "loop heads over slot numbers: %d, stores into the sample vector: %d" % (len(heads), len(sets))
    if len(heads) == 1 and sets:
        h = heads[0]
        seen, st, back = set(), [x for x in b.succ(h) if x not in sets], False
        while st:
            x = st.pop()
            if x == h:
                back = True
                break
            if x in seen or x in sets:
                continue
            seen.add(x)
            st.extend(b.succ(x))
        ok = not back
        detail += "; an iteration of the slot loop can complete without a store: %s" % back
    ctx.ob(prefix + ".every-sample-slot-written", INDEX_NEW + tag, loc(b.raw["span"]), ok, "must-pass-through", detail)


def check_tables(ctx, F, tag, prefix):
    check_every_slot_written(ctx, F, tag, prefix)
    check_decode_reaches_every_value(ctx, F, tag, prefix)
    fb, lb = F.body(FROM), F.body(LOAD)
    # interleaving order: the k-th push per loop iteration in From stores tuple field inter[k]
    order = rpo(fb)
    pushes = sorted([(order.get(bi, 1 << 30), t) for bi, t in fb.calls() if callee_name(t).endswith("Push>::push") and bi in fb.loop_blocks()], key=lambda x: x[0])
    inter = {}
    for k, (_, t) in enumerate(pushes):
        v = peel(fb.term_of_operand(t["args"][1]))
        if v[0] == "field" and v[2] in ("0", "1"):
            inter[k] = int(v[2])
    ok_inter = len(pushes) == 2 and sorted(inter.values()) == [0, 1]
    if not pushes:
        ok_inter = None      # the samples are not pushed in a loop (collected from an iterator, ..): the order cannot be read off here
    ctx.ob(prefix + ".samples-interleaved", FROM + tag, loc(fb.raw["span"]), ok_inter, "sequence-shape",
           "From<RLBuilder> pushes both components of every sample tuple, one after the other: position -> component %s" % {k: cname(v) for k, v in inter.items()})
    if not ok_inter:
        return
    table = {}
    for site, b, il in (("From", fb, None), ("load", lb, inter)):
        agg = aggregate(b)
        for f in FIELDS:
            r = root(b, agg[f])
            calls = [t for bi, t in b.calls() if not t["dest"]["p"] and t["dest"]["l"] == r and callee_name(t).startswith(INDEX_NEW)]
            if len(calls) != 1 or len(calls[0]["args"]) != 2:
                raise Undecided("anchor lost: %s.%s is not the result of one SampleIndex::new(..) call in %s" % ("RLVector", f, b.name))
            comp = closure_component(F, closure_of(b.term_of_operand(calls[0]["args"][0])), il)
            uni = universe_class(b, calls[0]["args"][1], agg)
            table.setdefault(f, {})[site] = (comp, uni)
    for rn in READERS:
        b = F.body(rn)
        rng = [t for bi, t in b.calls() if callee_name(t) == INDEX_RANGE]
        bf = [t for bi, t in b.calls() if callee_name(t) == "rl_vector::RLVector::block_for"]
        if len(rng) != 1 or len(bf) != 1:
            raise Undecided("anchor lost: %s has %d SampleIndex::range and %d block_for calls" % (rn, len(rng), len(bf)))
        recv = peel(b.term_of_operand(rng[0]["args"][0]))
        f = recv[2] if recv[0] == "field" else None
        comp = closure_component(F, closure_of(b.term_of_operand(bf[0]["args"][3])), inter)
        # the narrowed range feeds the search: block_for(range.start, range.end, ..)
        lo, hi = peel(b.term_of_operand(bf[0]["args"][0])), peel(b.term_of_operand(bf[0]["args"][1]))
        fed = lo[0] == "field" and lo[2] == "start" and hi[0] == "field" and hi[2] == "end" and peel(lo[1]) == peel(hi[1]) and peel(lo[1])[0] == "call" and peel(lo[1])[1] == INDEX_RANGE
        same_key = peel(b.term_of_operand(rng[0]["args"][1])) == peel(b.term_of_operand(bf[0]["args"][2]))
        if f in table:
            table[f][rn.split("::")[-1]] = (comp, None)
        ctx.ob(prefix + ".reader-searches-narrowed-range", rn + tag, loc(b.raw["span"]), f in FIELDS and fed and same_key, "term-provenance",
               "block_for searches [%s.range(x).start, .end) for the same x: index %s, range fed %s, same key %s" % (f, f, fed, same_key))
        ctx.count("rl-index-readers" + tag)
    for f in FIELDS:
        row = table[f]
        comps = {k: v[0] for k, v in row.items()}
        unis = {k: v[1] for k, v in row.items() if v[1] is not None or k in ("From", "load")}
        okc = None not in comps.values() and len(set(comps.values())) == 1 and len(comps) >= 3
        if None in comps.values() and len(set(v for v in comps.values() if v is not None)) <= 1:
            okc = None      # a site whose closure the rule cannot read (a named closure, a helper): undecided; two readable sites that disagree are refuted
        oku = None not in unis.values() and len(set(unis.values())) == 1
        ctx.ob(prefix + ".index-component-agrees", "RLVector.%s%s" % (f, tag), loc(lb.raw["span"]), okc, "table-agreement",
               "sample component per site: %s" % {k: cname(v) for k, v in comps.items()})
        ctx.ob(prefix + ".index-universe-agrees", "RLVector.%s%s" % (f, tag), loc(lb.raw["span"]), oku, "table-agreement",
               "universe per site: %s" % unis)
        ctx.count("rl-index-fields" + tag)
    # the three indexes use three different components / universes (a copy-paste makes two rows equal)
    rows = [table[f]["From"] for f in FIELDS]
    ctx.ob(prefix + ".indexes-distinct", "RLVector" + tag, loc(fb.raw["span"]), len(set(rows)) == 3 and None not in [r[0] for r in rows], "table-agreement",
           "From rows: %s" % [(cname(c), u) for c, u in rows])
    ctx.floor("rl-index-fields" + tag, 3)
    ctx.floor("rl-index-readers" + tag, 3)


DECODE = "rl_vector::RLVector::decode"


def check_decode_reaches_every_value(ctx, F, tag, prefix):
    """A gap or run length is a usize written as units of CODE_SHIFT data bits with a continuation flag; the decoder follows the
    flags.  On the pinned tree its loop has no other bound.  A counted loop ("stop after k units so that corrupted flags cannot
    overflow the shift") must still admit every value the encoder can write: k * CODE_SHIFT >= 64.  With k = 64 / CODE_SIZE = 16
    (unit size for data bits) every length of 2^48 or more is cut off and the rest of the block is read out of step."""
    if not F.has_body(DECODE):
        return
    b = F.body(DECODE)
    try:
        shift = F.const("rl_vector::RLVector::CODE_SHIFT")
    except Undecided:
        return
    heads = [(bi, t) for bi, t in b.calls() if "ops::Range<" in callee_name(t) and callee_name(t).split("::")[-1] == "next" and bi in b.loop_blocks()]
    if not heads:
        ctx.ob(prefix + ".decode-reaches-every-value", DECODE + tag, loc(b.raw["span"]), True, "loop-bound",
               "the decoding loop has no iteration bound: it ends at the first unit without the continuation flag")
        return
    ok = True
    detail = []
    for bi, t in heads:
        end = None
        for x in subterms(b.term_of_operand(t["args"][0])):
            if x[0] == "adt" and x[1] == "std::ops::Range" and len(x) > 4:
                from pat import fold_consts
                st_, en_ = peel(fold_consts(x[4][0])), peel(fold_consts(x[4][1]))
                if st_[:2] == ("const", 0) and en_[0] == "const" and isinstance(en_[1], int):
                    end = en_[1]
        if end is None:
            ok = None if ok else ok
            detail.append("bound not a constant")
        else:
            detail.append("%d units * %d bits = %d" % (end, shift, end * shift))
            if end * shift < 64:
                ok = False
    ctx.ob(prefix + ".decode-reaches-every-value", DECODE + tag, loc(b.raw["span"]), ok, "loop-bound",
           "counted decoding loop: %s (every usize needs up to ceil(64 / %d) = %d units)" % ("; ".join(detail), shift, -(-64 // shift)), positive=(ok is False))
