"""C10 -- iterators (narrow, structural part).

 R1 exact-size coherence: for every ExactSizeIterator, size_hint() = (r, Some(r)) with r = L - N, and next/next_back/nth/nth_back
    change r by exactly one (resp. n + 1) on every path that yields an item and leave it (or exhaust it) on every None path
 R2 fused: a None path never moves the counters except to exhaustion
 R3 nth/nth_back clamp (= C09 on the iterator entry points); bit_vector::Iter and ops::AccessIter are twins
 R4 cursor provenance (= C08.R4)
"""
from facts import Undecided, loc, tstr, callee_name, callee_written, subterms, operand_place
from guards import facts_at, must_pass_through, strip_casts, is_min_name
from effects import rooted_mut_refs, store_path
from pat import m, Bind, ANY, Call, Bin, Const, Param, SelfField, core, self_path
import twins
import c08
import c09

META = {
    "level": "other",
    "technique": "static analysis: per-path effect analysis of iterator methods against their size_hint formula, MIR twin isomorphism, raw-value propagation for nth, value provenance of two-ended cursor candidates, conditional-advance atomicity, scan-iterator hand-on dataflow (MIR, rustc_private driver; bodies normalised by helper inlining and combinator expansion)",
    "explanation": "size_hint of each of the 11 ExactSizeIterator types is reduced to r = L - N (two field paths or a getter of the parent). "
                   "In next/next_back/nth/nth_back every store that can change N or L is classified (+1, -1, +n+1, clamp, to-limit, other); "
                   "every CFG path to a `Some` return must contain exactly one counting store outside any loop, every path to `None` none "
                   "(or exhaustion). nth's argument is bounded before use (C09), the two index iterators are MIR twins, and set-bit cursors "
                   "are built only from (rank, select(rank)) pairs. That the yielded items are the reference sequence is not decided.",
    "trusted_base": ["rustc's MIR faithfully represents the source"],
    "assumptions": [],
}

FLOOR_EXACT = 11
# Fused but not exact-size: (N path, L getter) used for R2 only
FUSED_EXTRA = {"wavelet_matrix::ValueIter": (["rank"], None)}
REVIEWED_FUSED = {"rl_vector::RunIter": "RunIter::advance_if returns None only at or past the end of the encoding (offset >= data.len(), or the block index reached blocks()); block arithmetic, not decided statically"}


def check(ctx):
    configs = ["native"] if ctx.tier == "quick" else ["native", "portable", "native-rel", "portable-rel"]
    for cfg in configs:
        check_config(ctx, ctx.facts(cfg), "" if cfg == "native" else "@" + cfg, cfg)
    if ctx.tier == "thorough":
        import poscontrol
        poscontrol.run(ctx, "C10")


def project(t, names):
    t = core(t) if t[0] in ("ref", "deref", "cast") else t
    for nme in names:
        if t[0] == "tuple" and nme.isdigit() and int(nme) < len(t[1]):
            t = t[1][int(nme)]
        elif t[0] == "adt" and nme in t[3]:
            t = t[4][t[3].index(nme)]
        else:
            t = ("field", t, nme)
        if t[0] in ("ref", "deref", "cast"):
            t = core(t)
    return t


def stores_affecting(b, path):
    """[(block, stmt, new-value-term)] for stores through self that can change the value at field path `path`."""
    holders = rooted_mut_refs(b, 1, by_ref=True)
    out = []
    for bi, si, st in b.stmts():
        if st["s"] != "assign" or not st["lhs"]["p"] or st["lhs"]["l"] not in holders or st["lhs"]["p"][0] != "deref":
            continue
        if b.blocks[bi]["cleanup"]:
            continue
        q = [n for _, n in store_path(st["lhs"])]
        if q == path:
            out.append((bi, st, b.term_of_rvalue(st["rv"])))
        elif len(q) < len(path) and path[:len(q)] == q:
            out.append((bi, st, project(b.term_of_rvalue(st["rv"]), path[len(q):])))
    return out


def classify(v, npath, lterm_pred, is_n=True, remaining=None):
    """remaining: predicate recognising `L - N`; a clamp `min(n, x)` is a clamp only if x is the remaining length."""
    v = strip_casts(v)

    def clamp_ok(y):
        others = [a for a in core(y)[2] if core(a)[:2] != ("param", 1)]
        return remaining is None or (len(others) == 1 and remaining(others[0]))
    if m(Bin("Add", SelfField(*npath), Const(1)), v):
        return "+1"
    if m(Bin("Sub", SelfField(*npath), Const(1)), v):
        return "-1"
    if lterm_pred(v):
        return "to-limit"
    if v[0] == "bin" and v[1] == "Add":
        for x, y in ((v[2], v[3]), (v[3], v[2])):
            if m(Const(1), y) and m(Bin("Add", SelfField(*npath), Param(1)), x):
                return "+n+1"
        for x, y in ((v[2], v[3]), (v[3], v[2])):
            if self_path(x) == npath and core(y)[0] == "call" and is_min_name(core(y)[1]) and any(core(a)[:2] == ("param", 1) for a in core(y)[2]):
                return "clamp+" if clamp_ok(y) else "clamp+(not by the remaining length: %s)" % tstr(core(y))[:50]
    if v[0] == "bin" and v[1] == "Sub" and self_path(v[2]) == npath:
        y = core(v[3])
        if y[0] == "call" and is_min_name(y[1]) and any(core(a)[:2] == ("param", 1) for a in y[2]):
            return "clamp-" if clamp_ok(y) else "clamp-(not by the remaining length: %s)" % tstr(y)[:50]
    return "other(%s)" % tstr(v)[:50]


def return_blocks_by_variant(b):
    """{'Some': [blocks], 'None': [blocks], 'delegated': [(block, callee)]} for assignments to _0."""
    out = {"Some": [], "None": [], "delegated": [], "other": []}
    for (bi, si, kind, payload) in b.defs().get(0, []):
        if b.blocks[bi]["cleanup"]:
            continue
        if kind == "assign":
            t = b.term_of_rvalue(payload)
            t0 = core(t) if t[0] in ("ref", "cast") else t
            if t0[0] == "adt" and t0[1] == "std::option::Option":
                out[t0[2]].append(bi)
            else:
                out["other"].append(bi)
        elif kind == "call":
            out["delegated"].append((bi, callee_name(payload)))
    return out


def iterator_methods(F):
    its = {}
    for tr in ("std::iter::Iterator", "std::iter::DoubleEndedIterator"):
        for im in F.impls_of(tr):
            if im["derived"]:
                continue
            d = im["self_ty"].get("def")
            its.setdefault(d, {}).update({it["name"]: it["def"] for it in im["items"] if F.has_body(it["def"])})
    return its


def check_method(ctx, F, ty, meth, fn, npath, lpath, lterm_pred, tag):
    b = F.body(fn)
    where = loc(b.raw["span"])
    counter, other = (npath, lpath) if meth in ("next", "nth") else (lpath, npath)
    if counter is None:
        raise Undecided("%s::%s: the moving end is not a field" % (ty, meth))
    S = stores_affecting(b, counter)
    O = stores_affecting(b, other) if other is not None else []
    rv = return_blocks_by_variant(b)
    loops = b.loop_blocks()
    def remaining(t):
        t = core(t)
        return t[0] == "bin" and t[1] == "Sub" and ((self_path(t[2]) == lpath) if lpath is not None else lterm_pred(t[2])) and self_path(t[3]) == npath
    cls = [(bi, classify(v, counter, lterm_pred, remaining=remaining)) for bi, st, v in S]
    want = {"next": "+1", "next_back": "-1"}.get(meth)
    problems = []
    # callees taking &mut self must not move the counters (helpers such as next_run), except own next/next_back (delegation)
    holders = rooted_mut_refs(b, 1, by_ref=True)
    for bi, t in b.calls():
        if t["args"]:
            q = operand_place(t["args"][0])
            if q is not None and not q["p"] and q["l"] in holders and b.local_ty(q["l"]).startswith("&mut") and \
                    core(b.term_of_operand(t["args"][0]))[:2] == ("param", 0):
                cn = callee_name(t)
                if F.has_body(cn) and not cn.endswith("::" + {"nth": "next", "nth_back": "next_back"}.get(meth, "\0")):
                    cb = F.body(cn)
                    if stores_affecting(cb, npath) or (lpath is not None and stores_affecting(cb, lpath)):
                        problems.append("helper %s stores the counters" % cn)
    if meth in ("next", "next_back"):
        if not rv["Some"] and not rv["other"]:
            problems.append("no Some return found")
        some_blocks = rv["Some"] + rv["other"]
        count_blocks = [bi for bi, c in cls if c == want]
        bad_cls = [(bi, c) for bi, c in cls if c not in (want, "to-limit")]
        if bad_cls:
            problems.append("stores to the counter that are neither %s nor exhaustion: %s" % (want, bad_cls))
        if any(bi in loops for bi in count_blocks):
            problems.append("a counting store is inside a loop")
        for x in count_blocks:
            for y in count_blocks:
                if x != y and y in b.reach_from([x]):
                    problems.append("two counting stores on one path (bb%d -> bb%d)" % (x, y))
        if len(count_blocks) != len(set(count_blocks)):
            problems.append("two counting stores in one block")
        for r in some_blocks:
            # counted on every path to the Some return: either before it, or (counter advanced after building the result) after it
            before = must_pass_through(b, 0, count_blocks, to_blocks=[r])
            after = must_pass_through(b, r, count_blocks) if r not in count_blocks else True
            if not (before or after or r in count_blocks):
                problems.append("a path to the Some return at bb%d does not count" % r)
        for r in rv["None"]:
            reach_from_count = b.reach_from(count_blocks) if count_blocks else set()
            if r in reach_from_count:
                problems.append("a counting store lies on a path to the None return at bb%d" % r)
        if O:
            problems.append("the other end is stored by %s: %s" % (meth, [classify(v, other, lterm_pred) for _, _, v in O]))
        detail = "%d stores to %s classified %s; Some returns at %s, None returns at %s" % (len(S), ".".join(counter), [c for _, c in cls], some_blocks, rv["None"])
    else:
        # nth / nth_back
        dele = [c for _, c in rv["delegated"] if c.endswith("::" + {"nth": "next", "nth_back": "next_back"}[meth])]
        if dele:
            wantc = "clamp+" if meth == "nth" else "clamp-"
            if [c for _, c in cls] != [wantc]:
                problems.append("expected a single clamped move of %s before delegating, found %s" % (".".join(counter), [c for _, c in cls]))
            elif not must_pass_through(b, 0, [bi for bi, _ in cls]):
                problems.append("the clamped move is not on every path")
            detail = "%s := %s min(n, L - N) then %s()" % (".".join(counter), "+" if meth == "nth" else "-", dele[0].split("::")[-1])
        else:
            count_blocks = [bi for bi, c in cls if c == "+n+1"]
            bad_cls = [(bi, c) for bi, c in cls if c not in ("+n+1", "to-limit")]
            if bad_cls:
                problems.append("stores to the counter that are neither +n+1 nor exhaustion: %s" % bad_cls)
            for r in rv["Some"] + rv["other"]:
                if not (must_pass_through(b, 0, count_blocks, to_blocks=[r]) or must_pass_through(b, r, count_blocks)):
                    problems.append("a path to the Some return does not count n + 1")
            for bi in count_blocks:
                if bi in loops:
                    problems.append("counting store inside a loop")
                fs = facts_at(b, bi)
                if not any(f[0] == "cmp" and ((f[1] == "Lt" and core(f[2])[:2] == ("param", 1)) or (f[1] == "Gt" and core(f[3])[:2] == ("param", 1))) for f in fs):
                    problems.append("the +n+1 store is not dominated by n < remaining")
            for r in rv["None"]:
                lim = [bi for bi, c in cls if c == "to-limit"]
                if not must_pass_through(b, 0, lim, to_blocks=[r]):
                    problems.append("a None return of nth does not exhaust the iterator")
            detail = "stores to %s classified %s" % (".".join(counter), [c for _, c in cls])
    ctx.ob("C10.R1.counts-every-item", "%s::%s%s" % (ty, meth, tag), where, not problems, "per-path-effects", detail + ("; PROBLEMS: " + "; ".join(problems) if problems else ""))


def check_predecessor_accepts_large_arguments(ctx, F, tag, rule="C10.R14.predecessor-never-refuses-a-large-argument"):
    """predecessor(value) starts at the largest set bit at or below value: an argument at or past the end is as good as the last
    position, never a reason for the exhausted iterator.  In every `predecessor` the empty iterator is returned only behind
    conditions that do not bound the argument from above (the vector is empty, there is no set bit at or below it): an exit
    behind `value > ..` / `value >= ..` on the bare argument refuses a valid starting point."""
    from guards import facts_at, strip_casts
    for nm in sorted(F.bodies):
        if not nm.endswith("PredSucc<'a>>::predecessor"):
            continue
        b = F.body(nm)
        vp = [i for i in range(b.nargs) if b.local_name(i + 1) == "value"]
        if not vp:
            continue
        P = ("param", vp[0])
        bad = []
        n = 0
        for bi, t in b.calls():
            if "empty" not in callee_name(t).split("::")[-1] or callee_name(t).split("::")[-1] == "is_empty":
                continue
            n += 1
            fs = list(facts_at(b, bi))
            # ... also when the exit is shared by several tests (`is_empty() || value > len`): the fact on an edge that leads
            # straight into the exit block
            from guards import edge_facts
            for u, v, f in edge_facts(b):
                w, hops = v, 0
                while w != bi and hops < 4 and len(b.succ(w)) == 1 and not b.blocks[w]["stmts"] and b.blocks[w]["term"]["t"] == "goto":
                    w, hops = b.succ(w)[0], hops + 1
                if w == bi:
                    fs.append(f)
            for f in fs:
                if f[0] != "cmp":
                    continue
                if (f[1] in ("Gt", "Ge") and strip_casts(f[2])[:2] == P) or (f[1] in ("Lt", "Le") and strip_casts(f[3])[:2] == P):
                    bad.append("%s at %s" % (tstr(("bin", f[1], f[2], f[3]))[:60], loc(t["sp"])))
        ctx.ob(rule, nm + tag, loc(b.raw["span"]), (not bad) if n else None, "guard-dominance",
               "%d exits with the exhausted iterator; behind an upper bound on the argument: %s" % (n, bad), positive=bool(bad))


def check_config(ctx, F, tag, cfg):
    from core import Relabel
    if not isinstance(ctx, Relabel):
        check_predecessor_accepts_large_arguments(ctx, F, tag)
    # (borrowed, A3) "iterators positioned by select_iter, predecessor or successor": the positioning calls take any argument, so
    # their own arithmetic on it is bounded (C09.R1 restricted to the positioning entry points and the iterators' nth / nth_back)
    from core import Relabel
    if not isinstance(ctx, Relabel) and cfg in ("native", "portable"):
        pos = lambda k: any(x in k.split("|")[0] for x in ("PredSucc", "::select_iter", "::select_zero_iter", "::nth", "Iter"))
        c09.check_raw_values(Relabel(ctx, {"C09.R1.raw-value-bounded": ("C10.R10.positioning-argument-bounded", pos)}), F, tag)
    import c08
    if not isinstance(ctx, Relabel) and cfg in ("native", "portable"):
        # (borrowed) the unchecked and bounds-checked word reads inside the iterators' own methods stay inside the vector: the
        # contracts of the unsafe reads in next / next_back / nth are discharged (C08.R1 restricted to the iterator types) -- a scan
        # that starts one word too far yields a wrong item or a panic before it is a memory-safety problem
        rl = Relabel(ctx, {"C08.R1.unsafe-site-discharged": ("C10.R11.iterator-reads-inside-the-vector", lambda k: "Iter" in k.split("|")[0])})
        c08.check_width_fields(rl, F, tag)
        c08.ledger(rl, F, tag)
    if not isinstance(ctx, Relabel) and cfg == "native":
        # (borrowed) the iterators of a plain bitvector count down the cached number of set bits, a popcount over whole words taken
        # from the raw vector: "yields exactly count_ones() items inside the vector" holds only while the raw vector keeps its
        # unused bits zero and no word past the end (C05.R1 / R3)
        import c05
        c05.check_tail_invariant(ctx, F, tag, prefix="C10.R12.unused-bits-zero")
        c05.check_word_count(ctx, F, tag, rule="C10.R12.raw-vector-word-count")
    if not isinstance(ctx, Relabel) and cfg in ("native", "portable"):
        # (borrowed) select_iter / predecessor / successor start at the (rank, position) pair select() computes: the iterator yields
        # the right items from there on only if the stored pointers and offsets are the ones the query reads (C01.R4)
        import c01
        c01.check_select_layout(Relabel(ctx, {"C01.R4.select-store-read-agreement": "C10.R13.select-store-read-agreement"}), F, tag)
    its = iterator_methods(F)
    # the counting rules read next / next_back / nth / nth_back / size_hint; an iterator that overrides another provided method
    # (last, count, fold, ..) answers through code they do not read -- whether it still yields the reference sequence "and keeps
    # returning None once exhausted" through that method is not established (undecided; only for overrides the pinned tree lacks)
    import inline as _inl
    base_ = _inl.baseline() or set()
    for ty_, meths_ in sorted(its.items(), key=lambda kv: str(kv[0])):
        for mn, md in sorted(meths_.items()):
            if mn not in ("next", "next_back", "nth", "nth_back", "size_hint") and md not in base_:
                ctx.ob("C10.R1.overridden-iterator-method-not-read", "%s::%s%s" % (ty_, mn, tag), loc(F.body(md).raw["span"]), None, "who-may-answer",
                       "%s overrides Iterator::%s, which the counting rules do not read" % (str(ty_).split("::")[-1], mn), nontrivial=False)
    exact = [i for i in F.impls_of("std::iter::ExactSizeIterator") if not i["derived"]]
    ctx.count("exact-size-iterators" + tag, len(exact))
    for im in exact:
        ty = im["self_ty"].get("def")
        meths = its.get(ty, {})
        if "size_hint" not in meths:
            ctx.ob("C10.R1.size-hint-exact", ty + tag, loc(im["span"]), False, "term-shape", "ExactSizeIterator without its own size_hint (the default (0, None) breaks len())")
            continue
        sh = F.body(meths["size_hint"])
        t = sh.term_of_local(0)
        env = {}
        ok = t[0] == "tuple" and len(t[1]) == 2 and core(t[1][1])[0] == "adt" and core(t[1][1])[2] == "Some" and core(t[1][1])[4][0] == t[1][0] and \
            strip_casts(t[1][0])[0] == "bin" and strip_casts(t[1][0])[1] == "Sub"
        if not ok:
            ctx.ob("C10.R1.size-hint-exact", ty + tag, loc(sh.raw["span"]), False, "term-shape", "size_hint() = %s is not (r, Some(r)) with r = L - N" % tstr(t)[:120])
            continue
        r = strip_casts(t[1][0])
        lt, nt = r[2], r[3]
        npath = self_path(nt)
        lpath = self_path(lt)
        lgetter = None
        if lpath is None:
            c = core(lt)
            if c[0] == "call" and len(c[2]) == 1 and self_path(c[2][0]) is not None:
                lgetter = (c[1], self_path(c[2][0]))
        ok = npath is not None and (lpath is not None or lgetter is not None)
        ctx.ob("C10.R1.size-hint-exact", ty + tag, loc(sh.raw["span"]), ok, "term-shape",
               "size_hint() = (r, Some(r)), r = %s - self.%s" % (("self." + ".".join(lpath)) if lpath else tstr(lt)[:60], ".".join(npath or ["?"])))
        if not ok:
            continue
        if lpath is not None:
            lpred = lambda v, lp=lpath: self_path(v) == lp
        else:
            lpred = lambda v, lg=lgetter: core(v)[0] == "call" and core(v)[1] == lg[0] and self_path(core(v)[2][0]) == lg[1]
        for meth in ("next", "next_back", "nth", "nth_back"):
            if meth in meths:
                if meth in ("next_back", "nth_back") and lpath is None:
                    ctx.ob("C10.R1.counts-every-item", "%s::%s%s" % (ty, meth, tag), loc(im["span"]), False, "per-path-effects", "double-ended but the upper end is not a field")
                    continue
                check_method(ctx, F, ty, meth, meths[meth], npath, lpath, lpred, tag)
                ctx.count("iterator-methods-analysed" + tag)
        # R8: an iterator built already exhausted (for an out-of-range start, or by an `empty_iter` constructor) starts with
        # N == L, so that its exact length is 0
        check_exhausted_constructions(ctx, F, ty, npath, lpath, lgetter, tag)
        # nobody else stores the counters
        adt = ty
        outside = []
        for b in F.all_bodies():
            if b.name.startswith("<%s" % ty) or "Clone" in b.name:
                continue
            f = F.fns.get(b.name, [{}])[0]
            for bi, si, st in b.stmts():
                if st["s"] == "assign" and st["lhs"]["p"]:
                    sp = store_path(st["lhs"])
                    if sp and sp[0][0] == adt and sp[0][1] in (npath[0], (lpath or [None])[0]):
                        if not (f.get("impl_self", "").startswith(ty)):
                            outside.append(b.name)
        import inline
        ctx.ob("C10.R1.counters-private", ty + tag, loc(im["span"]), (not outside) if not inline.only_new(outside) else None, "who-may-store", "stores to the counters outside the iterator's own impls: %s" % sorted(set(outside)), nontrivial=False)
    ctx.floor("exact-size-iterators" + tag, FLOOR_EXACT)
    ctx.floor("iterator-methods-analysed" + tag, 20)

    # ---------------- R2 fused (beyond the exact-size types, whose None paths are covered by R1)
    fused = [i for i in F.impls_of("std::iter::FusedIterator") if not i["derived"]]
    ctx.count("fused-iterators" + tag, len(fused))
    exact_tys = {i["self_ty"].get("def") for i in exact}
    for im in fused:
        ty = im["self_ty"].get("def")
        if ty in exact_tys:
            continue
        if ty in REVIEWED_FUSED:
            ctx.exempt("C10.R2.fused", ty, loc(im["span"]), REVIEWED_FUSED[ty])
            ctx.ob("C10.R2.fused", ty + tag, loc(im["span"]), True, "reviewed-invariant", REVIEWED_FUSED[ty], nontrivial=False)
            continue
        if ty in FUSED_EXTRA:
            npath, _ = FUSED_EXTRA[ty]
            b = F.body(its[ty]["next"])
            rv = return_blocks_by_variant(b)
            S = stores_affecting(b, npath)
            # every None return is dominated by `N >= parent.len()` or preceded by N := parent.len()
            okf = bool(rv["None"])
            for r in rv["None"]:
                g = any(f[0] == "cmp" and f[1] == "Ge" and self_path(f[2]) == npath for f in facts_at(b, r))
                ex = [bi for bi, st, v in S if core(v)[0] == "call" and core(v)[1].endswith("::len")]
                okf = okf and (g or must_pass_through(b, 0, ex, to_blocks=[r]))
            ctx.ob("C10.R2.fused", ty + tag, loc(b.raw["span"]), okf, "per-path-effects", "every None return is under rank >= len or sets rank := len: %s" % okf)
        else:
            ctx.ob("C10.R2.fused", str(ty) + tag, loc(im["span"]), False, "per-path-effects", "FusedIterator type without a rule")
    ctx.floor("fused-iterators" + tag, 13)

    # ---------------- R5 conditional advance is atomic: RunIter::advance_if changes the iterator only after `advance(..)` said yes
    from effects import mutation_sites
    ai = F.body("rl_vector::RunIter::<'a>::advance_if")
    sites = mutation_sites(ai, 1, by_ref=True)
    unguarded = []
    for bi, k, d, sp in sites:
        fs = facts_at(ai, bi)
        if not any(f[0] == "bool" and f[2] is True and core(f[1])[0] == "call" and core(f[1])[1].endswith("FnMut::call_mut") for f in fs):
            unguarded.append((k, d, loc(sp)))
    ctx.ob("C10.R5.advance-if-atomic", ai.name + tag, loc(ai.raw["span"]), len(sites) >= 4 and not unguarded, "per-path-effects+guard",
           "%d stores/&mut uses of the iterator in advance_if; not dominated by `advance(..) == true`: %s (positioned iterators -- predecessor -- refuse a run and must find the iterator unchanged)" % (len(sites), unguarded))

    # ---------------- R6 the two pending candidates of sparse_vector::Iter fall back on each other
    check_two_ended_candidates(ctx, F, tag)

    # ---------------- R9 a run iterator's `limit` (set bits up to the end of its block) is taken for the block its `offset` is in
    for fn in ("rl_vector::RLVector::iter_for_block", "rl_vector::RunIter::<'a>::advance_if"):
        b = F.body(fn)
        oa = [core(b.term_of_operand(t["args"][1])) for bi, t in b.calls() if callee_name(t) == "rl_vector::RLVector::ones_after"]
        blocks_of_offset = []
        for bi, si, st in b.stmts():
            if st["s"] == "assign" and st["rv"]["r"] == "bin" and st["rv"]["op"].startswith("Mul"):
                x, y = core(b.term_of_operand(st["rv"]["a"])), core(b.term_of_operand(st["rv"]["b"]))
                for u, v in ((x, y), (y, x)):
                    if v[0] == "const" and len(v) > 2 and str(v[2]).endswith("::BLOCK_SIZE"):
                        blocks_of_offset.append(u)
        ok = len(oa) == 1 and len(blocks_of_offset) >= 1 and all(x == oa[0] for x in blocks_of_offset)
        ctx.ob("C10.R9.run-iter-limit-for-its-block", fn + tag, loc(b.raw["span"]), ok, "sibling-agreement",
               "offset = B * BLOCK_SIZE with B = %s; limit = ones_after(%s)" % ([tstr(x)[:40] for x in blocks_of_offset], [tstr(x)[:40] for x in oa]))

    # ---------------- R7 an iterator handed on after a scan loop that consumed the item it stopped at
    # instances confirmed by reading: find_zero_run documents "(run rank, one_iter past the run)" -- its receivers read the item
    # that ends the run from the iterator. (RLVector::select_zero_iter also returns its scan iterator, but there the consumed run
    # is the one searched for and ZeroIter is defined to start after it: not an instance.)
    SCANS = {"sparse_vector::SparseVector::find_zero_run"}
    for fn in SCANS:
        F.body(fn)
    hits = [h for h in consumed_then_handed_on(F) if h[0] in SCANS]
    ctx.ob("C10.R7.no-iterator-handed-on-past-a-rejected-item", "find_zero_run" + tag, "src/sparse_vector.rs", not hits, "dataflow",
           "iterators returned after a `while let Some(x) = it.next() { if accept(x) {..} else { break } }` scan (the rejected item is lost to the "
           "receiver; a snapshot taken on acceptance is what must be returned): %s" % hits[:4], nontrivial=False)

    # ---------------- R3 nth clamp (C09 restricted to iterator entry points) + twins
    entries, an = c09.run_analysis(F)
    for fn in sorted(entries):
        if fn.endswith("::nth") or fn.endswith("::nth_back"):
            alarms = [k for k, a in an.alarms.items() if a["fn"] == fn]
            ctx.ob("C10.R3.nth-argument-bounded", fn + tag, loc(F.body(fn).raw["span"]), not alarms, "raw-value-propagation",
                   "n reaches no unguarded arithmetic: %s" % (alarms or "ok"))
    subst = [("<ops::AccessIter<'a, VectorType>", "<bit_vector::Iter<'a>"), ("ops::Access::get", "<bit_vector::BitVector as ops::BitVec<'a>>::get")]
    for tr, ms in (("std::iter::Iterator", ("next", "nth", "size_hint")), ("std::iter::DoubleEndedIterator", ("next_back", "nth_back"))):
        for meth in ms:
            a = "<bit_vector::Iter<'a> as %s>::%s" % (tr, meth)
            bb = "<ops::AccessIter<'a, VectorType> as %s>::%s" % (tr, meth)
            ok, info = twins.compare(F.body(a), F.body(bb), subst, types=False)
            ctx.ob("C10.R3.index-iterators-twins", meth + tag, loc(F.body(a).raw["span"]), ok, "mir-isomorphism",
                   ("bit_vector::Iter::%s ~ ops::AccessIter::%s (%s steps)" % (meth, meth, info)) if ok else "twins diverge: %s" % info)

    # ---------------- R4
    c08.check_cursors(ctx, F, tag, prefix="C10.R4")


def check_two_ended_candidates(ctx, F, tag):
    """sparse_vector::Iter walks all positions and holds the next unvisited set position from either end in `next_set` /
    `last_set`; the inner OneIter has already handed both out. When the inner iterator has nothing left for one end, the candidate
    of the *other* end is the only one left and must be taken over -- at construction (a vector with a single value) and whenever a
    candidate is consumed. A candidate that becomes None while the other end still holds a value loses that set bit for one
    direction of iteration. Decided per store: every value stored into a candidate is Some(item of the inner iterator) under the
    inner iterator's Some arm, or the other candidate (copy, or Option::or / or_else with it)."""
    ITER = "sparse_vector::Iter"
    sites = [("<sparse_vector::SparseVector as ops::BitVec<'a>>::iter", None),
             ("<sparse_vector::Iter<'a> as std::iter::Iterator>::next", "next_set"),
             ("<sparse_vector::Iter<'a> as std::iter::DoubleEndedIterator>::next_back", "last_set")]
    other = {"next_set": "last_set", "last_set": "next_set"}

    def peel(t):
        while isinstance(t, tuple) and t and t[0] in ("ref", "deref", "cast"):
            t = t[1]
        return t

    def is_some_of_inner(b, bi, t):
        t = peel(t)
        if not (t[0] == "adt" and t[1] == "std::option::Option" and t[2] == "Some"):
            return False
        # built under the Some arm of a call on the inner iterator (discriminant fact on an Option produced by next / next_back)
        for f in facts_at(b, bi):
            if f[0] == "discr" and f[2] == 1:
                src = peel(f[1])
                if src[0] == "discr":
                    src = peel(src[1])
                if src[0] == "call" and src[1].split("::")[-1] in ("next", "next_back") and any(peel(x) == src for x in subterms(t[4][0])):
                    return True        # the payload is (a component of) the item that call returned
        return False

    for fn, field in sites:
        b = F.body(fn)
        where = loc(b.raw["span"])
        if field is None:
            aggs = [(bi, st) for bi, si, st in b.stmts() if st["s"] == "assign" and st["rv"]["r"] == "agg" and st["rv"].get("def") == ITER]
            if len(aggs) != 1:
                raise Undecided("anchor lost: %s builds %d %s values" % (fn, len(aggs), ITER))
            ops = dict(zip(aggs[0][1]["rv"]["fields"], aggs[0][1]["rv"]["ops"]))
            import c06
            roots = {f: c06.root_local(b, ops[f]) for f in ("next_set", "last_set")}
            # the candidate taken second (after the inner iterator lost its first item) is the one that needs the fallback
            import serfmt
            rp = serfmt.rpo(b)
            order = {f: min([rp.get(d[0], 1 << 30) for d in b.defs().get(roots[f], [])] or [1 << 30]) for f in roots}
            second = max(order, key=lambda f: order[f])
            first = other[second]
            bad, fallback = [], False
            for (bi, si, kind, payload) in b.defs().get(roots[second], []):
                t = b.term_of_rvalue(payload) if kind == "assign" else b.term_of_call(payload)
                if kind == "assign" and payload["r"] == "use" and c06.root_local(b, payload["o"]) == roots[first]:
                    fallback = True
                elif is_some_of_inner(b, bi, t):
                    pass
                elif kind == "call" and callee_name(payload).split("::")[-1] in ("or", "xor") and len(payload["args"]) == 2 and \
                        c06.root_local(b, payload["args"][1]) == roots[first]:
                    fallback = True
                else:
                    bad.append(tstr(t)[:70])
            ctx.ob("C10.R6.candidate-falls-back", "%s|%s%s" % (fn, second, tag), where, fallback and not bad, "value-provenance",
                   "initial `%s` is Some(inner item) or falls back on `%s`: fallback present %s; other values %s" % (second, first, fallback, bad))
            ctx.count("two-ended-candidate-sites" + tag)
            continue
        # stores through &mut self; a stored value that is chosen among several (`x = if .. { a } else { b }`, `a.or(b)`) is
        # followed to the values it is chosen from
        def kinds_of_rvalue(bi, rv, depth, under_or):
            if rv["r"] == "use":
                q = rv["o"].get("m") or rv["o"].get("c")
                if q is not None and not q["p"] and not (1 <= q["l"] <= b.nargs) and depth < 8:
                    return kinds_of_local(q["l"], depth + 1, under_or)
            t = b.term_of_rvalue(rv)
            if self_path(peel(t)) == [other[field]]:
                return [("fallback", bi)]
            pt = peel(t)
            if under_or and pt[0] == "adt" and pt[1] == "std::option::Option" and pt[2] == "None":
                return [("none", bi)]          # `None.or(other)` is the other candidate
            if is_some_of_inner(b, bi, t):
                return [("inner", bi)]
            return [("bad", tstr(t)[:70])]

        def kinds_of_local(l, depth, under_or):
            out = []
            for (dbi, si, kind, payload) in b.defs().get(l, []):
                if kind == "assign":
                    out.extend(kinds_of_rvalue(dbi, payload, depth, under_or))
                elif kind == "call" and callee_name(payload).split("::")[-1] == "or" and callee_name(payload).startswith("std::option::Option") and \
                        len(payload["args"]) == 2 and self_path(peel(b.term_of_operand(payload["args"][1]))) == [other[field]]:
                    out.append(("fallback", dbi))
                    out.extend(k for k in kinds_of_rvalue(dbi, {"r": "use", "o": payload["args"][0]}, depth, True) if k[0] == "bad")
                else:
                    t = b.term_of_rvalue(payload) if kind == "assign" else (b.term_of_call(payload) if kind == "call" else ("partial", l))
                    if kind == "call" and is_some_of_inner(b, dbi, t):
                        out.append(("inner", dbi))
                    else:
                        out.append(("bad", tstr(t)[:70]))
            return out or [("bad", "undefined local _%d" % l)]

        stores = []
        for bi, si, st in b.stmts():
            if st["s"] == "assign" and st["lhs"]["p"]:
                path = self_path(b.term_of_place(st["lhs"]))
                if path == [field]:
                    stores.append((bi, kinds_of_rvalue(bi, st["rv"], 0, False)))
        if not stores:
            raise Undecided("anchor lost: %s does not store to .%s" % (fn, field))
        fb = [bi for bi, ks in stores if any(k[0] == "fallback" for k in ks)]
        bad = [k[1] for bi, ks in stores for k in ks if k[0] == "bad"]
        later = all(any(b.dominates(f, bi) for f in fb) for bi, ks in stores if bi not in fb)
        ctx.ob("C10.R6.candidate-falls-back", "%s|%s%s" % (fn, field, tag), where, bool(fb) and not bad and later, "value-provenance",
               "consuming `%s` first takes over `%s`, then prefers an item of the inner iterator: take-over %s, dominates the search %s; other values %s" % (
                   field, other[field], bool(fb), later, bad))
        ctx.count("two-ended-candidate-sites" + tag)
    ctx.floor("two-ended-candidate-sites" + tag, 3)


def consumed_then_handed_on(F):
    """[(function, where)]: a local iterator `it` is advanced by `it.next()` inside a loop, the loop is left from the arm in which
    `next()` returned Some (so that item has been consumed and rejected), and afterwards `it` itself -- not a clone taken earlier --
    is moved into the function's return value."""
    from facts import resolve_ref_local
    hits = []
    for b in F.all_bodies():
        if "::tests::" in b.name or b.name.startswith("internal::"):
            continue
        loops = b.loop_blocks()
        if not loops:
            continue
        for bi, t in b.calls():
            if t["callee"].get("def") != "std::iter::Iterator::next" or bi not in loops or t.get("target") is None or t["dest"]["p"]:
                continue
            it = resolve_ref_local(b, t["args"][0])
            if it is None or 1 <= it <= b.nargs:
                continue
            sw = b.blocks[t["target"]]["term"]
            if sw["t"] != "switch":
                continue
            some = [d for v, d in sw["targets"] if int(v) == 1]
            if not some:
                continue
            inside = b.reach_from(some, avoid={bi})
            exits = {x for x in inside if x not in loops}
            if not exits:
                continue
            after = b.reach_from(sorted(exits), avoid={bi})
            # does `it` flow by move / copy into _0 after the exit?
            carried = {it}
            changed = True
            while changed:
                changed = False
                for x in sorted(after):
                    for st in b.blocks[x]["stmts"]:
                        if st["s"] != "assign" or st["lhs"]["p"]:
                            continue
                        rv = st["rv"]
                        ops = [rv["o"]] if rv["r"] == "use" else (rv["ops"] if rv["r"] == "agg" else [])
                        for o in ops:
                            q = operand_place(o)
                            if q is not None and not q["p"] and q["l"] in carried and st["lhs"]["l"] not in carried:
                                carried.add(st["lhs"]["l"])
                                changed = True
            if 0 in carried:
                hits.append((b.name, loc(t["sp"])))
    return hits


def check_exhausted_constructions(ctx, F, ty, npath, lpath, lgetter, tag):
    def project_ops(b, st, path):
        """Term of the aggregate's component `path` (field name, then tuple components)."""
        ops = dict(zip(st["rv"]["fields"], st["rv"]["ops"]))
        if path[0] not in ops:
            return None
        t = core(b.term_of_operand(ops[path[0]]))
        for comp in path[1:]:
            if t[0] == "tuple" and str(comp).isdigit() and int(comp) < len(t[1]):
                t = core(t[1][int(comp)])
            else:
                return None
        return t
    n = 0
    for b in F.all_bodies():
        if "::tests::" in b.name:
            continue
        for bi, si, st in b.stmts():
            if not (st["s"] == "assign" and st["rv"]["r"] == "agg" and st["rv"].get("def") == ty):
                continue
            exhausted = b.name.endswith("::empty_iter")
            why = "empty_iter"
            if not exhausted:
                for f in facts_at(b, bi):
                    if f[0] == "cmp" and f[1] in ("Ge", "Gt"):
                        x, c = core(f[2]), core(f[3])
                        if x[0] == "param" and x[1] >= 1 and c[0] == "call" and c[1].split("::")[-1] in ("count_ones", "count_zeros", "len") and len(c[2]) == 1 and core(c[2][0])[:2] == ("param", 0):
                            exhausted = True
                            why = "under `%s >= %s`" % (tstr(x), c[1].split("::")[-1])
            if not exhausted:
                continue
            nt = project_ops(b, st, npath)
            if lpath is not None:
                lt = project_ops(b, st, lpath)
            else:
                ops = dict(zip(st["rv"]["fields"], st["rv"]["ops"]))
                recv = core(b.term_of_operand(ops[lgetter[1][0]])) if lgetter[1] and lgetter[1][0] in ops else None
                lt = ("getter", recv)
            if nt is None or lt is None:
                continue
            n += 1
            if lpath is not None:
                ok = nt == lt
            else:
                # the same count getter, asked of the parent the iterator is built for (a parameter of the constructor)
                ok = nt[0] == "call" and (nt[1] == lgetter[0] or nt[1].split("::")[-1] == lgetter[0].split("::")[-1]) and len(nt[2]) == 1 and \
                    (core(nt[2][0]) == lt[1] or core(nt[2][0])[0] == "param")
            ctx.ob("C10.R8.exhausted-construction-has-length-zero", "%s|%s%s" % (b.name, ty.split("::")[-1], tag), loc(st["sp"]), ok, "term-shape",
                   "%s built %s with N = %s and L = %s" % (ty, why, tstr(nt)[:50], tstr(lt)[:50] if lpath is not None else "%s(%s)" % (lgetter[0].split("::")[-1], tstr(lt[1])[:30])))
    ctx.count("exhausted-constructions" + tag, n)
