"""MIR-level normalisation applied to every body before it is analysed.

1. Inlining of helper functions the rules do not know by name.  The rules name the crate's functions as they exist on the pinned
   tree (baseline_fns.json).  A clean-up that moves part of such a function into a *new* private helper ("extract function") must
   not change any verdict, so every call to a crate-local function that is NOT in the baseline table is replaced by the callee's
   blocks (locals and blocks renumbered, arguments assigned to the callee's parameter locals, `return` turned into an assignment to
   the call's destination followed by a jump to the call's target).  Functions of the baseline keep their identity.

2. Expansion of the Option / Result / Iterator combinators that take a closure (`map`, `map_or`, `and_then`, `map_err`,
   `unwrap_or_else`, `ok_or_else`, `or_else`, `for_each`, `try_for_each`, `fold`) into the match / loop they stand for, with the
   closure body inlined.  `x.map(|v| f(v))` and `match x { Some(v) => Some(f(v)), None => None }` then have the same shape, and code
   inside closures is analysed in the context of its caller instead of not at all.

Bounded: depth <= 3, callee <= 160 blocks, no recursion.  A helper (or closure) all of whose uses were absorbed this way is
hidden from `all_bodies()`: its code is analysed where it is used.
"""
import json
import os
import re

HERE = os.path.dirname(os.path.abspath(__file__))
BASELINE = os.path.join(HERE, "baseline_fns.json")
MAX_DEPTH = 3
MAX_BLOCKS = 160

_baseline = None


def baseline():
    global _baseline
    if _baseline is None and os.path.exists(BASELINE):
        _baseline = set(json.load(open(BASELINE)))
    return _baseline


def is_helper(F, name):
    """A crate-local function with one body that the pinned tree does not have (and that is not a closure / trait impl item)."""
    base = baseline()
    if base is None or os.environ.get("VERIF_NO_INLINE") or getattr(F, "no_inline", False):
        return False
    if name in base or name not in F.bodies or len(F.bodies[name]) != 1:
        return False
    if "{closure" in name or "{constant" in name or "{impl" in name or name.startswith("<"):
        return False
    raw = F.bodies[name][0]
    if "Fn" not in str(raw.get("kind")):
        return False
    return len(raw["mir"]["blocks"]) <= MAX_BLOCKS


def callee_def(t):
    c = t["callee"]
    r = c.get("res")
    if r and r.get("is_item"):
        return r["def"]
    if c.get("trait"):
        return None
    return c.get("def")


def _rename(x, loff, boff):
    """Deep copy of a MIR JSON fragment with locals shifted by loff and block references by boff."""
    if isinstance(x, dict):
        out = {}
        is_place = "l" in x and "p" in x and isinstance(x["l"], int)
        for k, v in x.items():
            if is_place and k == "l":
                out[k] = v + loff
            elif k == "idx" and isinstance(v, int):
                out[k] = v + loff
            elif k in ("target", "otherwise", "unwind") and isinstance(v, int):
                out[k] = v + boff
            elif k == "targets" and isinstance(v, list):
                out[k] = [[a, b + boff] for a, b in v]
            else:
                out[k] = _rename(v, loff, boff)
        return out
    if isinstance(x, list):
        return [_rename(v, loff, boff) for v in x]
    return x


class Builder:
    def __init__(self, raw):
        mir = raw["mir"]
        self.raw = dict(raw)
        self.m = {"arg_count": mir["arg_count"], "locals": list(mir["locals"]), "blocks": [dict(b) for b in mir["blocks"]]}
        self.raw["mir"] = self.m
        self.absorbed = set()

    def local(self, ty="?", name=None, origin=None):
        self.m["locals"].append({"ty": {"s": ty, "k": "synth"}, "name": name, "mut": True, "inlined_from": origin})
        return len(self.m["locals"]) - 1

    def block(self, stmts, term):
        self.m["blocks"].append({"stmts": list(stmts), "term": term, "cleanup": False})
        return len(self.m["blocks"]) - 1

    def splice(self, craw, arg_ops, dest, target, unwind, sp, origin):
        """Appends the callee's blocks; returns (entry block, stmts that bind the arguments)."""
        cm = craw["mir"]
        loff, boff = len(self.m["locals"]), len(self.m["blocks"])
        for l in cm["locals"]:
            self.m["locals"].append(dict(l, inlined_from=origin))
        binds = []
        for i, a in enumerate(arg_ops):
            if i < cm["arg_count"] and a is not None:
                binds.append(assign(loff + 1 + i, a, sp))
        for cb in cm["blocks"]:
            nb = _rename(cb, loff, boff)
            ct = nb["term"]
            if ct["t"] == "return":
                nb["stmts"] = list(nb["stmts"]) + [{"s": "assign", "lhs": dest, "rv": {"r": "use", "o": {"m": {"l": loff, "p": []}}}, "sp": sp, "exp": False}]
                nb["term"] = {"t": "goto", "target": target, "sp": ct["sp"], "exp": False} if target is not None else {"t": "unreachable", "sp": ct["sp"], "exp": False}
            elif ct["t"] == "resume" and isinstance(unwind, int):
                nb["term"] = {"t": "goto", "target": unwind, "sp": ct["sp"], "exp": False}
            self.m["blocks"].append(nb)
        return boff, binds


def P(l, *proj):
    return {"l": l, "p": list(proj)}


def mv(place):
    return {"m": place}


def cp(place):
    return {"c": place}


def assign(l, rv_or_operand, sp):
    lhs = l if isinstance(l, dict) else P(l)
    if "r" in rv_or_operand:
        rv = rv_or_operand
    else:
        rv = {"r": "use", "o": rv_or_operand}
    return {"s": "assign", "lhs": lhs, "rv": rv, "sp": sp, "exp": False}


def variant(adt, vname, idx, ops):
    return {"r": "agg", "agg": "adt", "def": adt, "variant": idx, "vname": vname, "fields": [str(i) for i in range(len(ops))], "args": [], "ops": ops}


def down(place, idx, vname, field=0):
    adt = "std::option::Option" if vname in ("Some", "None") else "std::result::Result"
    return P(place["l"], *(place["p"] + [{"down": idx, "name": vname}, {"f": field, "ty": "?", "name": str(field), "adt": adt}]))


OPT, RES = "std::option::Option", "std::result::Result"
COMBINATORS = {
    "std::option::Option::<T>::map": ("opt", "map"), "std::option::Option::<T>::map_or": ("opt", "map_or"),
    "std::option::Option::<T>::map_or_else": ("opt", "map_or_else"), "std::option::Option::<T>::and_then": ("opt", "and_then"),
    "std::option::Option::<T>::unwrap_or_else": ("opt", "unwrap_or_else"), "std::option::Option::<T>::ok_or_else": ("opt", "ok_or_else"),
    "std::option::Option::<T>::or_else": ("opt", "or_else"), "std::option::Option::<T>::ok_or": ("opt", "ok_or"),
    "std::option::Option::<std::result::Result<T, E>>::transpose": ("opt", "transpose"),
    "std::result::Result::<T, E>::map": ("res", "map"), "std::result::Result::<T, E>::map_err": ("res", "map_err"),
    "std::result::Result::<T, E>::map_or": ("res", "map_or"), "std::result::Result::<T, E>::and_then": ("res", "and_then"),
    "std::result::Result::<T, E>::unwrap_or_else": ("res", "unwrap_or_else"), "std::result::Result::<T, E>::or_else": ("res", "or_else"),
    "std::iter::Iterator::for_each": ("iter", "for_each"), "std::iter::Iterator::try_for_each": ("iter", "try_for_each"),
    "std::iter::Iterator::fold": ("iter", "fold"),
    "std::iter::Iterator::find": ("iter", "find"), "std::iter::DoubleEndedIterator::rfind": ("iter", "rfind"),
    "std::iter::Iterator::any": ("iter", "any"), "std::iter::Iterator::all": ("iter", "all"),
    "std::option::Option::<T>::is_some_and": ("opt", "is_some_and"), "std::option::Option::<T>::is_none_or": ("opt", "is_none_or"),
    "std::option::Option::<T>::filter": ("opt", "filter"),
    "std::result::Result::<T, E>::is_ok_and": ("res", "is_ok_and"),
    "core::bool::<impl bool>::then": ("bool", "then"), "core::bool::<impl bool>::then_some": ("bool", "then_some"),
    "std::ops::RangeInclusive::<Idx>::contains": ("range", "inclusive"), "std::ops::Range::<Idx>::contains": ("range", "exclusive"),
    "std::convert::From::from": ("from", "prim"),
    "core::ptr::const_ptr::<impl *const T>::cast": ("ptr", "cast"), "core::ptr::mut_ptr::<impl *mut T>::cast": ("ptr", "cast"),
    "std::ptr::const_ptr::<impl *const T>::cast": ("ptr", "cast"), "std::ptr::mut_ptr::<impl *mut T>::cast": ("ptr", "cast"),
    "std::ops::FnOnce::call_once": ("fncall", "call"), "std::ops::FnMut::call_mut": ("fncall", "call"), "std::ops::Fn::call": ("fncall", "call"),
}
PRIMS = ("bool", "u8", "u16", "u32", "u64", "u128", "usize", "i8", "i16", "i32", "i64", "i128", "isize")


def konst(v, ty):
    return {"k": {"ty": ty, "v": v, "dbg": "const %s" % v, "synthetic": True}}


def unique_def(bld, l):
    """The only definition of a local in the body under construction: ('rv', rvalue) | ('call', terminator) | None."""
    defs = []
    for blk in bld.m["blocks"]:
        for st in blk["stmts"]:
            if st["s"] == "assign" and st["lhs"]["l"] == l:
                defs.append(("rv", st["rv"]) if not st["lhs"]["p"] else None)
        t = blk["term"]
        if t is not None and t["t"] == "call" and t["dest"]["l"] == l:
            defs.append(("call", t) if not t["dest"]["p"] else None)
    if len(defs) != 1:
        return None
    return defs[0]


def range_bounds(F, bld, operand, inclusive, hops=8):
    """(lo operand, hi operand) of the range an operand refers to: a `RangeInclusive::new(a, b)` call, a `Range { start, end }`
    aggregate, or a promoted constant built in one of those two ways."""
    want_ctor = "RangeInclusive::<Idx>::new" if inclusive else None
    for _ in range(hops):
        if "k" in operand:
            k = operand["k"]
            if "promoted" not in k:
                return None
            raws = F.bodies.get(k.get("def")) or []
            if len(raws) != 1 or k["promoted"] >= len(raws[0].get("promoted") or []):
                return None
            pm = raws[0]["promoted"][k["promoted"]]
            for blk in pm["blocks"]:
                t = blk["term"]
                if want_ctor and t["t"] == "call" and (t["callee"].get("def") or "").endswith(want_ctor) and all("k" in a for a in t["args"]):
                    return t["args"][0], t["args"][1]
                for st in blk["stmts"]:
                    rv = st.get("rv") or {}
                    if not inclusive and rv.get("r") == "agg" and rv.get("def") == "std::ops::Range" and all("k" in a for a in rv["ops"]):
                        return rv["ops"][0], rv["ops"][1]
            return None
        p = operand.get("m") or operand.get("c")
        if p is None or [e for e in p["p"] if e != "deref"]:
            return None
        d = unique_def(bld, p["l"])
        if d is None:
            return None
        kind, x = d
        if kind == "call":
            if want_ctor and (x["callee"].get("def") or "").endswith(want_ctor):
                return x["args"][0], x["args"][1]
            return None
        if x["r"] == "use":
            operand = x["o"]
        elif x["r"] == "ref":
            operand = {"c": x["p"]}
        elif x["r"] == "agg" and x.get("def") == "std::ops::Range" and not inclusive:
            return x["ops"][0], x["ops"][1]
        else:
            return None
    return None


def as_copy(o):
    return {"c": o["m"]} if "m" in o else o


def closure_of(F, bld, operand):
    """(closure raw body, closure local) if the operand is a local whose only definition is a closure aggregate of this crate."""
    p = operand.get("m") or operand.get("c")
    if p is None or p["p"]:
        return None
    defs = []
    for blk in bld.m["blocks"]:
        for st in blk["stmts"]:
            if st["s"] == "assign" and not st["lhs"]["p"] and st["lhs"]["l"] == p["l"]:
                defs.append(st["rv"])
        t = blk["term"]
        if t is not None and t["t"] == "call" and not t["dest"]["p"] and t["dest"]["l"] == p["l"]:
            defs.append(None)
    if len(defs) != 1 or defs[0] is None:
        return None
    rv = defs[0]
    if rv["r"] == "agg" and rv.get("agg") == "closure" and rv.get("def") in F.bodies and len(F.bodies[rv["def"]]) == 1:
        return rv["def"], p["l"]
    return None


def ctor_of(operand):
    """('Some'|'Ok'|'Err', adt, idx) if the operand is the constructor function of that variant."""
    k = operand.get("k")
    if not k or "fn" not in k:
        return None
    last = k["fn"].split("::")[-1]
    if last == "Some":
        return ("Some", OPT, 1)
    if last == "Ok":
        return ("Ok", RES, 0)
    if last == "Err":
        return ("Err", RES, 1)
    return None


def apply_fn(F, bld, fop, arg_places, dest, target, unwind, sp, depth, stack):
    """Emits `dest = f(args)`; goto target. Returns the entry block, or None if f is not a closure / constructor we can see."""
    c = ctor_of(fop)
    if c is not None and len(arg_places) == 1:
        vname, adt, idx = c
        return bld.block([assign(dest, variant(adt, vname, idx, [mv(arg_places[0])]), sp)], {"t": "goto", "target": target, "sp": sp, "exp": False})
    cl = closure_of(F, bld, fop)
    if cl is None:
        k = fop.get("k")
        if k and "fn" in k and isinstance(k["fn"], str):
            # a plain function passed by name (`.map_err(other_error)`): call it
            name = k["fn"]
            callee = {"def": name, "args": list(k.get("fn_args") or []), "self_ty": {"s": (k.get("fn_args") or ["?"])[0], "k": "synth"}, "local": name in F.bodies, "krate": "?", "unsafe": False, "res": {"def": name, "is_item": True, "local": name in F.bodies}, "synthetic": True}
            return bld.block([], {"t": "call", "callee": callee, "args": [mv(a) for a in arg_places], "arg_tys": ["?"] * len(arg_places), "dest": dest, "dest_ty": "?",
                                  "target": target, "unwind": unwind, "fn_span": sp, "sp": sp, "exp": False})
        return None
    cdef, clocal = cl
    if cdef in stack or depth >= MAX_DEPTH:
        return None
    craw = prepare(F, F.bodies[cdef][0], depth + 1, stack + (cdef,))[0]
    cm = craw["mir"]
    if len(cm["blocks"]) > MAX_BLOCKS:
        return None
    envty = cm["locals"][1]["ty"]["s"] if len(cm["locals"]) > 1 else ""
    if envty.startswith("&mut"):
        env = {"r": "ref", "mut": True, "p": P(clocal)}
    elif envty.startswith("&"):
        env = {"r": "ref", "mut": False, "p": P(clocal)}
    else:
        env = {"r": "use", "o": mv(P(clocal))}
    # closure bodies take their inputs as separate parameters after the environment
    entry, binds = bld.splice(craw, [None] + [mv(a) for a in arg_places], dest, target, unwind, sp, cdef)
    loff = entry_local_offset(bld, craw)
    binds = [assign(loff + 1, env, sp)] + binds
    pre = bld.block(binds, {"t": "goto", "target": entry, "sp": sp, "exp": False})
    bld.absorbed.add(cdef)
    return pre


def entry_local_offset(bld, craw):
    return len(bld.m["locals"]) - len(craw["mir"]["locals"])


def expand_call(F, bld, bi, depth, stack):
    blk = bld.m["blocks"][bi]
    t = blk["term"]
    kind = COMBINATORS.get(t["callee"].get("def"))
    if kind is None or t.get("target") is None:
        return False
    fam, meth = kind
    sp, dest, target, unwind = t["sp"], t["dest"], t["target"], t.get("unwind")
    args = t["args"]
    go = lambda b: {"t": "goto", "target": b, "sp": sp, "exp": False}
    sw = lambda op, zero, other: {"t": "switch", "discr": op, "discr_ty": "bool", "targets": [[0, zero]], "otherwise": other, "sp": sp, "exp": False,
                                  "expanded_call": t["callee"].get("def")}
    if fam == "fncall":
        # `f(x)` where f is a function parameter of an inlined helper bound to a fn item or a closure of this crate: call it directly
        fop = args[0]
        for _ in range(8):
            q = fop.get("m") or fop.get("c")
            if q is None or [e for e in q["p"] if e != "deref"]:
                break
            d = unique_def(bld, q["l"])
            if d is None or d[0] != "rv":
                break
            rv = d[1]
            if rv["r"] == "use":
                fop = rv["o"]
            elif rv["r"] == "ref" and not [e for e in rv["p"]["p"] if e != "deref"]:
                fop = {"c": {"l": rv["p"]["l"], "p": []}}
            else:
                break
        is_fn = bool(fop.get("k")) and "fn" in fop["k"]
        is_closure = closure_of(F, bld, fop) is not None
        if not (is_fn or is_closure) or len(args) != 2:
            return False
        # the argument tuple
        tq = args[1].get("m") or args[1].get("c")
        ops = None
        if tq is not None and not tq["p"]:
            d = unique_def(bld, tq["l"])
            if d is not None and d[0] == "rv" and d[1]["r"] == "agg" and d[1].get("agg") == "tuple":
                ops = list(d[1]["ops"])
        elif "k" in args[1]:
            ops = []
        if ops is None:
            return False
        tmps, pre = [], []
        for o in ops:
            tl = bld.local("?", "arg")
            pre.append(assign(tl, as_copy(o) if "k" not in o else o, sp))
            tmps.append(P(tl))
        entry = apply_fn(F, bld, fop, tmps, dest, target, unwind, sp, depth, stack)
        if entry is None:
            return False
        blk["stmts"] = list(blk["stmts"]) + pre
        blk["term"] = dict(go(entry), expanded_call=t["callee"].get("def"))
        return True
    if fam == "from":
        # `u64::from(flag)`, `usize::from(byte)`: the lossless conversions between primitive integers are casts
        ca = t["callee"].get("args") or []
        if len(ca) != 2 or ca[0] not in PRIMS or ca[1] not in PRIMS or len(args) != 1:
            return False
        blk["stmts"] = list(blk["stmts"]) + [assign(dest, {"r": "cast", "kind": "IntToInt", "o": args[0], "ty": ca[0]}, sp)]
        blk["term"] = dict(go(target), expanded_call=t["callee"].get("def"))
        return True
    if fam == "ptr":
        # `p.cast::<U>()` is `p as *const U`
        ca = t["callee"].get("args") or []
        if len(args) != 1 or not ca:
            return False
        mutp = "mut_ptr" in (t["callee"].get("def") or "")
        blk["stmts"] = list(blk["stmts"]) + [assign(dest, {"r": "cast", "kind": "PtrToPtr", "o": args[0], "ty": ("*mut " if mutp else "*const ") + ca[-1]}, sp)]
        blk["term"] = dict(go(target), expanded_call=t["callee"].get("def"))
        return True
    if fam == "range":
        b = range_bounds(F, bld, args[0], meth == "inclusive")
        item = args[1].get("m") or args[1].get("c")
        if b is None or item is None:
            return False
        lo, hi = as_copy(b[0]), as_copy(b[1])
        x = cp(P(item["l"], *(item["p"] + ["deref"])))
        ge = bld.local("bool")
        no = bld.block([assign(dest, konst(0, "bool"), sp)], go(target))
        yes = bld.block([assign(dest, {"r": "bin", "op": "Le" if meth == "inclusive" else "Lt", "a": x, "b": hi}, sp)], go(target))
        blk["stmts"] = list(blk["stmts"]) + [assign(ge, {"r": "bin", "op": "Ge", "a": x, "b": lo}, sp)]
        blk["term"] = sw(mv(P(ge)), no, yes)
        return True
    if fam == "bool":
        if meth == "then":
            r = bld.local("?", "then")
            fin = bld.block([assign(dest, variant(OPT, "Some", 1, [mv(P(r))]), sp)], go(target))
            yes = apply_fn(F, bld, args[1], [], P(r), fin, unwind, sp, depth, stack)
            if yes is None:
                return False
        else:
            yes = bld.block([assign(dest, variant(OPT, "Some", 1, [args[1]]), sp)], go(target))
        no = bld.block([assign(dest, variant(OPT, "None", 0, []), sp)], go(target))
        blk["term"] = sw(args[0], no, yes)
        return True
    if fam in ("opt", "res"):
        recv = args[0].get("m") or args[0].get("c")
        if recv is None:
            return False
        adt = OPT if fam == "opt" else RES
        good, good_i, bad, bad_i = ("Some", 1, "None", 0) if fam == "opt" else ("Ok", 0, "Err", 1)
        payload = bld.local("?", "payload")
        other = bld.local("?", "other")
        r = bld.local("?", "mapped")
        d = bld.local("isize")
        take_good = [assign(payload, mv(down(recv, good_i, good)), sp)]
        take_bad = [assign(other, mv(down(recv, bad_i, bad)), sp)] if fam == "res" else []
        keep_bad = variant(adt, bad, bad_i, [mv(P(other))] if fam == "res" else [])
        if meth == "map":
            fin = bld.block([assign(dest, variant(adt, good, good_i, [mv(P(r))]), sp)], go(target))
            f = apply_fn(F, bld, args[1], [P(payload)], P(r), fin, unwind, sp, depth, stack)
            g = bld.block(take_bad + [assign(dest, keep_bad, sp)], go(target))
        elif meth == "map_err":
            fin = bld.block([assign(dest, variant(adt, bad, bad_i, [mv(P(r))]), sp)], go(target))
            f0 = apply_fn(F, bld, args[1], [P(other)], P(r), fin, unwind, sp, depth, stack)
            if f0 is None:
                return False
            g = bld.block(take_bad, go(f0))
            f = bld.block(take_good + [assign(dest, variant(adt, good, good_i, [mv(P(payload))]), sp)], go(target))
            take_good = []
        elif meth == "map_or":
            f = apply_fn(F, bld, args[2], [P(payload)], dest, target, unwind, sp, depth, stack)
            g = bld.block([assign(dest, args[1], sp)], go(target))
        elif meth == "map_or_else":
            f = apply_fn(F, bld, args[2], [P(payload)], dest, target, unwind, sp, depth, stack)
            g = apply_fn(F, bld, args[1], [], dest, target, unwind, sp, depth, stack)
        elif meth == "and_then":
            f = apply_fn(F, bld, args[1], [P(payload)], dest, target, unwind, sp, depth, stack)
            g = bld.block(take_bad + [assign(dest, keep_bad, sp)], go(target))
        elif meth == "unwrap_or_else":
            f = bld.block([assign(dest, mv(P(payload)), sp)], go(target))
            g0 = apply_fn(F, bld, args[1], [P(other)] if fam == "res" else [], dest, target, unwind, sp, depth, stack)
            g = bld.block(take_bad, go(g0)) if g0 is not None else None
        elif meth == "ok_or":
            f = bld.block([assign(dest, variant(RES, "Ok", 0, [mv(P(payload))]), sp)], go(target))
            g = bld.block([assign(dest, variant(RES, "Err", 1, [args[1]]), sp)], go(target))
        elif meth == "unwrap_or":
            f = bld.block([assign(dest, mv(P(payload)), sp)], go(target))
            g = bld.block(take_bad + [assign(dest, args[1], sp)], go(target))
        elif meth == "ok_or_else":
            f = bld.block([assign(dest, variant(RES, "Ok", 0, [mv(P(payload))]), sp)], go(target))
            fin = bld.block([assign(dest, variant(RES, "Err", 1, [mv(P(r))]), sp)], go(target))
            g = apply_fn(F, bld, args[1], [], P(r), fin, unwind, sp, depth, stack)
        elif meth in ("is_some_and", "is_ok_and", "is_none_or"):
            f = apply_fn(F, bld, args[1], [P(payload)], dest, target, unwind, sp, depth, stack)
            g = bld.block([assign(dest, konst(1 if meth == "is_none_or" else 0, "bool"), sp)], go(target))
        elif meth == "filter":
            keep = bld.local("bool")
            pref = bld.local("&?")
            yes = bld.block([assign(dest, variant(OPT, "Some", 1, [mv(P(payload))]), sp)], go(target))
            g = bld.block([assign(dest, variant(OPT, "None", 0, []), sp)], go(target))
            test = bld.block([], sw(mv(P(keep)), g, yes))
            f0 = apply_fn(F, bld, args[1], [P(pref)], P(keep), test, unwind, sp, depth, stack)
            f = bld.block([assign(pref, {"r": "ref", "mut": False, "p": P(payload)}, sp)], go(f0)) if f0 is not None else None
        elif meth == "transpose":
            # Option<Result<T, E>> -> Result<Option<T>, E>
            inner = bld.local("?", "inner")
            d2 = bld.local("isize")
            okv = bld.local("?", "ok")
            errv = bld.local("?", "err")
            some = bld.local("?", "some")
            b_ok = bld.block([assign(okv, mv(down(P(payload), 0, "Ok")), sp), assign(some, variant(OPT, "Some", 1, [mv(P(okv))]), sp),
                              assign(dest, variant(RES, "Ok", 0, [mv(P(some))]), sp)], go(target))
            b_err = bld.block([assign(errv, mv(down(P(payload), 1, "Err")), sp), assign(dest, variant(RES, "Err", 1, [mv(P(errv))]), sp)], go(target))
            f = bld.block([assign(d2, {"r": "discr", "p": P(payload)}, sp)],
                          {"t": "switch", "discr": mv(P(d2)), "discr_ty": "isize", "targets": [[0, b_ok]], "otherwise": b_err, "sp": sp, "exp": False})
            none = bld.local("?", "none")
            g = bld.block([assign(none, variant(OPT, "None", 0, []), sp), assign(dest, variant(RES, "Ok", 0, [mv(P(none))]), sp)], go(target))
        elif meth == "or_else":
            f = bld.block([assign(dest, variant(adt, good, good_i, [mv(P(payload))]), sp)], go(target))
            g0 = apply_fn(F, bld, args[1], [P(other)] if fam == "res" else [], dest, target, unwind, sp, depth, stack)
            g = bld.block(take_bad, go(g0)) if g0 is not None else None
        else:
            return False
        if f is None or g is None:
            return False
        fa = bld.block(take_good, go(f)) if take_good else f
        blk["stmts"] = list(blk["stmts"]) + [assign(d, {"r": "discr", "p": recv}, sp)]
        blk["term"] = {"t": "switch", "discr": mv(P(d)), "discr_ty": "isize", "targets": [[good_i, fa]], "otherwise": g, "sp": sp, "exp": False,
                       "expanded_call": t["callee"].get("def")}
        return True
    # iterator adaptors: a loop over Iterator::next
    it = bld.local("?", "iter")
    itref = bld.local("&mut ?")
    item = bld.local("?", "item")
    x = bld.local("?", "next")
    d = bld.local("isize")
    nxt_callee = {"def": "std::iter::Iterator::next", "trait": "std::iter::Iterator", "args": [], "local": False, "krate": "core", "unsafe": False,
                  "self_ty": {"s": "?", "k": "synth"}, "synthetic": True}
    if meth == "rfind":
        nxt_callee = dict(nxt_callee, **{"def": "std::iter::DoubleEndedIterator::next_back", "trait": "std::iter::DoubleEndedIterator"})
    # the receiver's type is known from the call: resolve `next` to the implementation of this crate where there is one
    st_ = t["callee"].get("self_ty") or {}
    if st_.get("s"):
        nxt_callee["self_ty"] = st_
        base = st_["s"].split("<")[0]
        suffix = " as %s>::%s" % (nxt_callee["trait"], nxt_callee["def"].split("::")[-1])
        for cand in F.bodies:
            if cand.startswith("<" + base) and cand.endswith(suffix):
                nxt_callee["res"] = {"def": cand, "is_item": True, "local": True}
                nxt_callee["local"] = True
                break
    head = bld.block([assign(itref, {"r": "ref", "mut": True, "p": P(it)}, sp)], None)
    test = bld.block([assign(d, {"r": "discr", "p": P(x)}, sp)], None)
    bld.m["blocks"][head]["term"] = {"t": "call", "callee": nxt_callee, "args": [mv(P(itref))], "arg_tys": ["&mut ?"], "dest": P(x), "dest_ty": "?",
                                     "target": test, "unwind": unwind, "fn_span": sp, "sp": sp, "exp": False}
    if meth == "for_each":
        unit = bld.local("()")
        body = apply_fn(F, bld, args[1], [P(item)], P(unit), head, unwind, sp, depth, stack)
        done = bld.block([assign(dest, {"r": "agg", "agg": "tuple", "ops": []}, sp)], go(target))
    elif meth == "try_for_each":
        r = bld.local("?", "step")
        dr = bld.local("isize")
        stop = bld.block([assign(dest, mv(P(r)), sp)], go(target))
        chk = bld.block([assign(dr, {"r": "discr", "p": P(r)}, sp)],
                        {"t": "switch", "discr": mv(P(dr)), "discr_ty": "isize", "targets": [[0, head]], "otherwise": stop, "sp": sp, "exp": False})
        body = apply_fn(F, bld, args[1], [P(item)], P(r), chk, unwind, sp, depth, stack)
        done = bld.block([assign(dest, variant(RES, "Ok", 0, [{"k": {"zst": True, "ty": "()"}}]), sp)], go(target))
    elif meth in ("find", "rfind"):
        keep = bld.local("bool")
        pref = bld.local("&?")
        found = bld.block([assign(dest, variant(OPT, "Some", 1, [mv(P(item))]), sp)], go(target))
        tst = bld.block([], sw(mv(P(keep)), head, found))
        b0 = apply_fn(F, bld, args[1], [P(pref)], P(keep), tst, unwind, sp, depth, stack)
        body = bld.block([assign(pref, {"r": "ref", "mut": False, "p": P(item)}, sp)], go(b0)) if b0 is not None else None
        done = bld.block([assign(dest, variant(OPT, "None", 0, []), sp)], go(target))
    elif meth in ("any", "all"):
        keep = bld.local("bool")
        hit = bld.block([assign(dest, konst(1 if meth == "any" else 0, "bool"), sp)], go(target))
        tst = bld.block([], sw(mv(P(keep)), head, hit) if meth == "any" else sw(mv(P(keep)), hit, head))
        body = apply_fn(F, bld, args[1], [P(item)], P(keep), tst, unwind, sp, depth, stack)
        done = bld.block([assign(dest, konst(0 if meth == "any" else 1, "bool"), sp)], go(target))
    elif meth == "fold":
        acc = bld.local("?", "acc")
        nacc = bld.local("?", "acc")
        back = bld.block([assign(acc, mv(P(nacc)), sp)], go(head))
        body = apply_fn(F, bld, args[2], [P(acc), P(item)], P(nacc), back, unwind, sp, depth, stack)
        done = bld.block([assign(dest, mv(P(acc)), sp)], go(target))
        blk["stmts"] = list(blk["stmts"]) + [assign(acc, args[1], sp)]
    else:
        return False
    if body is None:
        return False
    some = bld.block([assign(item, mv(down(P(x), 1, "Some")), sp)], go(body))
    bld.m["blocks"][test]["term"] = {"t": "switch", "discr": mv(P(d)), "discr_ty": "isize", "targets": [[1, some]], "otherwise": done, "sp": sp, "exp": False}
    blk["stmts"] = list(blk["stmts"]) + [assign(it, args[0], sp)]
    blk["term"] = dict(go(head), expanded_call=t["callee"].get("def"))
    return True


def instantiate(F, craw, d, t):
    """A generic helper is inlined with its type parameters replaced by the call's generic arguments (in the strings that name
    callees, their generic arguments and receiver types): `select_with::<Identity>` reads `SelectSupport::<Identity>`, not `<T>`."""
    gens = (F.fns.get(d) or [{}])[0].get("generics") or []
    args = t["callee"].get("args") or []
    if not gens or len(gens) != len(args):
        return craw
    sub = [(g["name"], a) for g, a in zip(gens, args) if not g.get("lifetime") and g["name"] != a and re.match(r"^[A-Z][A-Za-z0-9]*$", g["name"])]
    if not sub:
        return craw

    def rep(x):
        if isinstance(x, str):
            for n, a in sub:
                if n in x:
                    x = re.sub(r"(?<![A-Za-z0-9_:])%s(?![A-Za-z0-9_])" % re.escape(n), a.replace("\\", "\\\\"), x)
            return x
        if isinstance(x, list):
            return [rep(y) for y in x]
        if isinstance(x, dict):
            return {k: (rep(v) if k in ("callee", "args", "inst", "self_ty", "s", "ty", "def_args", "impl_self", "fn_args", "dest_ty", "arg_tys") or isinstance(v, (dict, list)) else v)
                    for k, v in x.items()}
        return x
    out = dict(craw)
    out["mir"] = rep(craw["mir"])
    return out


def prepare(F, raw, depth=0, stack=()):
    """Returns (normalised raw, names of helpers / closures absorbed into it). raw itself is never modified."""
    cache = F.__dict__.setdefault("_inline_cache", {})
    key = raw["def"]
    if key in cache:
        return cache[key]
    if os.environ.get("VERIF_NO_INLINE") or baseline() is None:
        cache[key] = (raw, set())
        return cache[key]
    mir = raw["mir"]
    helper_calls = []
    comb_calls = []
    for bi, blk in enumerate(mir["blocks"]):
        t = blk["term"]
        if t["t"] != "call":
            continue
        d = callee_def(t)
        if d and d != raw["def"] and d not in stack and depth < MAX_DEPTH and is_helper(F, d):
            helper_calls.append((bi, d))
        elif t["callee"].get("def") in COMBINATORS and not os.environ.get("VERIF_NO_EXPAND"):
            comb_calls.append(bi)
    if not helper_calls and not comb_calls:
        cache[key] = (raw, set())
        return cache[key]
    bld = Builder(raw)
    for bi, d in helper_calls:
        craw, sub = prepare(F, F.bodies[d][0], depth + 1, stack + (raw["def"],))
        bld.absorbed.add(d)
        bld.absorbed |= sub
        blk = bld.m["blocks"][bi]
        t = blk["term"]
        craw = instantiate(F, craw, d, t)
        entry, binds = bld.splice(craw, t["args"], t["dest"], t.get("target"), t.get("unwind"), t["sp"], d)
        blk["stmts"] = list(blk["stmts"]) + binds
        blk["term"] = {"t": "goto", "target": entry, "sp": t["sp"], "exp": t.get("exp", False), "inlined_call": d}
    # combinators: also those that arrived with inlined helpers
    n = len(bld.m["blocks"])
    for bi in range(n):
        t = bld.m["blocks"][bi]["term"]
        if t["t"] == "call" and t["callee"].get("def") in COMBINATORS and not os.environ.get("VERIF_NO_EXPAND"):
            expand_call(F, bld, bi, depth, stack + (raw["def"],))
    for blk in bld.m["blocks"]:
        if blk["term"] is None:         # left behind by an expansion that was abandoned half-way: never entered
            blk["term"] = {"t": "unreachable", "sp": raw["span"], "exp": False}
    if any("{closure" in a for a in bld.absorbed):
        forward_closure_places(bld.m)
    bld.raw["inlined"] = sorted(bld.absorbed)
    cache[key] = (bld.raw, set(bld.absorbed))
    return cache[key]


def forward_closure_places(m):
    """After a closure body has been spliced in, its accesses to captured variables go through the environment: `(*(env.0)) = ..`
    with env = the closure aggregate and field 0 = `&mut (*self).next`.  The place-level analyses (who stores which field) look
    at projections, so such a place is rewritten to the captured place itself -- `(*self).next = ..` -- when every link is a local
    with exactly one definition: env <- move of the closure aggregate (or a borrow of it), field k of the aggregate <- a plain
    local, that local <- `&[mut] P` with P rooted in a parameter.  A sound identity rewrite (single definitions, parameter-rooted
    referents), applied only to places that start at a closure environment."""
    nargs = m["arg_count"]
    defs = {}
    for blk in m["blocks"]:
        for st in blk["stmts"]:
            if st.get("s") == "assign" and not st["lhs"]["p"]:
                defs.setdefault(st["lhs"]["l"], []).append(st["rv"])
            elif st.get("s") == "assign":
                defs.setdefault(st["lhs"]["l"], []).append("partial") if st["lhs"]["p"][0] != "deref" else None
        t = blk["term"]
        if t and t["t"] == "call" and not t["dest"]["p"]:
            defs.setdefault(t["dest"]["l"], []).append("call")

    def single(l):
        d = defs.get(l)
        return d[0] if d and len(d) == 1 and isinstance(d[0], dict) else None

    def plain(o):
        q = (o.get("m") or o.get("c")) if isinstance(o, dict) else None
        return q["l"] if q is not None and not q["p"] else None

    def closure_agg(l):
        """The closure aggregate a local holds (following moves), and whether the local is a reference to it."""
        byref = False
        for _ in range(8):
            rv = single(l)
            if rv is None:
                return None, byref
            if rv["r"] == "agg" and rv.get("agg") == "closure":
                return rv, byref
            if rv["r"] == "use":
                l = plain(rv["o"])
            elif rv["r"] == "ref" and not rv["p"]["p"]:
                l, byref = rv["p"]["l"], True
            else:
                return None, byref
            if l is None:
                return None, byref
        return None, byref

    def from_closure(l):
        return "{closure" in str(m["locals"][l].get("inlined_from") or "") if l < len(m["locals"]) else False

    def is_ref_ty(l):
        return str(m["locals"][l]["ty"].get("s", "")).startswith(("&", "*"))

    def rewrite(place):
        """All or nothing: the place is replaced only if the chain ends at a parameter."""
        if not place["p"] or place["l"] <= nargs or not from_closure(place["l"]):
            return place
        cur = {"l": place["l"], "p": list(place["p"])}
        for _ in range(16):
            if 1 <= cur["l"] <= nargs:
                out = dict(place)
                out["l"], out["p"] = cur["l"], cur["p"]
                return out
            pr = cur["p"]
            agg, byref = closure_agg(cur["l"])
            if agg is not None and pr:
                rest = pr
                if byref:
                    if rest[0] != "deref":
                        return place
                    rest = rest[1:]
                if not rest or not isinstance(rest[0], dict) or not isinstance(rest[0].get("f"), int) or rest[0]["f"] >= len(agg["ops"]):
                    return place
                cap = plain(agg["ops"][rest[0]["f"]])
                if cap is None:
                    return place
                cur = {"l": cap, "p": list(rest[1:])}
                continue
            rv = single(cur["l"])
            if rv is None:
                return place
            if pr and pr[0] == "deref" and rv["r"] in ("ref", "rawptr"):
                cur = {"l": rv["p"]["l"], "p": list(rv["p"]["p"]) + pr[1:]}           # *(&P) = P
                continue
            if rv["r"] == "use" and is_ref_ty(cur["l"]):
                q = rv["o"].get("m") or rv["o"].get("c")
                if q is None:
                    return place
                cur = {"l": q["l"], "p": list(q["p"]) + pr}                            # a copied / moved reference
                continue
            return place
        return place

    def walk(x):
        if isinstance(x, dict):
            if "l" in x and "p" in x and isinstance(x["l"], int) and isinstance(x["p"], list):
                return rewrite(x)
            return {k: walk(v) for k, v in x.items()}
        if isinstance(x, list):
            return [walk(v) for v in x]
        return x

    for blk in m["blocks"]:
        blk["stmts"] = [walk(st) for st in blk["stmts"]]
        if blk["term"] is not None:
            blk["term"] = walk(blk["term"])


def inline_raw(F, raw, depth=0, stack=()):
    return prepare(F, raw, depth, stack)


def absorbed(F):
    """Helpers unknown to the rules, and closures whose only use was expanded in place: analysed where they are used."""
    if "_absorbed" not in F.__dict__:
        out = set()
        called = set()
        for name, bs in F.bodies.items():
            for raw in bs:
                for blk in raw["mir"]["blocks"]:
                    t = blk["term"]
                    if t and t["t"] == "call":
                        d = callee_def(t)
                        if d and d != name:
                            called.add(d)
        for name in F.bodies:
            if is_helper(F, name):
                # a new *public* function is API surface, and a new function nobody calls has no context to be analysed in:
                # both are analysed as bodies of their own (only private helpers with callers are hidden behind their call sites)
                vis = ((F.fns.get(name) or [{}])[0]).get("vis", "pub")
                if vis != "pub" and name in called:
                    out.add(name)
        if baseline() is not None and not os.environ.get("VERIF_NO_INLINE"):
            for name, bs in F.bodies.items():
                if len(bs) == 1 and "{closure" not in name:
                    out |= {x for x in prepare(F, bs[0])[1] if "{closure" in x}
        F._absorbed = out
    return F._absorbed


def only_new(names):
    """All of these functions are new relative to the pinned tree (a who-may rule then reports "not established", not "refuted":
    a correct addition writes the same fields)."""
    base = baseline()
    names = [n.split(" (")[0] for n in names]
    return bool(names) and base is not None and all(n not in base for n in names)
