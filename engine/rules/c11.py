"""C11 -- conversions between bitvector types preserve the bits and are canonical (structural part).

 R1 each of the six From impls is exactly `Target::copy_bit_vec(&source)`
 R2 each copy_bit_vec replays source.one_iter() into the target's own builder, sized from the source
 R3 funnel: the three vector types are constructed nowhere but in their builder route and their loader
"""
from facts import Undecided, loc, tstr, callee_name, callee_written, subterms, operand_place, resolve_ref_local
from guards import facts_at, must_pass_through
from pat import m, Bind, ANY, Call, Bin, Const, Param, SelfField, core, self_path
from c06 import root_local

TYPES = {"bit_vector::BitVector": "BitVector", "sparse_vector::SparseVector": "SparseVector", "rl_vector::RLVector": "RLVector"}

META = {
    "level": "other",
    "technique": "static analysis: delegation shape of the From impls, call-sequence/provenance in copy_bit_vec, who-may-construct funnel (MIR, rustc_private driver)",
    "explanation": "Representation can depend on the construction route only if some route bypasses the type's single builder. The check "
                   "enumerates every aggregate of the three vector types in the crate (must be the builder/From/load functions), shows each "
                   "From conversion is a single delegating call, and that copy_bit_vec feeds exactly source.one_iter() positions into the "
                   "target builder created from source.len()/count_ones(). R4: From<RawVector> counts set bits by whole-word popcount, so every RawVector "
                   "operation that shrinks or rebuilds the vector must clear the tail of the last word on all paths (the C05.R1 rule). "
                   "Determinism of the builders themselves (merging, bucket maths) is arithmetic and not decided.",
    "trusted_base": ["rustc's MIR faithfully represents the source"],
    "assumptions": ["one_iter() of a well-formed source yields its set positions in increasing order"],
}

# who may construct (A10), per type
ALLOWED_CONSTRUCTORS = {
    "bit_vector::BitVector": {"<bit_vector::BitVector as std::convert::From<raw_vector::RawVector>>::from",
                              "<bit_vector::BitVector as std::iter::FromIterator<bool>>::from_iter",
                              "<bit_vector::BitVector as serialize::Serialize>::load",
                              "<bit_vector::BitVector as std::clone::Clone>::clone"},
    "sparse_vector::SparseVector": {"sparse_vector::SparseBuilder::new", "sparse_vector::SparseBuilder::multiset",
                                    "<sparse_vector::SparseVector as std::convert::TryFrom<sparse_vector::SparseBuilder>>::try_from",   # (the end of the builder route)
                                    "<sparse_vector::SparseVector as serialize::Serialize>::load",
                                    "<sparse_vector::SparseVector as std::clone::Clone>::clone"},
    "rl_vector::RLVector": {"<rl_vector::RLVector as std::convert::From<rl_vector::RLBuilder>>::from",
                            "<rl_vector::RLVector as serialize::Serialize>::load",
                            "<rl_vector::RLVector as std::clone::Clone>::clone"},
}


def check(ctx):
    configs = ["native"] if ctx.tier == "quick" else ["native", "portable", "native-rel", "portable-rel"]
    for cfg in configs:
        check_config(ctx, ctx.facts(cfg), "" if cfg == "native" else "@" + cfg)


def check_try_from_iter(ctx, F, tag):
    """SparseVector::try_from_iter sizes its builder with the number of items of the iterator, measured before any item is taken
    from it (the last one is taken first to learn the universe). A count taken after `next_back()` and corrected by hand is wrong
    for the empty iterator, whose result must be the empty vector."""
    b = F.body("sparse_vector::SparseVector::try_from_iter")
    ms = [(bi, t) for bi, t in b.calls() if callee_name(t) == "sparse_vector::SparseBuilder::multiset"]
    takes = [bi for bi, t in b.calls() if callee_name(t).split("::")[-1] in ("next_back", "next", "last", "nth", "nth_back")]
    ok = len(ms) == 1
    detail = "%d SparseBuilder::multiset calls" % len(ms)
    if ok:
        cap = core(b.term_of_operand(ms[0][1]["args"][1]))
        inner = cap[1] if cap[0] == "field" and cap[2] == "0" else cap
        inner = core(inner)
        is_count = inner[0] == "call" and inner[1].split("::")[-1] in ("size_hint", "len") and len(inner[2]) == 1 and core(inner[2][0])[:2] == ("param", 0) and \
            (cap[0] == "field") == (inner[1].split("::")[-1] == "size_hint")
        count_blocks = [bi for bi, t in b.calls() if callee_name(t) == inner[1]] if is_count else []
        before = bool(count_blocks) and all(not any(c in b.reach_from(b.succ(tk)) or c == tk for tk in takes) for c in count_blocks)
        ok = is_count and before
        detail = "capacity = %s; it is the iterator's own count: %s; measured before any item is taken: %s" % (tstr(cap)[:70], is_count, before)
    ctx.ob("C11.R5.iterator-route-capacity", b.name + tag, loc(b.raw["span"]), ok, "term-provenance+must-precede", detail)
    # ... and the item taken first (the last position) is given back to the builder only if there was one: for the empty
    # iterator nothing is set and the result is the empty vector (a try_set on the zero-capacity builder is an error)
    from guards import facts_at, fact_nonzero
    late = []
    for bi, t in b.calls():
        if callee_name(t) != "sparse_vector::SparseBuilder::try_set":
            continue
        arg = b.term_of_operand(t["args"][1])
        if any(x[0] == "call" and x[4] == "std::iter::Iterator::next" for x in subterms(arg)):
            continue                                    # an item of the loop over the remaining iterator
        fs = facts_at(b, bi)
        some = any(f[0] == "discr" and f[2] == 1 and any(x[0] == "call" and x[1].split("::")[-1] == "next_back" for x in subterms(f[1])) for f in fs)
        nz = any(fact_nonzero(fs, x) for x in subterms(arg) if x[0] in ("var", "field", "downcast"))
        # `if let Some(last) = universe.checked_sub(1)`: Some exactly when universe >= 1
        vars_ = [x for x in subterms(arg) if x[0] in ("var", "field", "downcast")]
        for f in fs:
            if f[0] == "discr" and f[2] == 1:
                for x in subterms(f[1]):
                    if x[0] == "call" and x[1].split("::")[-1] == "checked_sub" and len(x[2]) == 2 and core(x[2][1])[0] == "const" and isinstance(core(x[2][1])[1], int) and \
                            core(x[2][1])[1] >= 1 and any(core(x[2][0]) == core(v) for v in vars_):
                        nz = True
        late.append((loc(t["sp"]), some or nz))
    ctx.ob("C11.R5.last-item-set-only-when-taken", b.name + tag, loc(b.raw["span"]), all(o for _, o in late) if late else None, "guard-dominance",
           "try_set calls outside the loop (the item taken by next_back), each behind `next_back() is Some` / `universe != 0`: %s" % late)


def check_config(ctx, F, tag):
    check_try_from_iter(ctx, F, tag)
    # (borrowed) every route into the run-length vector ends in From<RLBuilder>, every route into the sparse vector builds the
    # select structures over `high`: what those constructors derive from the builder (the two sample indexes; the select
    # pointers and offsets) is part of "the same structure whatever the route" -- a conversion that answers get / select wrongly
    # has not produced the vector of the source's bits (C06.R5 tables, C01.R4 store / read agreement)
    from core import Relabel
    if not isinstance(ctx, Relabel):
        import rltables, c01
        rltables.check_tables(ctx, F, tag, "C11.R6.rl")
        import c06
        c06.check_sparse_bucket_count(ctx, F, tag, "C11.R6.sparse-bucket-count")     # every route into the sparse vector sizes `high` by it
        c01.check_select_layout(Relabel(ctx, {"C01.R4.select-store-read-agreement": "C11.R6.select-store-read-agreement"}), F, tag)
    # ---------------- R4: From<RawVector> for BitVector counts set bits with a popcount over whole words, so the conversion is
    # canonical (equal to what the bit-at-a-time route builds) only while the bits past `len` in the last word are zero
    import c05
    c05.check_tail_invariant(ctx, F, tag, prefix="C11.R4.unused-bits-zero")
    c05.check_grow_fill(ctx, F, tag, prefix="C11.R4")     # the by-runs route through RawVector::resize(_, true)
    c05.check_word_count(ctx, F, tag, rule="C11.R4.word-count-follows-length")   # the pop route: no word (and no popped bit) survives past the end
    import c16
    c16.check_noop_and_flush(ctx, F, tag, prefix="C11.R3.builder")     # maximal runs: a zero-length piece does not split one; conversion flushes first
    c16.check_set_len_extends(ctx, F, tag, rule="C11.R3.builder.set-len-without-effect-does-not-flush")   # nor does a set_len that changes nothing
    # ---------------- R1
    n = 0
    for im in F.impls_of("std::convert::From"):
        tgt = im["self_ty"].get("def")
        src = (im.get("trait_args") or ["", ""])[1]
        if tgt in TYPES and src in TYPES and src != tgt:
            n += 1
            fn = [i for i in im["items"] if i["name"] == "from"][0]["def"]
            b = F.body(fn)
            calls = [(bi, t) for bi, t in b.calls()]
            ok = len(calls) == 1
            detail = "calls %s" % [callee_name(t) for _, t in calls]
            if ok:
                t = calls[0][1]
                ok = callee_name(t) == tgt + "::copy_bit_vec" and src in t["callee"]["args"] and t["dest"]["l"] == 0 and not t["dest"]["p"] and \
                    core(b.term_of_operand(t["args"][0]))[:2] == ("param", 0)
                detail = "from(source) = %s::copy_bit_vec::<%s>(&source), returned: %s" % (TYPES[tgt], TYPES[src], ok)
            ctx.ob("C11.R1.from-delegates", "%s<-%s%s" % (TYPES[tgt], TYPES[src], tag), loc(b.raw["span"]), ok, "call-sequence", detail)
    ctx.count("bitvector-conversions" + tag, n)
    ctx.floor("bitvector-conversions" + tag, 6)

    # ---------------- R2
    def loop_item_is_one_iter(b, term):
        """term is the position component of an item of source.one_iter()."""
        # the item must come from Iterator::next on exactly into_iter(source.one_iter()) -- no adapters in between
        for x in subterms(term):
            if x[0] == "call" and x[4] == "std::iter::Iterator::next":
                # (through the `for` loop's into_iter, or on the iterator itself in a `while let`)
                return m(Call(lambda n_: n_.endswith("::into_iter"), Call("ops::Select::one_iter", Param(0))), x[2][0]) or \
                    m(Call("ops::Select::one_iter", Param(0)), x[2][0])
        return False

    # BitVector
    b = F.body("bit_vector::BitVector::copy_bit_vec")
    wl = [(bi, t) for bi, t in b.calls() if callee_name(t) == "raw_vector::RawVector::with_len"]
    sb = [(bi, t) for bi, t in b.calls() if callee_name(t).endswith("AccessRaw>::set_bit")]
    fr = [(bi, t) for bi, t in b.calls() if callee_name(t) == "<bit_vector::BitVector as std::convert::From<raw_vector::RawVector>>::from" or
          # (`data.into()`: the blanket Into of the same From impl)
          (callee_name(t).endswith("::into") and "Into<bit_vector::BitVector>" in ((t.get("callee") or {}).get("res") or {}).get("inst", callee_name(t)) and
           "raw_vector::RawVector" in ((t.get("callee") or {}).get("res") or {}).get("inst", callee_name(t)))]
    ok = len(wl) == 1 and len(sb) == 1 and len(fr) == 1
    detail = "with_len/set_bit/from call counts %d/%d/%d" % (len(wl), len(sb), len(fr))
    if ok:
        a = m(Call("ops::BitVec::len", Param(0)), b.term_of_operand(wl[0][1]["args"][0])) and m(Const(0), b.term_of_operand(wl[0][1]["args"][1]))
        data = wl[0][1]["dest"]["l"]
        s_ok = resolve_ref_local(b, sb[0][1]["args"][0]) is not None and root_local(b, {"l": resolve_ref_local(b, sb[0][1]["args"][0]), "p": []}) == root_local(b, {"l": data, "p": []}) and \
            loop_item_is_one_iter(b, b.term_of_operand(sb[0][1]["args"][1])) and m(Const(1), b.term_of_operand(sb[0][1]["args"][2])) and sb[0][0] in b.loop_blocks()
        f_ok = root_local(b, fr[0][1]["args"][0]) == root_local(b, {"l": data, "p": []}) and fr[0][1]["dest"]["l"] == 0
        only = sorted({callee_name(t).split("::")[-1] for _, t in b.calls()})
        ok = a and s_ok and f_ok
        detail = "RawVector::with_len(source.len(), false): %s; set_bit(one_iter position, true) in the loop: %s; BitVector::from(data) returned: %s" % (a, s_ok, f_ok)
    ctx.ob("C11.R2.copy-bit-vec-route", "BitVector" + tag, loc(b.raw["span"]), ok, "provenance", detail)
    # SparseVector
    b = F.body("sparse_vector::SparseVector::copy_bit_vec")
    nw = [(bi, t) for bi, t in b.calls() if callee_name(t) == "sparse_vector::SparseBuilder::new"]
    su = [(bi, t) for bi, t in b.calls() if callee_name(t) == "sparse_vector::SparseBuilder::set_unchecked"]
    tf = [(bi, t) for bi, t in b.calls() if callee_name(t).startswith("<sparse_vector::SparseVector as std::convert::TryFrom<sparse_vector::SparseBuilder>>::try_from")]
    ok = len(nw) == 1 and len(su) == 1 and len(tf) == 1
    detail = "new/set_unchecked/try_from call counts %d/%d/%d" % (len(nw), len(su), len(tf))
    if ok:
        a = m(Call("ops::BitVec::len", Param(0)), b.term_of_operand(nw[0][1]["args"][0])) and m(Call("ops::BitVec::count_ones", Param(0)), b.term_of_operand(nw[0][1]["args"][1]))
        s_ok = loop_item_is_one_iter(b, b.term_of_operand(su[0][1]["args"][1])) and su[0][0] in b.loop_blocks() and \
            m(Call(lambda n_: n_.endswith("::unwrap"), Call("sparse_vector::SparseBuilder::new", ANY, ANY)), b.term_of_operand(su[0][1]["args"][0]))
        f_ok = m(Call(lambda n_: n_.endswith("::unwrap"), Call("sparse_vector::SparseBuilder::new", ANY, ANY)), b.term_of_operand(tf[0][1]["args"][0]))
        ok = a and s_ok and f_ok
        detail = "SparseBuilder::new(source.len(), source.count_ones()): %s; set_unchecked(one_iter position) in the loop: %s; try_from(builder): %s" % (a, s_ok, f_ok)
    ctx.ob("C11.R2.copy-bit-vec-route", "SparseVector" + tag, loc(b.raw["span"]), ok, "provenance", detail)
    # RLVector
    b = F.body("rl_vector::RLVector::copy_bit_vec")
    nw = [(bi, t) for bi, t in b.calls() if callee_name(t) == "rl_vector::RLBuilder::new"]
    su = [(bi, t) for bi, t in b.calls() if callee_name(t) == "rl_vector::RLBuilder::set_bit_unchecked"]
    sl = [(bi, t) for bi, t in b.calls() if callee_name(t) == "rl_vector::RLBuilder::set_len"]
    fr = [(bi, t) for bi, t in b.calls() if callee_name(t) == "<rl_vector::RLVector as std::convert::From<rl_vector::RLBuilder>>::from"]
    ok = len(nw) == 1 and len(su) == 1 and len(sl) == 1 and len(fr) == 1
    detail = "new/set_bit_unchecked/set_len/from call counts %d/%d/%d/%d" % (len(nw), len(su), len(sl), len(fr))
    if ok:
        s_ok = loop_item_is_one_iter(b, b.term_of_operand(su[0][1]["args"][1])) and su[0][0] in b.loop_blocks() and m(Call("rl_vector::RLBuilder::new"), b.term_of_operand(su[0][1]["args"][0]))
        l_ok = m(Call("ops::BitVec::len", Param(0)), b.term_of_operand(sl[0][1]["args"][1])) and m(Call("rl_vector::RLBuilder::new"), b.term_of_operand(sl[0][1]["args"][0])) and \
            must_pass_through(b, 0, [sl[0][0]]) and b.dominates(sl[0][0], fr[0][0])
        f_ok = m(Call("rl_vector::RLBuilder::new"), b.term_of_operand(fr[0][1]["args"][0])) and fr[0][1]["dest"]["l"] == 0
        ok = s_ok and l_ok and f_ok
        detail = "set_bit_unchecked(one_iter position) in the loop: %s; set_len(source.len()) on every path before RLVector::from(builder): %s; returned: %s" % (s_ok, l_ok, f_ok)
    ctx.ob("C11.R2.copy-bit-vec-route", "RLVector" + tag, loc(b.raw["span"]), ok, "provenance", detail)

    # ---------------- R3 funnel
    for adt, allowed in ALLOWED_CONSTRUCTORS.items():
        found = set()
        for b in F.all_bodies():
            for bi, si, st in b.stmts():
                if st["s"] == "assign" and st["rv"]["r"] == "agg" and st["rv"].get("def") == adt:
                    found.add(b.name)
        ctx.count("constructors-" + TYPES[adt] + tag, len(found))
        extra = sorted(found - allowed)
        import inline
        ctx.ob("C11.R3.who-may-construct", TYPES[adt] + tag, loc(F.adt(adt)["span"]), (not extra and bool(found)) if not inline.only_new(extra) else None, "who-may-construct",
               "%s aggregates in %s; outside the builder/loader funnel: %s" % (TYPES[adt], sorted(x.split("::")[-1] + "@" + x.split(" ")[0][-12:] for x in found), extra))
        ctx.floor("constructors-" + TYPES[adt] + tag, 2)
    # builder call decompositions of the same run list give the same vector only if the builder's tied fields move together
    import c16
    c16.check_comutation(ctx, F, tag, prefix="C11.R3.builder")
    # the sparse builder's parameters depend only on (universe, ones)
    gp = F.fn("sparse_vector::SparseBuilder::get_params")
    ctx.ob("C11.R3.sparse-params-from-len-ones", "sparse_vector::SparseBuilder::get_params" + tag, loc(gp["span"]), gp["sig"].startswith("fn(usize, usize)"), "signature",
           "get_params signature %s (no other inputs)" % gp["sig"], nontrivial=False)
    for ctor in ("sparse_vector::SparseBuilder::new", "sparse_vector::SparseBuilder::multiset"):
        b = F.body(ctor)
        gpc = [(bi, t) for bi, t in b.calls() if callee_name(t) == "sparse_vector::SparseBuilder::get_params"]
        ok = len(gpc) == 1 and core(b.term_of_operand(gpc[0][1]["args"][0]))[:2] == ("param", 0) and core(b.term_of_operand(gpc[0][1]["args"][1]))[:2] == ("param", 1)
        if not ok and not gpc:
            # one constructor delegating to the other with its own two arguments (`..Self::multiset(universe, ones)`)
            other = [t for bi, t in b.calls() if callee_name(t) in ("sparse_vector::SparseBuilder::new", "sparse_vector::SparseBuilder::multiset") and callee_name(t) != ctor]
            ok = len(other) == 1 and core(b.term_of_operand(other[0]["args"][0]))[:2] == ("param", 0) and core(b.term_of_operand(other[0]["args"][1]))[:2] == ("param", 1)
        ctx.ob("C11.R3.sparse-ctor-uses-params", ctor + tag, loc(b.raw["span"]), ok, "provenance", "get_params(universe, ones) with the constructor's own arguments: %s" % ok, nontrivial=False)
