"""A3 -- raw-value propagation (the range checker behind C09.R1, C08.R3, C10.R3).

Scalar parameters of the *total* entry points start Raw (may be usize::MAX). A value is raw-derived if its term is built from a
Raw parameter by copy, cast, + * << | (not by / >> % & with a trusted operand, which shrink it; not by min with a trusted value).
It is bounded at a program point if a dominating comparison bounds it above by a term that is not raw-derived.
Alarm sites: an overflow assertion with a raw-derived unbounded operand (debug panic, release wrap), a panic edge whose
condition depends on one, `unwrap` of a crate call that received one, and (recorded for C08) an unsafe callee receiving one.
Raw-ness propagates into crate-local callees (context-insensitive join over the call sites reached).
"""
from facts import Undecided, loc, tstr, callee_name, callee_written, subterms, operand_place
from guards import edge_facts, strip_casts

PANIC_FNS = ("core::panicking::", "std::rt::begin_panic", "core::option::unwrap_failed", "core::option::expect_failed",
             "core::result::unwrap_failed", "std::rt::panic_fmt", "core::panicking::assert_failed")
USIZE_MAX = 2 ** 64 - 1
SCALARS = ("usize", "u64", "u32", "u16", "u8", "isize", "i64")


def is_panic_call(t):
    if t["t"] != "call" or t.get("target") is not None:
        return False
    n = callee_name(t)
    return n.startswith(PANIC_FNS) or "panicking" in n


class Analysis:
    def __init__(self, F, mode="huge"):
        """mode "huge": raw = may be near usize::MAX (x >> w, x / n with trusted w, n are no longer raw);
        mode "unvalidated": raw = not yet compared with anything -- also survives >> and / (an out-of-range rank or index stays
        out of range after scaling); used for the `unwrap` sink only."""
        self.F = F
        self.mode = mode
        self.raw_params = {}      # fn -> set(param index)
        self.origin = {}          # (fn, idx) -> (caller fn, where, arg term)
        self._ub_guard = set()
        self.all_origins = {}     # (fn, idx) -> [every (caller fn, where, arg term) that passes an unbounded raw value]
        self.alarms = {}          # key -> dict
        self.unsafe_raw = {}      # key -> dict  (raw-derived unbounded value passed to an unsafe callee)
        self.analysed = {}        # fn -> frozenset raw params it was analysed with
        self.summ = {}
        self.sites = 0
        self.trait_impls = {}
        for im in F.impls:
            if im.get("trait"):
                for it in im["items"]:
                    self.trait_impls.setdefault((im["trait"], it["name"]), []).append(it["def"])

    # ------------------------------------------------------------------ raw-ness of terms
    def israw(self, b, R, t, memo=None, depth=0):
        if memo is None:
            memo = {}
        if not isinstance(t, tuple) or not t or depth > 60:
            return False
        k = t[0]
        if k == "param":
            return t[1] in R
        if k == "var":
            key = ("v", t[1])
            if key in memo:
                return memo[key]
            memo[key] = False
            res = False
            if 1 <= t[1] <= b.nargs and (t[1] - 1) in R:
                res = True
            for (bi, si, kind, payload) in b.defs().get(t[1], []):
                if kind == "assign":
                    if self.israw(b, R, b.term_of_rvalue(payload), memo, depth + 1):
                        res = True
                elif kind == "call":
                    if self.israw(b, R, b.term_of_call(payload), memo, depth + 1):
                        res = True
            memo[key] = res
            return res
        if k in ("const", "namedconst", "constref", "static", "bytes", "fn", "zst", "constdbg", "promoted", "index", "discr", "overflowflag"):
            return False
        if k in ("cast", "ref", "deref", "downcast"):
            return self.israw(b, R, t[1], memo, depth + 1)
        if k == "field":
            return self.israw(b, R, t[1], memo, depth + 1)
        if k == "un":
            return self.israw(b, R, t[2], memo, depth + 1) if t[1] in ("Not", "Neg") else False
        if k == "bin":
            op, x, y = t[1], t[2], t[3]
            rx = self.israw(b, R, x, memo, depth + 1)
            ry = self.israw(b, R, y, memo, depth + 1)
            if op in ("Div", "Shr") and self.mode == "unvalidated":
                return rx
            if op in ("Div", "Rem", "Shr"):
                return rx and ry
            if op == "BitAnd":
                return rx and ry
            if op == "Sub":
                return rx
            if op in ("Add", "Mul", "Shl", "BitOr", "BitXor", "AddWithOverflow", "MulWithOverflow", "SubWithOverflow"):
                return rx or ry if not op.startswith("Sub") else rx
            return False
        if k in ("tuple", "array"):
            return any(self.israw(b, R, x, memo, depth + 1) for x in t[1])
        if k == "adt":
            return any(self.israw(b, R, x, memo, depth + 1) for x in t[4])
        if k == "call":
            name, args = t[1], t[2]
            last = name.split("::")[-1].split("<")[0]
            if name.endswith("cmp::min") or last == "min":
                return len(args) == 2 and all(self.israw(b, R, a, memo, depth + 1) for a in args)
            if name.endswith("cmp::max") or last == "max":
                return any(self.israw(b, R, a, memo, depth + 1) for a in args)
            if "core::num::" in name and last in ("saturating_add", "wrapping_add", "checked_add", "overflowing_add", "saturating_mul", "wrapping_mul", "checked_mul"):
                return any(self.israw(b, R, a, memo, depth + 1) for a in args)
            if "core::num::" in name and last in ("saturating_sub", "wrapping_sub", "checked_sub"):
                return bool(args) and self.israw(b, R, args[0], memo, depth + 1)
            if last in ("branch", "from", "into", "clone", "unwrap", "expect", "unwrap_or", "map", "ok_or", "ok") and args:
                return self.israw(b, R, args[0], memo, depth + 1)
            if self.F.has_body(name):
                dep = self.ret_depends(name)
                return any(i < len(args) and self.israw(b, R, args[i], memo, depth + 1) for i in dep)
            return False
        return False

    def ret_depends(self, fn):
        """Parameter indices that the return value of crate function `fn` is raw-derived from."""
        if fn in self.summ:
            return self.summ[fn]
        self.summ[fn] = set()
        try:
            cb = self.F.body(fn)
        except Undecided:
            return set()
        out = set()
        rt = cb.term_of_local(0)
        rets = cb.return_blocks()
        for i in range(cb.nargs):
            if cb.local_ty(i + 1) in SCALARS and self.israw(cb, {i}, rt):
                # the callee may bound what it returns itself (`if index >= self.len() { return None }` before building the
                # result): then the caller receives a bounded value whatever it passed
                if rets and all(self.upper_bounded(cb, {i}, r, rt) for r in rets):
                    continue
                out.add(i)
        self.summ[fn] = out
        return out

    # ------------------------------------------------------------------ boundedness
    def facts_valid_at(self, b, block):
        """cmp facts holding on entry of `block`; facts about reassigned locals are dropped if a redefinition may intervene."""
        out = []
        for u, v, f in self._efacts(b):
            if f[0] not in ("cmp", "bool") or b.pred(v) != [u] or not b.dominates(v, block):
                continue
            bad = False
            for x in subterms(f[2] if f[0] == "cmp" else f[1]) if f[0] == "bool" else list(subterms(f[2])) + list(subterms(f[3])):
                if x[0] == "var":
                    for (d, si, kind, _) in b.defs().get(x[1], []):
                        # a redefinition between the guard edge and the use invalidates the fact, unless every path from the
                        # redefinition to the use re-enters through the guard block (loop condition re-evaluated)
                        if d in self._reach(b, v) and d != u and block in b.reach_from([d], avoid={u}):
                            if d == block and d == v:
                                continue
                            bad = True
            if not bad:
                out.append(f)
        # discriminant-correlated facts (a helper that returns Ok only behind its own checks, inlined): see guards.facts_at
        from guards import facts_at
        direct = [f for u, v, f in self._efacts(b)]
        for f in facts_at(b, block):
            if f[0] in ("cmp", "bool") and f not in out and not (f in direct and any(b.pred(v) == [u] and b.dominates(v, block) for u, v, g in self._efacts(b) if g == f)):
                out.append(f)
        return out

    def _efacts(self, b):
        if not hasattr(b, "_ef"):
            b._ef = edge_facts(b)
        return b._ef

    def _reach(self, b, x):
        if not hasattr(b, "_rc"):
            b._rc = {}
        if x not in b._rc:
            b._rc[x] = b.reach_from([x])
        return b._rc[x]

    def upper_bounded(self, b, R, block, t, facts=None, depth=0):
        """t (raw-derived) has a dominating upper bound by a non-raw term, or is built from such values."""
        if not self.israw(b, R, t):
            return True
        if depth > 8:
            return False
        if facts is None:
            facts = self.facts_valid_at(b, block)
        t0 = strip_casts(t)
        from guards import validated_by_ctor, facts_at as _facts_at
        if block is not None and validated_by_ctor(_facts_at(b, block), t0):
            return True             # accepted as a width by a validating constructor (`IntVector::new(w)?`)
        for f in facts:
            if f[0] == "bool":
                # predicate summaries: a crate-local bool function whose `true` implies bounds on its arguments
                if f[2] is True and f[1][0] == "call" and self.F.has_body(f[1][1]):
                    for (op, ai, other_is_raw) in self.true_implies(f[1][1]):
                        if ai < len(f[1][2]) and strip_casts(f[1][2][ai]) == t0 and op in ("Lt", "Le") and not other_is_raw:
                            return True
                continue
            op, a, c = f[1], strip_casts(f[2]), strip_casts(f[3])
            if op in ("Lt", "Le", "Eq") and a == t0 and not self.israw(b, R, c):
                return True
            if op in ("Gt", "Ge", "Eq") and c == t0 and not self.israw(b, R, a):
                return True
        if t0[0] == "var":
            # a reassigned local is bounded if each of its definitions is bounded where it is made (a definition that feeds on the
            # local itself -- loop-carried -- is bounded by induction)
            key = ("ub", id(b), t0[1])
            if key in self._ub_guard:
                return True
            self._ub_guard.add(key)
            try:
                ds = [d for d in b.defs().get(t0[1], []) if d[2] in ("assign", "call")]
                if ds and not (1 <= t0[1] <= b.nargs):
                    ok = True
                    for (bi, si, kind, payload) in ds:
                        vt = b.term_of_rvalue(payload) if kind == "assign" else b.term_of_call(payload)
                        if self.israw(b, R, vt) and not self.upper_bounded(b, R, bi, vt, None, depth + 1):
                            ok = False
                    if ok:
                        return True
            finally:
                self._ub_guard.discard(key)
        if t0[0] == "bin" and t0[1] in ("Add", "Mul", "Shl", "BitOr"):
            return self.upper_bounded(b, R, block, t0[2], facts, depth + 1) and self.upper_bounded(b, R, block, t0[3], facts, depth + 1)
        if t0[0] == "bin" and t0[1] in ("Sub", "Shr", "Div"):
            return self.upper_bounded(b, R, block, t0[2], facts, depth + 1)
        if t0[0] == "field" or t0[0] in ("downcast", "ref", "deref"):
            return self.upper_bounded(b, R, block, t0[1], facts, depth + 1)
        if t0[0] == "call":
            name, args = t0[1], t0[2]
            last = name.split("::")[-1].split("<")[0]
            if last in ("branch", "from", "into", "clone", "unwrap", "saturating_sub", "wrapping_sub", "checked_sub") and args:
                return self.upper_bounded(b, R, block, args[0], facts, depth + 1)
            if "core::num::" in name and last in ("saturating_add", "checked_add", "wrapping_add", "saturating_mul"):
                return all(self.upper_bounded(b, R, block, a, facts, depth + 1) for a in args)
            if self.F.has_body(name):
                dep = self.ret_depends(name)
                return all(self.upper_bounded(b, R, block, args[i], facts, depth + 1) for i in dep if i < len(args))
        if t0[0] in ("tuple",):
            return all(self.upper_bounded(b, R, block, x, facts, depth + 1) for x in t0[1])
        if t0[0] == "adt":
            return all(self.upper_bounded(b, R, block, x, facts, depth + 1) for x in t0[4])
        return False

    def true_implies(self, fn):
        """For a bool-returning crate function: [(op, param index, other-side-depends-on-params)] facts that hold whenever it returns true."""
        key = ("ti", fn)
        if key in self.summ:
            return self.summ[key]
        self.summ[key] = []
        cb = self.F.body(fn)
        if cb.local_ty(0) != "bool":
            return []
        nonfalse = []
        for (bi, si, kind, payload) in cb.defs().get(0, []):
            if kind == "assign":
                t = cb.term_of_rvalue(payload)
                if not (t[0] == "const" and t[1] == 0):
                    nonfalse.append((bi, t))
            else:
                nonfalse.append((bi, cb.term_of_call(payload)))
        if not nonfalse:
            return []
        common = None
        for bi, t in nonfalse:
            fs = set()
            for f in self.facts_valid_at(cb, bi):
                if f[0] == "cmp":
                    fs.add(f)
            # the returned comparison itself is a fact when it is true
            t0 = strip_casts(t)
            if t0[0] == "bin" and t0[1] in ("Lt", "Le", "Gt", "Ge", "Eq", "Ne"):
                fs.add(("cmp", t0[1], t0[2], t0[3]))
            common = fs if common is None else (common & fs)
        out = []
        for f in common or []:
            op, a, c = f[1], strip_casts(f[2]), strip_casts(f[3])
            if a[0] == "param" and op in ("Lt", "Le"):
                out.append((op, a[1], any(x[0] == "param" and cb.local_ty(x[1] + 1) in SCALARS for x in subterms(c))))
            if c[0] == "param" and op in ("Gt", "Ge"):
                out.append(({"Gt": "Lt", "Ge": "Le"}[op], c[1], any(x[0] == "param" and cb.local_ty(x[1] + 1) in SCALARS for x in subterms(a))))
        self.summ[key] = out
        return out

    def sub_safe(self, b, R, block, a, c, facts):
        """a - c cannot underflow: a dominating fact a >= c / a > c, or the constant-subtrahend idioms."""
        a0, c0 = strip_casts(a), strip_casts(c)
        if a0[0] == "const" and a0[1] == USIZE_MAX:
            return True
        # (x + c1) - c2 with constants c1 >= c2 cannot underflow (the addition's own overflow is a separate site)
        if a0[0] == "bin" and a0[1] == "Add" and c0[0] == "const" and isinstance(c0[1], int):
            for y in (strip_casts(a0[2]), strip_casts(a0[3])):
                if y[0] == "const" and isinstance(y[1], int) and y[1] >= c0[1]:
                    return True
        for f in facts:
            if f[0] != "cmp":
                continue
            op, x, y = f[1], strip_casts(f[2]), strip_casts(f[3])
            if op in ("Ge", "Gt") and x == a0 and y == c0:
                return True
            if op in ("Le", "Lt") and x == c0 and y == a0:
                return True
            if c0[0] == "const" and isinstance(c0[1], int):
                if x == a0 and y[0] == "const" and isinstance(y[1], int):
                    if (op == "Gt" and y[1] >= c0[1] - 1) or (op == "Ge" and y[1] >= c0[1]) or (op == "Ne" and y[1] == 0 and c0[1] == 1):
                        return True
        return False

    # ------------------------------------------------------------------ driver
    def run(self, entries):
        work = []
        for fn, idxs in entries.items():
            self.raw_params.setdefault(fn, set()).update(idxs)
            for i in idxs:
                self.origin.setdefault((fn, i), ("<entry table>", "", None))
            work.append(fn)
        guard = 0
        while work:
            guard += 1
            if guard > 5000:
                raise Undecided("raw-value propagation did not reach a fixpoint")
            fn = work.pop()
            R = frozenset(self.raw_params.get(fn, ()))
            if self.analysed.get(fn) == R:
                continue
            self.analysed[fn] = R
            for callee, idx, info in self.analyse(fn, R):
                lst = self.all_origins.setdefault((callee, idx), [])
                if info[0] not in [x[0] for x in lst]:
                    lst.append(info)
                cur = self.raw_params.setdefault(callee, set())
                if idx not in cur:
                    cur.add(idx)
                    self.origin[(callee, idx)] = info
                    work.append(callee)

    def chain(self, fn, idx, limit=8):
        out = []
        cur = (fn, idx)
        while cur in self.origin and limit > 0:
            limit -= 1
            caller, where, _ = self.origin[cur]
            out.append("%s (arg %d)" % (cur[0], cur[1]))
            if caller == "<entry table>":
                out.append("<entry>")
                break
            nxt = None
            for (f2, i2) in self.origin:
                if f2 == caller and i2 in self.raw_params.get(caller, ()):
                    nxt = (f2, i2)
                    break
            if nxt is None:
                out.append(caller)
                break
            cur = nxt
        return " <- ".join(out)

    def analyse(self, fn, R):
        F = self.F
        b = F.body(fn)
        is_unsafe_fn = F.fns.get(fn, [{}])[0].get("unsafe", False)
        propagate = []
        who = lambda: self.chain(fn, sorted(R)[0]) if R else fn
        for bi in sorted(b.reachable()):
            blk = b.blocks[bi]
            t = blk["term"]
            if t["t"] == "assert" and t["kind"].startswith("Overflow(") and not t["exp"]:
                op = t["kind"][len("Overflow("):-1]
                ops = [b.term_of_operand(o) for o in t["ops"]]
                raws = [self.israw(b, R, o) for o in ops]
                if not any(raws):
                    continue
                self.sites += 1
                facts = self.facts_valid_at(b, bi)
                if is_unsafe_fn:
                    continue  # arithmetic on an unsafe fn's own parameters is charged to its contract (A4)
                ok = True
                if op == "Sub":
                    ok = self.sub_safe(b, R, bi, ops[0], ops[1], facts)
                elif op in ("Shl", "Shr"):
                    ok = not raws[1] or self.upper_bounded(b, R, bi, ops[1], facts)
                else:
                    ok = all((not r) or self.upper_bounded(b, R, bi, o, facts) for o, r in zip(ops, raws))
                if not ok:
                    key = "%s|Overflow(%s)|%s" % (fn, op, ",".join(tstr(o)[:60] for o in ops))
                    from guards import untested_params
                    self.alarms[key] = {"fn": fn, "where": loc(t["sp"]), "kind": "overflow", "chain": who(),
                                        "bare": untested_params(b, bi, [o for o, r in zip(ops, raws) if r and strip_casts(o)[0] == "param"]),
                                        "detail": "`%s` on a caller-supplied value that no dominating comparison bounds: debug build panics, release build wraps; operands %s" % (
                                            op, [tstr(o)[:80] for o in ops])}
            elif t["t"] == "assert" and t["kind"] == "BoundsCheck" and not t["exp"]:
                idx = b.term_of_operand(t["ops"][1])
                if self.israw(b, R, idx) and not is_unsafe_fn:
                    self.sites += 1
                    if not self.upper_bounded(b, R, bi, idx):
                        key = "%s|BoundsCheck|%s" % (fn, tstr(idx)[:60])
                        self.alarms[key] = {"fn": fn, "where": loc(t["sp"]), "kind": "bounds", "chain": who(),
                                            "detail": "index %s derived from a caller-supplied value is not bounded before the (panicking) bounds check" % tstr(idx)[:80]}
            elif t["t"] == "switch" and not is_unsafe_fn:
                # an edge into a block that only panics, under a condition on a raw unbounded value
                cond = b.term_of_operand(t["discr"])
                targets = [d for _, d in t["targets"]] + [t["otherwise"]]
                pan = [d for d in targets if is_panic_call(b.blocks[d]["term"]) or
                       (b.blocks[d]["term"]["t"] == "goto" and is_panic_call(b.blocks[b.blocks[d]["term"]["target"]]["term"]))]
                if pan and self.israw(b, R, cond) is False:
                    c0 = strip_casts(cond)
                    if c0[0] == "bin" and (self.israw(b, R, c0[2]) or self.israw(b, R, c0[3])):
                        self.sites += 1
                        rawop = c0[2] if self.israw(b, R, c0[2]) else c0[3]
                        if not self.upper_bounded(b, R, bi, rawop):
                            key = "%s|panic-edge|%s" % (fn, tstr(c0)[:70])
                            self.alarms[key] = {"fn": fn, "where": loc(t["sp"]), "kind": "panic", "chain": who(),
                                                "detail": "explicit panic (assert!/panic!) is reachable when the caller-supplied value fails `%s`" % tstr(c0)[:90]}
            elif t["t"] == "call":
                name = callee_name(t)
                args = [b.term_of_operand(a) for a in t["args"]]
                rawargs = [i for i, a in enumerate(args) if self.israw(b, R, a) and b_scalar(t, i)]
                if not rawargs:
                    continue
                unb = [i for i in rawargs if not self.upper_bounded(b, R, bi, args[i])]
                if not unb:
                    continue
                last = name.split("::")[-1].split("<")[0]
                where = loc(t["sp"])
                callee_unsafe = t["callee"].get("unsafe", False)
                # unwrap of an Option/Result computed from an unbounded raw value
                if callee_unsafe and not is_unsafe_fn:
                    self.sites += 1
                    key = "%s|unsafe-call|%s" % (fn, name)
                    self.unsafe_raw[key] = {"fn": fn, "where": where, "callee": name, "chain": who(), "arg_idx": list(unb), "nargs": len(args),
                                            "detail": "unsafe callee %s receives caller-supplied value(s) %s that no dominating comparison bounds" % (name, [tstr(args[i])[:60] for i in unb])}
                targets = self.resolve(t)
                for callee in targets:
                    for i in unb:
                        propagate.append((callee, i, (fn, where, args[i])))
        # unwrap()/expect() on a crate call that received an unbounded raw value
        if not is_unsafe_fn:
            for bi, t in b.calls():
                name = callee_name(t)
                last = name.split("::")[-1].split("<")[0]
                if last in ("unwrap", "expect") and (name.startswith("std::option::Option::<") or name.startswith("std::result::Result::<")) and not t["exp"]:
                    a = strip_casts(b.term_of_operand(t["args"][0]))
                    if a[0] == "call" and self.F.has_body(a[1]):
                        inner_unb = [x for i, x in enumerate(a[2]) if self.israw(b, R, x) and not self.upper_bounded(b, R, bi, x)]
                        if inner_unb:
                            self.sites += 1
                            key = "%s|unwrap|%s" % (fn, a[1])
                            self.alarms[key] = {"fn": fn, "where": loc(t["sp"]), "kind": "unwrap", "chain": who(),
                                                "detail": "unwrap() of %s called with a caller-supplied unbounded value %s" % (a[1], [tstr(x)[:60] for x in inner_unb])}
        return propagate

    def sink_inventory(self):
        """Keys of every sink site of the crate (whether or not a raw value reaches it today), in the format of the alarm keys: the
        reference for "this arithmetic / check / unwrap exists on the pinned tree" (an alarm at such a site is a regression, an alarm
        at a site that does not exist there is new code the analysis cannot judge)."""
        out = set()
        F = self.F
        for b in F.all_bodies():
            fn = b.name
            if "::tests::" in fn or fn.startswith("internal::"):
                continue
            for bi in sorted(b.reachable()):
                t = b.blocks[bi]["term"]
                if t["t"] == "assert" and t["kind"].startswith("Overflow(") and not t["exp"]:
                    op = t["kind"][len("Overflow("):-1]
                    ops = [b.term_of_operand(o) for o in t["ops"]]
                    out.add("%s|Overflow(%s)|%s" % (fn, op, ",".join(tstr(o)[:60] for o in ops)))
                elif t["t"] == "assert" and t["kind"] == "BoundsCheck" and not t["exp"]:
                    out.add("%s|BoundsCheck|%s" % (fn, tstr(b.term_of_operand(t["ops"][1]))[:60]))
                elif t["t"] == "switch":
                    targets = [d for _, d in t["targets"]] + [t["otherwise"]]
                    pan = [d for d in targets if is_panic_call(b.blocks[d]["term"]) or
                           (b.blocks[d]["term"]["t"] == "goto" and is_panic_call(b.blocks[b.blocks[d]["term"]["target"]]["term"]))]
                    if pan:
                        c0 = strip_casts(b.term_of_operand(t["discr"]))
                        if c0[0] == "bin":
                            out.add("%s|panic-edge|%s" % (fn, tstr(c0)[:70]))
                elif t["t"] == "call":
                    name = callee_name(t)
                    if t["callee"].get("unsafe", False):
                        out.add("%s|unsafe-call|%s" % (fn, name))
                    last = name.split("::")[-1].split("<")[0]
                    if last in ("unwrap", "expect") and (name.startswith("std::option::Option::<") or name.startswith("std::result::Result::<")) and not t["exp"]:
                        a = strip_casts(b.term_of_operand(t["args"][0]))
                        if a[0] == "call" and F.has_body(a[1]):
                            out.add("%s|unwrap|%s" % (fn, a[1]))
        return out

    def resolve(self, t):
        """Crate-local bodies a call may reach."""
        c = t["callee"]
        r = c.get("res")
        if r and r.get("is_item") and self.F.has_body(r["def"]):
            return [r["def"]]
        d = c.get("def")
        out = []
        if d and self.F.has_body(d):
            out.append(d)   # trait default body / direct fn
        tr = c.get("trait")
        if tr and d:
            out.extend(x for x in self.trait_impls.get((tr, d.split("::")[-1]), []) if self.F.has_body(x))
        return out


def b_scalar(t, i):
    tys = t.get("arg_tys") or []
    return i < len(tys) and tys[i] in SCALARS
