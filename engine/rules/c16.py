"""C16 -- builders reject invalid steps without side effects and build what was accepted (structural part).

 R1 every Err path of the try_* entry points is free of stores and &mut calls on the builder
 R2 set = try_set().unwrap(); extend only calls set; the unchecked mutators are called from safe code only behind the
    guards their contracts name (or from a reviewed construction site)
 R3 co-mutation of RLBuilder.{len,run} and SparseBuilder.{len,next}
 R4 set_len only extends; TryFrom refuses a non-full builder before touching it; observers are plain getters
"""
from facts import Undecided, loc, tstr, callee_name, callee_written, subterms, operand_place, reads_of_stmt
from guards import facts_at, edge_facts, try_sites, has_cmp, strip_casts
from effects import mutation_sites, field_store_blocks, comutated, comutated_ip, must_store_fns
from pat import m, Bind, ANY, Call, Bin, Const, Param, SelfField, core, self_path

META = {
    "level": "other",
    "technique": "static analysis: per-path effect analysis (Err paths write-free), co-mutation of invariant-tied fields, guard dominance at unchecked-mutator call sites, no-op inputs mutation-free, must-precede (flush before conversion reads), who-is-called in extend (MIR, rustc_private driver; bodies normalised by helper inlining and combinator expansion)",
    "explanation": "For the builder entry points the CFG is searched for any store through the builder or &mut call on it from which an "
                   "Err return is reachable; fields tied by a representation invariant must be stored together on every path through a "
                   "store of one of them; calls of the unsafe unchecked mutators from safe functions must be dominated by comparisons that "
                   "establish the documented contract; the public observers are shown to be plain getters of the co-mutated fields. The "
                   "arithmetic of what the finished vector contains is not decided here.",
    "trusted_base": ["rustc's MIR faithfully represents the source"],
    "assumptions": ["one_iter() of a well-formed bitvector yields strictly increasing positions below len (used by the two copy_bit_vec construction sites)"],
}

SB = "sparse_vector::SparseBuilder"
RB = "rl_vector::RLBuilder"

# Reviewed construction sites that call unchecked mutators without a local guard (named site + reason).
REVIEWED_UNCHECKED_CALLERS = {
    ("sparse_vector::SparseVector::copy_bit_vec", SB + "::set_unchecked"):
        "positions come from source.one_iter(): strictly increasing, below source.len(), exactly source.count_ones() of them -- the builder was sized with those two numbers",
    ("rl_vector::RLVector::copy_bit_vec", RB + "::set_bit_unchecked"):
        "positions come from source.one_iter(): strictly increasing and below usize::MAX",
}


def err_blocks(b):
    out = set()
    for bi, si, st in b.stmts():
        if st["s"] == "assign" and st["lhs"]["l"] == 0 and not st["lhs"]["p"] and st["rv"]["r"] == "agg" and st["rv"].get("vname") == "Err":
            out.add(bi)
    for s in try_sites(b):
        if s["break_block"] is not None:
            out.add(s["break_block"])
    return out


def check(ctx):
    configs = ["native"] if ctx.tier == "quick" else ["native", "portable", "native-rel", "portable-rel"]
    for cfg in configs:
        check_config(ctx, ctx.facts(cfg), "" if cfg == "native" else "@" + cfg)


def sb_guards(fs, idx):
    """The three range tests of SparseBuilder::try_set among the facts fs, in any of their spellings: through the accessors
    (is_full(), next_index(), universe()) or on what the accessors return (len == capacity(), the `next` field, data.len)."""
    from pat import Or
    lenlike = Or(Call(SB + "::len", Param(0)), SelfField("len"))
    caplike = Or(Call(SB + "::capacity", Param(0)), Call(lambda n: n.endswith("Vector>::len") or n.endswith("::len"), SelfField("data", "low")))
    nextlike = Or(Call(SB + "::next_index", Param(0)), SelfField("next"))
    unilike = Or(Call(SB + "::universe", Param(0)), SelfField("data", "len"), Call(lambda n: n.endswith("::len"), SelfField("data")))
    def not_full(f):
        if f[0] == "bool" and f[2] is False and m(Call(SB + "::is_full", Param(0)), f[1]):
            return True
        if f[0] == "cmp" and f[1] == "Ne":
            return (m(lenlike, f[2]) and m(caplike, f[3])) or (m(lenlike, f[3]) and m(caplike, f[2]))
        if f[0] == "bool" and f[2] is False and isinstance(f[1], tuple) and f[1][:2] == ("bin", "Eq"):
            return (m(lenlike, f[1][2]) and m(caplike, f[1][3])) or (m(lenlike, f[1][3]) and m(caplike, f[1][2]))
        return False
    g1 = any(not_full(f) for f in fs)
    g2 = any(f[0] == "cmp" and ((f[1] == "Ge" and core(f[2]) == core(idx) and m(nextlike, f[3])) or (f[1] == "Le" and core(f[3]) == core(idx) and m(nextlike, f[2]))) for f in fs)
    g3 = any(f[0] == "cmp" and ((f[1] == "Lt" and core(f[2]) == core(idx) and m(unilike, f[3])) or (f[1] == "Gt" and core(f[3]) == core(idx) and m(unilike, f[2]))) for f in fs)
    return g1, g2, g3



def check_config(ctx, F, tag):
    # "the vector built from the builder reports the accepted positions": From<RLBuilder> ends in SampleIndex::new, whose table the
    # queries of the built vector narrow their search with
    import rltables
    rltables.check_every_slot_written(ctx, F, tag, "C16.R5.rl")
    import c06
    c06.check_sparse_bucket_count(ctx, F, tag, "C16.R5.sparse-bucket-count")         # the builder's `high` holds every accepted position
    # ---------------- R1 Err paths are pure
    for fn in (SB + "::try_set", RB + "::try_set"):
        b = F.body(fn)
        errs = err_blocks(b)
        if not errs:
            raise Undecided("%s has no Err path" % fn)
        ctx.count("err-paths" + tag, len(errs))
        sites = mutation_sites(b, 1, by_ref=True)
        can = b.can_reach(errs)
        bad = [(bi, k, d) for bi, k, d, sp in sites if bi in can]
        ctx.ob("C16.R1.err-paths-pure", fn + tag, loc(b.raw["span"]), not bad and len(sites) >= 1, "per-path-effects",
               "%d Err exits; builder mutations (%s); mutations from which an Err exit is reachable: %s" % (
                   len(errs), [(k, d) for _, k, d, _ in sites], bad))
        # the only mutation is the unchecked mutator, after which Ok is returned
    # ---------------- R4 TryFrom: guard before touching
    tf = "<sparse_vector::SparseVector as std::convert::TryFrom<sparse_vector::SparseBuilder>>::try_from"
    b = F.body(tf)
    # the builder is moved into a local; find it: the local of type SparseBuilder that is `mut`
    bl = [i for i, l in enumerate(b.locals) if l["ty"]["s"] == SB and i != 1]
    owner = bl[0] if bl else 1
    # ... or taken apart: locals that receive a field moved out of the builder (`let SparseBuilder { data: mut result, high, .. } = builder`)
    owners = {owner, 1}
    for bi, si, st in b.stmts():
        if st["s"] == "assign" and not st["lhs"]["p"] and st["rv"]["r"] == "use":
            q = operand_place(st["rv"]["o"])
            if q is not None and q["l"] in owners and q["p"] and all(isinstance(e, dict) and "f" in e for e in q["p"]):
                owners.add(st["lhs"]["l"])
    sites = []
    for o in sorted(owners):
        for x in mutation_sites(b, o, by_ref=False):
            if x not in sites:
                sites.append(x)
    # taking the builder apart (moving a field out of it) touches it just as much
    for bi, si, st in b.stmts():
        if st["s"] == "assign" and not st["lhs"]["p"] and st["rv"]["r"] == "use" and "m" in st["rv"]["o"]:
            q = st["rv"]["o"]["m"]
            if q["l"] in owners and q["p"] and all(isinstance(e, dict) and "f" in e for e in q["p"]):
                sites.append((bi, "move", "." + ".".join(str(e.get("name", e["f"])) for e in q["p"]), st["sp"]))
    errs = err_blocks(b)
    can = b.can_reach(errs)
    bad = [(bi, k, d) for bi, k, d, sp in sites if bi in can]
    guarded = []
    for bi, k, d, sp in sites:
        fs = facts_at(b, bi)
        g = any(f[0] == "bool" and f[2] is True and m(Call(SB + "::is_full", ANY), f[1]) for f in fs)
        guarded.append(g)
    ctx.ob("C16.R4.try-from-refuses-before-mutation", tf + tag, loc(b.raw["span"]), not bad and sites and all(guarded) and errs, "per-path-effects+guard",
           "mutations of the builder %s; each dominated by is_full() == true: %s; reachable Err after a mutation: %s" % ([(k, d) for _, k, d, _ in sites], guarded, bad))
    names = [d for _, k, d, _ in sites if k == "call"]
    # ... or on the bitvector made from the builder's `high` (`BitVector::from(high)` first, then enable): any enable_* call behind the guard
    for bi, t in b.calls():
        cn = callee_name(t)
        if cn.endswith(("::enable_select", "::enable_select_zero")) and cn not in names and \
                any(f[0] == "bool" and f[2] is True and m(Call(SB + "::is_full", ANY), f[1]) for f in facts_at(b, bi)):
            names.append(cn)
    ctx.ob("C16.R4.try-from-enables-supports", tf + tag, loc(b.raw["span"]),
           any(n.endswith("::enable_select") for n in names) and any(n.endswith("::enable_select_zero") for n in names), "must-call",
           "calls on the built high bitvector: %s" % names, nontrivial=False)

    import c19
    c19.check_sparse_builder_enables(ctx, F, tag, "C16.R4")      # "converting yields the vector ..": the same supports on every accepted path
    # ---------------- R2 set / extend
    b = F.body(SB + "::set")
    calls = [(callee_name(t), t) for _, t in b.calls()]
    ok = len(calls) == 2 and calls[0][0] == SB + "::try_set" and calls[1][0].startswith("std::result::Result::<") and calls[1][0].endswith("::unwrap") and \
        m(Call(SB + "::try_set", Param(0), Param(1)), b.term_of_operand(calls[1][1]["args"][0]))
    ctx.ob("C16.R2.set-is-try-set-unwrap", SB + "::set" + tag, loc(b.raw["span"]), ok, "call-sequence", "calls: %s" % [c for c, _ in calls])
    ext = "<sparse_vector::SparseBuilder as std::iter::Extend<usize>>::extend"
    b = F.body(ext)
    sites = mutation_sites(b, 1, by_ref=True)
    ctx.ob("C16.R2.extend-only-set", ext + tag, loc(b.raw["span"]), sites and all(k == "call" and d == SB + "::set" for _, k, d, _ in sites), "who-is-called",
           "builder mutations in extend: %s" % [(k, d) for _, k, d, _ in sites])
    # every item of the argument reaches set(): the loop runs over the argument itself, not over a shortened / filtered view of it
    # (an item that is dropped silently is a step that was neither refused nor reflected in the builder)
    SHORTENING = ("take", "take_while", "skip", "skip_while", "filter", "filter_map", "step_by", "zip", "map_while", "fuse", "scan", "peekable")
    into = [t for _, t in b.calls() if callee_name(t).endswith("IntoIterator>::into_iter") or callee_written(t) == "std::iter::IntoIterator::into_iter"]
    adapted = sorted({callee_name(t).split("::")[-1] for _, t in b.calls() if callee_name(t).startswith("std::iter::Iterator::") and callee_name(t).split("::")[-1] in SHORTENING})
    direct = any(core(b.term_of_operand(t["args"][0]))[:2] == ("param", 1) for t in into)
    ctx.ob("C16.R2.extend-feeds-every-item", ext + tag, loc(b.raw["span"]), direct and not adapted, "who-is-called",
           "extend iterates its argument directly: %s; shortening / filtering adaptors applied: %s" % (direct, adapted))

    # unchecked mutators: unsafe, and their safe callers are guarded
    unchecked = {SB + "::set_unchecked": None, RB + "::set_bit_unchecked": None, RB + "::set_run_unchecked": None}
    for u in unchecked:
        f = F.fn(u)
        ctx.ob("C16.R2.unchecked-is-unsafe", u + tag, loc(f["span"]), f["unsafe"] and "# Safety" in f["doc"], "item-structure",
               "unsafe=%s, has `# Safety` section=%s" % (f["unsafe"], "# Safety" in f["doc"]), nontrivial=False)
    for b in F.all_bodies():
        for bi, t in b.calls():
            cn = callee_name(t)
            if cn not in unchecked:
                continue
            ctx.count("unchecked-mutator-call-sites" + tag)
            key = "%s|%s" % (b.name, cn)
            where = loc(t["sp"])
            caller = F.fns.get(b.name, [{}])[0]
            if caller.get("unsafe"):
                # forwarded: arguments are the caller's own parameters or constants
                okf = all(core(b.term_of_operand(a))[0] in ("param", "const") for a in t["args"])
                ctx.ob("C16.R2.unchecked-call-discharged", key + tag, where, okf, "forwarded", "caller is unsafe and forwards its own parameters: %s" % okf, nontrivial=False)
                continue
            if (b.name, cn) in REVIEWED_UNCHECKED_CALLERS:
                ctx.exempt("C16.R2.unchecked-call-discharged", key, where, REVIEWED_UNCHECKED_CALLERS[(b.name, cn)])
                # structural part still checked: the index argument is an item of source.one_iter()
                arg = b.term_of_operand(t["args"][1])
                oki = any(x[0] == "call" and x[1].endswith("::one_iter") for x in subterms(arg))
                ctx.ob("C16.R2.unchecked-call-discharged", key + tag, where, oki, "reviewed-invariant", REVIEWED_UNCHECKED_CALLERS[(b.name, cn)])
                continue
            fs = facts_at(b, bi)
            if cn == SB + "::set_unchecked":
                idx = b.term_of_operand(t["args"][1])
                g1, g2, g3 = sb_guards(fs, idx)
                ctx.ob("C16.R2.unchecked-call-discharged", key + tag, where, g1 and g2 and g3, "guard-dominance",
                       "set_unchecked(%s) dominated by !is_full(): %s, index >= next_index(): %s, index < universe(): %s" % (tstr(idx), g1, g2, g3))
            elif cn == RB + "::set_run_unchecked":
                st_, ln = b.term_of_operand(t["args"][1]), b.term_of_operand(t["args"][2])
                g1 = any(f[0] == "cmp" and f[1] == "Ge" and core(f[2]) == core(st_) and m(Call(RB + "::len", Param(0)), f[3]) for f in fs)
                from guards import fact_add_fits
                g2 = fact_add_fits(fs, core(st_), core(ln))
                ctx.ob("C16.R2.unchecked-call-discharged", key + tag, where, g1 and g2, "guard-dominance",
                       "set_run_unchecked(%s, %s) dominated by start >= len(): %s, usize::MAX - len >= start: %s" % (tstr(st_), tstr(ln), g1, g2))
            else:
                ctx.ob("C16.R2.unchecked-call-discharged", key + tag, where, False, "guard-dominance", "no contract table entry for this safe call site")
    # the two checked entry points must be among the sites; the rest may be merged by a clean-up
    ctx.floor("unchecked-mutator-call-sites" + tag, 3)
    # the same guards, asked of the mutations themselves: whatever try_set does to the builder (a call to an unchecked mutator, a
    # helper inlined by the normaliser, direct stores) happens behind the range tests -- "a refused call leaves the builder unchanged"
    from guards import fact_add_fits
    for fn in (SB + "::try_set", RB + "::try_set"):
        b = F.body(fn)
        sites = mutation_sites(b, 1, by_ref=True)
        bad = []
        for bi, kind, what, sp in sites:
            fs = facts_at(b, bi)
            if fn.startswith(SB):
                idx = ("param", 1, b.local_name(2))
                g = list(sb_guards(fs, idx))
            else:
                st_, ln = ("param", 1, b.local_name(2)), ("param", 2, b.local_name(3))
                g = [any(f[0] == "cmp" and f[1] == "Ge" and core(f[2]) == st_ and m(Call(RB + "::len", Param(0)), f[3]) for f in fs),
                     fact_add_fits(fs, st_, ln)]
            if not all(g):
                bad.append("%s %s at %s (guards %s)" % (kind, what.split("::")[-1], loc(sp), g))
        ctx.ob("C16.R2.try-set-mutations-guarded", fn + tag, loc(b.raw["span"]), bool(sites) and not bad, "guard-dominance",
               "%d mutations of the builder in try_set; not behind all range tests: %s" % (len(sites), bad[:3]))
        # ... and the other half, "an out-of-order / out-of-range call is refused": try_set answers Ok only behind the same tests
        # (a shortcut that accepts before testing -- an empty run, a repeated position -- accepts calls the property says are refused)
        from guards import ok_blocks
        oks = ok_blocks(b).get("Ok", [])
        early = []
        for bi in oks:
            fs = facts_at(b, bi)
            if fn.startswith(SB):
                idx = ("param", 1, b.local_name(2))
                g = list(sb_guards(fs, idx))
            else:
                st_, ln = ("param", 1, b.local_name(2)), ("param", 2, b.local_name(3))
                g = [any(f[0] == "cmp" and f[1] == "Ge" and core(f[2]) == st_ and m(Call(RB + "::len", Param(0)), f[3]) for f in fs),
                     fact_add_fits(fs, st_, ln)]
            if not all(g):
                sp = [st["sp"] for st in b.blocks[bi]["stmts"] if st["s"] == "assign" and st["lhs"]["l"] == 0 and not st["lhs"]["p"]]
                early.append("Ok built at %s (guards %s)" % (loc(sp[0]) if sp else "?", g))
        ctx.ob("C16.R2.try-set-accepts-only-behind-range-tests", fn + tag, loc(b.raw["span"]), (bool(oks) and not early) if oks else None, "guard-dominance",
               "%d Ok results in try_set; not behind all range tests: %s" % (len(oks), early[:3]))

    # ---------------- R3 co-mutation
    check_comutation(ctx, F, tag)
    check_noop_and_flush(ctx, F, tag)
    import c07
    c07.check_rl_block_fit(ctx, F, tag, "C16.R6")      # "builds what was accepted": an accepted run is encoded whole

    # ---------------- R4 set_len only extends; observers are getters
    check_set_len_extends(ctx, F, tag)
    # ---------------- R7 "for all (universe, capacity) parameters": the builders' own arithmetic on caller-supplied sizes is bounded
    # (A3, the builder functions only; the same analysis decides C09 for the whole crate)
    from core import Relabel
    if not isinstance(ctx, Relabel):
        import c09
        c09.check_raw_values(Relabel(ctx, {"C09.R1.raw-value-bounded": ("C16.R7.builder-arithmetic-total", lambda k: "Builder::" in k.split("|")[0])}), F, tag)
    getters = {SB + "::len": SelfField("len"), SB + "::next_index": SelfField("next"), RB + "::len": SelfField("len"), RB + "::count_ones": SelfField("ones"),
               SB + "::capacity": Call(lambda n: n.endswith("::count_ones"), SelfField("data")),
               SB + "::universe": Call(lambda n: n.endswith("::len"), SelfField("data")),
               SB + "::is_full": Bin("Eq", Call(SB + "::len", Param(0)), Call(SB + "::capacity", Param(0)))}
    for g, p in getters.items():
        b = F.body(g)
        ctx.ob("C16.R4.observer-is-getter", g + tag, loc(b.raw["span"]), m(p, b.term_of_local(0)), "term-shape", "%s() = %s" % (g.split("::")[-1], tstr(b.term_of_local(0))), nontrivial=False)


def check_set_len_extends(ctx, F, tag, rule="C16.R4.set-len-only-extends"):
    """set_len(n) with n <= len() is documented as having no effect: every mutation of the builder in it -- the store of the length, and
    the flush of the pending run that goes with it -- is behind `n > self.len()`.  (With `>=` an equal length flushes the pending
    run, so the next adjacent run is encoded separately: same bits, different representation.)"""
    b = F.body(RB + "::set_len")
    stores = field_store_blocks(b, RB, "len")
    if not stores:
        raise Undecided("anchor lost: %s::set_len does not store the length" % RB)
    lenp = ("param", 1, b.local_name(2))
    for k, (bi, kind, what, sp) in enumerate(mutation_sites(b, 1, by_ref=True)):
        fs = facts_at(b, bi)
        ok = any(f[0] == "cmp" and ((f[1] == "Gt" and core(f[2]) == lenp and m(Call(RB + "::len", Param(0)), f[3])) or
                                    (f[1] == "Lt" and core(f[3]) == lenp and m(Call(RB + "::len", Param(0)), f[2]))) for f in fs)
        ctx.ob(rule, "%s::set_len|%s %s%s" % (RB, kind, what.split("::")[-1], tag), loc(sp), ok, "guard-dominance",
               "%s %s in set_len is behind `len > self.len()`: %s" % (kind, what.split("::")[-1], ok))
    for bi, si, st in stores:
        val = b.term_of_rvalue(st["rv"])
        ctx.ob(rule, RB + "::set_len|value" + tag, loc(st["sp"]), core(val) == lenp, "term-shape", "len := %s (the parameter)" % tstr(val), nontrivial=False)


def check_noop_and_flush(ctx, F, tag, prefix="C16.R5"):
    """(a) `set_run_unchecked(start, 0)` is documented as doing nothing (try_set forwards zero-length runs to it): every mutation
    of the builder in it is behind the `len > 0` test, so a zero-length run cannot even flush the pending run (which would split a
    maximal run in two).  (b) Converting the builder reads nothing of it before the pending run was flushed."""
    b = F.body(RB + "::set_run_unchecked")
    sites = mutation_sites(b, 1, by_ref=True)
    lenp = ("param", 2, b.local_name(3))
    from guards import fact_nonzero
    bad = [(k, d, loc(sp)) for bi, k, d, sp in sites if not fact_nonzero(facts_at(b, bi), lenp)]
    ctx.ob(prefix + ".zero-length-run-is-a-no-op", b.name + tag, loc(b.raw["span"]), bool(sites) and not bad, "per-path-effects+guard",
           "%d builder mutations in set_run_unchecked; not behind `len > 0`: %s" % (len(sites), bad))
    fb = F.body("<rl_vector::RLVector as std::convert::From<rl_vector::RLBuilder>>::from")
    fl = [bi for bi, t in fb.calls() if callee_name(t) == RB + "::flush"]
    if len(fl) != 1:
        raise Undecided("anchor lost: From<RLBuilder> calls flush %d times" % len(fl))
    # the builder value: the local flush borrows
    from facts import resolve_ref_local
    root = resolve_ref_local(fb, [t for bi, t in fb.calls() if bi == fl[0]][0]["args"][0])
    early = []
    for bi, si, st in fb.stmts():
        if st["s"] == "assign" and bi != fl[0] and not fb.dominates(fl[0], bi):
            for x in reads_of_stmt(st):
                if x == root and not (st["rv"]["r"] in ("ref",) and st["rv"].get("mut")):
                    if st["rv"]["r"] == "use" and not st["lhs"]["p"] and st["lhs"]["l"] == root:
                        continue
                    early.append(loc(st["sp"]))
    for bi, t in fb.calls():
        if bi != fl[0] and not fb.dominates(fl[0], bi) and root is not None:
            if any(resolve_ref_local(fb, a) == root for a in t["args"]):
                early.append(loc(t["sp"]))
    ctx.ob(prefix + ".conversion-flushes-first", fb.name + tag, loc(fb.raw["span"]), root is not None and not early, "must-precede",
           "reads of the builder that are not dominated by builder.flush(): %s" % early)


def check_comutation(ctx, F, tag, prefix="C16.R3"):
    """A6: fields tied by a representation invariant are stored together on every path."""
    for adt, a, partner in ((RB, "len", "run"), (SB, "len", "next")):
        n = 0
        for b in F.all_bodies():
            trig = field_store_blocks(b, adt, a)
            if not trig:
                continue
            part = [bi for bi, _, _ in field_store_blocks(b, adt, partner)]
            storers = must_store_fns(F, adt, partner)
            after_calls = [ci for ci, t in b.calls() if callee_name(t) in storers and t["args"] and core(b.term_of_operand(t["args"][0]))[:2] == ("param", 0)]
            for k, (bi, si, st) in enumerate(trig):
                n += 1
                ok = comutated_ip(b, bi, part, after_calls)
                ctx.ob(prefix + ".co-mutation", "%s|%s.%s~%s#%d%s" % (b.name, adt.split("::")[-1], a, partner, k, tag), loc(st["sp"]), ok, "co-mutation", positive=True, detail=
                       "store to %s.%s %s a direct store to .%s on the same path (a callee counts only if it runs after the store and stores .%s on all of its paths)" % (adt.split("::")[-1], a, "is accompanied by" if ok else "is NOT accompanied by", partner, a))
        ctx.count("co-mutation-triggers-%s%s" % (adt.split("::")[-1], tag), n)
    # the order test of try_set compares the next position with `next`: after position i was set it is i + increment, also when that
    # is the universe itself (the last position was set; nothing more can follow) -- a clamped cursor lets the last position be set again
    su = SB + "::set_unchecked"
    if F.has_body(su):
        b = F.body(su)
        for k, (bi, si, st) in enumerate(field_store_blocks(b, SB, "next")):
            t = core(b.term_of_rvalue(st["rv"]))
            exact = m(Bin("Add", Param(1), SelfField("increment")), t)
            clamped = t[0] == "call" and t[1].split("::")[-1] in ("min", "max", "clamp", "saturating_add", "saturating_sub") and any(x[:2] == ("param", 1) for x in subterms(t))
            ctx.ob(prefix + ".cursor-is-index-plus-increment", "%s|next#%d%s" % (su, k, tag), loc(st["sp"]), True if exact else (False if clamped else None), "term-shape",
                   "next := %s (the position just set plus the increment, unclamped)" % tstr(t)[:70], positive=clamped)
    # (a clean-up may merge two stores of one function into one: the floor is the number of mutators that must still store, not
    # the number of store statements counted on the pinned tree)
    ctx.floor("co-mutation-triggers-RLBuilder" + tag, 2)
    ctx.floor("co-mutation-triggers-SparseBuilder" + tag, 1)

