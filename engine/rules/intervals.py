"""A12 -- interval abstract interpretation of small arithmetic helpers against their documented domain.

The helpers of `bits` state their domain in the doc comment (`# Panics  May panic if `n + 7 > usize::MAX``, `# Safety  Behavior is
undefined if `n > 64``).  For a helper whose stated condition is a conjunction of simple one-parameter bounds, every parameter gets the
interval the documentation allows and the MIR is interpreted over intervals (forward, join = hull, branch refinement on comparisons
of a local with an interval, crate-local callees interpreted with the argument intervals).  Reported: an overflow assertion, a
bounds / division assertion or an explicit panic edge that can be taken *inside* the documented domain -- the function then does not
"return its mathematical value over its whole documented domain": it panics in a debug build, and wraps in a release build, for an
argument the documentation admits.  Nothing is said about the value returned.

This is a contradiction rule between two statements of the same code base (the doc comment and the body); it does not freeze a formula:
`(n + 7) / 8`, `div_round_up(n, 8)`, `n / 8 + usize::from(n % 8 != 0)` all pass for the domain `n + 7 <= usize::MAX`, while
`bits_to_words(n * 8)` (overflows from n = 2^61) and an added `assert!(n < usize::MAX / 64)` (refuses the last admitted value) do not.
"""
import re

from facts import loc, callee_name, operand_place

UMAX = (1 << 64) - 1
INT_BITS = {"u8": 8, "u16": 16, "u32": 32, "u64": 64, "usize": 64, "u128": 128, "bool": 1}
SIGNED = {"i8": 8, "i16": 16, "i32": 32, "i64": 64, "isize": 64, "i128": 128}
COUNTING = ("leading_zeros", "trailing_zeros", "count_ones", "count_zeros", "leading_ones", "trailing_ones")
PANIC_MARKS = ("core::panicking::", "std::rt::begin_panic", "::unwrap_failed", "::expect_failed", "panic_fmt", "panic_display", "assert_failed",
               "panic_bounds_check", "std::rt::panic")


def top(ty):
    if ty in INT_BITS:
        return (0, (1 << INT_BITS[ty]) - 1)
    return None


def hull(a, b):
    if a is None or b is None:
        return None
    if isinstance(a, list) or isinstance(b, list):
        if isinstance(a, list) and isinstance(b, list) and len(a) == len(b):
            return [hull(x, y) for x, y in zip(a, b)]
        return None
    return (min(a[0], b[0]), max(a[1], b[1]))


def parse_domain(doc, params):
    """{param: (lo, hi)} from the `# Panics` / `# Safety` sentences of a doc comment; 'total' when there is no such section;
    None when a stated condition is not a simple one-parameter bound (relational or prose: the function is not covered)."""
    dom = {p: None for p in params}
    lines = doc.split("\n")
    conds, in_sec, found = [], False, False
    for l in lines:
        s = l.strip()
        if s.startswith("# "):
            in_sec = s in ("# Panics", "# Safety")
            found = found or in_sec
            continue
        if in_sec and ("May panic if" in s or "Behavior is undefined if" in s or "undefined behavior if" in s.lower()):
            got = re.findall(r"`([^`]+)`", s)
            if not got:
                return None
            conds.extend(got)
        elif in_sec and s and not s.startswith("```"):
            if "panic" in s.lower() or "undefined" in s.lower():
                return None        # a condition stated in prose
    if not found:
        return {p: (0, None) for p in params}
    if not conds:
        return None
    out = {p: [0, None] for p in params}
    for c in conds:
        c = c.strip()
        m1 = re.match(r"^(\w+) > (\d+)$", c)
        m2 = re.match(r"^(\w+) \* (\d+) > usize::MAX$", c)
        m3 = re.match(r"^(\w+) \+ (\d+) > usize::MAX$", c)
        m4 = re.match(r"^(\w+) == 0$", c)
        if m1 and m1.group(1) in out:
            hi = int(m1.group(2))
            out[m1.group(1)][1] = hi if out[m1.group(1)][1] is None else min(hi, out[m1.group(1)][1])
        elif m2 and m2.group(1) in out:
            out[m2.group(1)][1] = UMAX // int(m2.group(2))
        elif m3 and m3.group(1) in out:
            out[m3.group(1)][1] = UMAX - int(m3.group(2))
        elif m4 and m4.group(1) in out:
            out[m4.group(1)][0] = 1
        else:
            return None
    return {p: (v[0], v[1]) for p, v in out.items()}


class Interp:
    def __init__(self, F, max_depth=4):
        self.F = F
        self.max_depth = max_depth
        self.alarms = []          # (function, kind, where, detail)
        self.visited = set()

    # ---- values
    def operand(self, b, st, o):
        if "k" in o:
            v = o["k"].get("v")
            if v is None:
                return top(o["k"].get("ty"))
            v = int(v)
            return (v, v) if v >= 0 else None
        p = o.get("c") or o.get("m")
        return self.place(b, st, p)

    def place(self, b, st, p):
        v = st.get(p["l"], top(b.local_ty(p["l"])))
        for e in p["p"]:
            if isinstance(e, dict) and "f" in e and isinstance(v, list) and e["f"] < len(v):
                v = v[e["f"]]
            elif isinstance(e, dict) and "f" in e:
                v = top(e.get("ty"))
            else:
                return None
        return v

    def binop(self, op, a, c, ty):
        bits = INT_BITS.get(ty)
        tmax = (1 << bits) - 1 if bits else None
        if op in ("Lt", "Le", "Gt", "Ge", "Eq", "Ne"):
            if a is None or c is None or isinstance(a, list) or isinstance(c, list):
                return (0, 1)
            t = {"Lt": a[1] < c[0], "Le": a[1] <= c[0], "Gt": a[0] > c[1], "Ge": a[0] >= c[1], "Eq": a[0] == a[1] == c[0] == c[1], "Ne": a[1] < c[0] or a[0] > c[1]}[op]
            f = {"Lt": a[0] >= c[1], "Le": a[0] > c[1], "Gt": a[1] <= c[0], "Ge": a[1] < c[0], "Eq": a[1] < c[0] or a[0] > c[1], "Ne": a[0] == a[1] == c[0] == c[1]}[op]
            return (1, 1) if t else ((0, 0) if f else (0, 1))
        if a is None or c is None or isinstance(a, list) or isinstance(c, list) or tmax is None:
            return top(ty)
        if op == "Add":
            r = (a[0] + c[0], a[1] + c[1])
        elif op == "Sub":
            r = (a[0] - c[1], a[1] - c[0])
        elif op == "Mul":
            r = (a[0] * c[0], a[1] * c[1])
        elif op == "Div":
            if c[0] <= 0:
                return top(ty)
            r = (a[0] // c[1], a[1] // c[0])
        elif op == "Rem":
            if c[0] <= 0:
                return top(ty)
            r = (0, min(a[1], c[1] - 1))
        elif op == "Shr":
            if c[1] >= bits:
                return top(ty)
            r = (a[0] >> c[1], a[1] >> c[0])
        elif op == "Shl":
            if c[1] >= bits:
                return top(ty)
            r = (a[0] << c[0], a[1] << c[1])
        elif op == "BitAnd":
            r = (0, min(a[1], c[1]))
        elif op in ("BitOr", "BitXor"):
            r = (0, (1 << max(a[1], c[1]).bit_length()) - 1)
        else:
            return top(ty)
        return r

    def rvalue(self, b, st, rv, lhs_ty):
        k = rv["r"]
        if k == "use":
            return self.operand(b, st, rv["o"])
        if k == "bin":
            op = rv["op"]
            a, c = self.operand(b, st, rv["a"]), self.operand(b, st, rv["b"])
            if op.endswith("WithOverflow"):
                ety = lhs_ty.strip("()").split(",")[0].strip()
                r = self.binop(op[:-12], a, c, ety)
                t = top(ety)
                if r is None or t is None:
                    return [t, (0, 1)]
                over = r[0] < 0 or r[1] > t[1]
                never = r[0] >= 0 and r[1] <= t[1]
                always = r[1] < 0 or r[0] > t[1]
                # .0 is read after the assertion passed: the exact result, clipped to the type
                val = (max(r[0], 0), min(r[1], t[1])) if not always else t
                return [val, (0, 0) if never else ((1, 1) if always else (0, 1))]
            r = self.binop(op, a, c, lhs_ty)
            t = top(lhs_ty)
            if r is not None and t is not None and op not in ("Lt", "Le", "Gt", "Ge", "Eq", "Ne") and (r[0] < 0 or r[1] > t[1]):
                return t            # unchecked arithmetic that can wrap (release MIR): value unknown
            return r
        if k == "cast":
            v = self.operand(b, st, rv["o"])
            t = top(rv["ty"])
            if v is None or isinstance(v, list) or t is None:
                return t
            return v if v[1] <= t[1] else t
        if k == "un":
            v = self.operand(b, st, rv["o"])
            if rv["op"] == "Not" and lhs_ty == "bool" and v is not None and not isinstance(v, list):
                return (1 - v[1], 1 - v[0])
            return top(lhs_ty)
        if k == "agg" and rv.get("agg") == "tuple":
            return [self.operand(b, st, o) for o in rv["ops"]]
        return top(lhs_ty)

    # ---- refinement of `local op interval` on a branch edge
    def refine(self, b, st, blk, cond_local, truth):
        """State on the edge where boolean local `cond_local` (assigned in this block) has value `truth`."""
        st = dict(st)
        st[cond_local] = (1, 1) if truth else (0, 0)
        rv = None
        alias = {}
        for s in blk["stmts"]:
            if s["s"] != "assign" or s["lhs"]["p"]:
                continue
            if s["rv"]["r"] == "use":
                q = operand_place(s["rv"]["o"])
                if q is not None and not q["p"]:
                    alias[s["lhs"]["l"]] = alias.get(q["l"], q["l"])
            if s["lhs"]["l"] == cond_local:
                rv = s["rv"]
        if rv is None:
            return st
        if rv["r"] == "un" and rv["op"] == "Not":
            q = operand_place(rv["o"])
            if q is not None and not q["p"]:
                return self.refine(b, st, blk, q["l"], not truth)
            return st
        if rv["r"] == "use":
            q = operand_place(rv["o"])
            if q is not None and not q["p"]:
                return self.refine(b, st, blk, q["l"], truth)
            return st
        if rv["r"] != "bin" or rv["op"] not in ("Lt", "Le", "Gt", "Ge", "Eq", "Ne"):
            return st
        op = rv["op"]
        if not truth:
            op = {"Lt": "Ge", "Le": "Gt", "Gt": "Le", "Ge": "Lt", "Eq": "Ne", "Ne": "Eq"}[op]
        for side, other, o in (("a", "b", op), ("b", "a", {"Lt": "Gt", "Le": "Ge", "Gt": "Lt", "Ge": "Le", "Eq": "Eq", "Ne": "Ne"}[op])):
            q = operand_place(rv[side])
            c = self.operand(b, st, rv[other])
            if q is None or q["p"] or c is None or isinstance(c, list):
                continue
            cur = st.get(q["l"], top(b.local_ty(q["l"])))
            if cur is None or isinstance(cur, list):
                continue
            lo, hi = cur
            if o == "Lt":
                hi = min(hi, c[1] - 1)
            elif o == "Le":
                hi = min(hi, c[1])
            elif o == "Gt":
                lo = max(lo, c[0] + 1)
            elif o == "Ge":
                lo = max(lo, c[0])
            elif o == "Eq":
                lo, hi = max(lo, c[0]), min(hi, c[1])
            elif o == "Ne" and c[0] == c[1]:
                if lo == c[0]:
                    lo += 1
                if hi == c[0]:
                    hi -= 1
            new = (lo, hi) if lo <= hi else "bottom"
            for l in {q["l"], alias.get(q["l"], q["l"])}:
                st[l] = new
        return st

    # ---- one function
    def run(self, name, args, depth=0, chain=()):
        """Interprets crate function `name` with argument values `args`; returns the value of _0 (None = unknown)."""
        F = self.F
        if not F.has_body(name) or depth > self.max_depth or name in chain:
            return None
        b = F.body(name)
        init = {}
        for i, a in enumerate(args):
            if i < b.nargs:
                init[i + 1] = a if a is not None else top(b.local_ty(i + 1))
        states = {0: init}
        work = [0]
        visits = {}
        ret = "none"
        while work:
            bi = work.pop()
            st = dict(states[bi])
            visits[bi] = visits.get(bi, 0) + 1
            if visits[bi] > 40:
                continue            # (no loops in the helpers this is run on; a cap keeps the walk finite regardless)
            if any(v == "bottom" for v in st.values()):
                continue
            blk = b.blocks[bi]
            for s in blk["stmts"]:
                if s["s"] != "assign":
                    continue
                if s["lhs"]["p"]:
                    # store into a component: forget the whole local
                    st[s["lhs"]["l"]] = None
                    continue
                st[s["lhs"]["l"]] = self.rvalue(b, st, s["rv"], b.local_ty(s["lhs"]["l"]) or "?")
            t = blk["term"]
            k = t["t"]
            succ = []
            if k == "goto":
                succ.append((t["target"], st))
            elif k == "return":
                v = st.get(0, top(b.local_ty(0)))
                ret = v if ret == "none" else hull(ret, v)
            elif k == "switch":
                q = operand_place(t["discr"])
                v = self.operand(b, st, t["discr"])
                targets = [(int(x), d) for x, d in t["targets"]]
                for x, d in targets:
                    if v is not None and not isinstance(v, list) and not (v[0] <= x <= v[1]):
                        continue
                    s2 = st
                    if q is not None and not q["p"] and t.get("discr_ty") == "bool":
                        s2 = self.refine(b, st, blk, q["l"], x != 0)
                    succ.append((d, s2))
                vals = [x for x, _ in targets]
                if not (v is not None and not isinstance(v, list) and v[0] == v[1] and v[0] in vals):
                    s2 = st
                    if q is not None and not q["p"] and t.get("discr_ty") == "bool" and len(vals) == 1:
                        s2 = self.refine(b, st, blk, q["l"], vals[0] == 0)
                    succ.append((t["otherwise"], s2))
            elif k == "assert":
                v = self.operand(b, st, t["cond"])
                exp = 1 if t.get("expected", True) else 0
                may_fail = v is None or isinstance(v, list) or not (v[0] == v[1] == exp)
                if may_fail:
                    ops = [self.operand(b, st, o) for o in t["ops"]]
                    self.alarms.append((name, t["kind"], loc(t["sp"]), "operands %s%s" % (ops, (" [called from %s]" % " <- ".join(reversed(chain))) if chain else "")))
                q = operand_place(t["cond"])
                s2 = st
                if q is not None and not q["p"]:
                    s2 = self.refine(b, st, blk, q["l"], bool(exp))
                succ.append((t["target"], s2))
            elif k == "call":
                cn = callee_name(t)
                if any(mk in cn for mk in PANIC_MARKS) or t.get("target") is None:
                    self.alarms.append((name, "panic", loc(t["sp"]), "%s reachable%s" % (cn.split("<")[0][:60], (" [called from %s]" % " <- ".join(reversed(chain))) if chain else "")))
                else:
                    argv = [self.operand(b, st, a) for a in t["args"]]
                    last = cn.split("::")[-1].split("<")[0]
                    dty = b.local_ty(t["dest"]["l"]) if not t["dest"]["p"] else None
                    if F.has_body(cn) and not t["callee"].get("trait"):
                        r = self.run(cn, argv, depth + 1, chain + (name,))
                    elif last in COUNTING and cn.startswith("core::num::"):
                        r = (0, 128)
                        m = re.search(r"impl (u\d+|usize)", cn)
                        if m:
                            r = (0, INT_BITS[m.group(1)])
                    elif last in ("min",) and len(argv) == 2 and all(a is not None and not isinstance(a, list) for a in argv):
                        r = (min(argv[0][0], argv[1][0]), min(argv[0][1], argv[1][1]))
                    elif last in ("max",) and len(argv) == 2 and all(a is not None and not isinstance(a, list) for a in argv):
                        r = (max(argv[0][0], argv[1][0]), max(argv[0][1], argv[1][1]))
                    else:
                        r = top(dty)
                    if r is None or r == "none":
                        r = top(dty)
                    if not t["dest"]["p"]:
                        st[t["dest"]["l"]] = r
                    succ.append((t["target"], st))
            elif k in ("drop",):
                succ.append((t["target"], st))
            for d, s2 in succ:
                if any(v == "bottom" for v in s2.values()):
                    continue
                old = states.get(d)
                if old is None:
                    states[d] = dict(s2)
                    work.append(d)
                else:
                    new = {}
                    for l in set(old) | set(s2):
                        if l in old and l in s2:
                            new[l] = hull(old[l], s2[l])
                        else:
                            new[l] = None
                    if new != old:
                        states[d] = new
                        work.append(d)
        return None if ret == "none" else ret


def check_documented_domains(ctx, F, tag, prefix, module="bits::", floor=12):
    """One obligation per helper of `module` whose documented domain is a conjunction of simple bounds."""
    n = 0
    skipped = []
    for name in sorted(F.bodies):
        if not name.startswith(module) or "::" in name[len(module):] or "{" in name:
            continue
        fs = F.fns.get(name) or []
        if not fs or fs[0].get("vis") != "pub":
            continue
        f = fs[0]
        b = F.body(name)
        params = [b.local_name(i + 1) for i in range(b.nargs)]
        dom = parse_domain(f.get("doc") or "", params)
        if dom is None:
            skipped.append(name)
            continue
        args = []
        ok_types = True
        for i, p in enumerate(params):
            t = top(b.local_ty(i + 1))
            if t is None:
                args.append(None)
                continue
            lo, hi = dom.get(p, (0, None))
            args.append((max(lo, t[0]), t[1] if hi is None else min(hi, t[1])))
        it = Interp(F)
        it.run(name, args)
        n += 1
        shown = ", ".join("%s in [%s, %s]" % (p, a[0], "2^64-1" if a[1] == UMAX else a[1]) for p, a in zip(params, args) if a is not None)
        ctx.ob(prefix + ".no-panic-inside-documented-domain", name + tag, loc(b.raw["span"]), not it.alarms, "interval-abstract-interpretation",
               "documented domain %s: %s" % (shown or "(all values)", ("no overflow / bounds / division assertion and no panic edge can be taken" if not it.alarms else
                                                                      "can fail inside it: %s" % ["%s at %s (%s)" % (a[1], a[2], a[3][:90]) for a in it.alarms[:3]])))
    ctx.note("documented-domain interpretation%s: %d helpers covered; not covered (relational or prose condition): %s" % (tag, n, skipped))
    ctx.count("documented-domain-helpers" + tag, n)
    ctx.floor("documented-domain-helpers" + tag, floor)
