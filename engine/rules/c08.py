"""C08 -- the safe API never touches memory outside a structure's buffers (structural part).

 R1 ledger: every unsafe call site of the crate is discharged -- forwarded (caller is itself an unsafe fn with a `# Safety`
    section), guarded (a dominating comparison establishes the callee's documented precondition), bounded source (the argument
    cannot exceed the bound by construction) or reviewed invariant (named site + reason, structural residue still checked)
 R2 every function of the unsafe API table is still declared unsafe (+ compile_fail witnesses in the thorough tier)
 R3 no caller-supplied unbounded value reaches an unsafe callee (A3 class c)
 R4 iterator cursors are only built from (rank, select(rank)) pairs / structure quantities, and stored only by their own impls
 R5 reinterpreting a generic type as bytes needs an unsafe marker trait (known finding KF1)
 R6 mapped memory is carved only behind guards (shared with C13.R1)
"""
from facts import Undecided, loc, tstr, callee_name, callee_written, subterms, operand_place
from guards import facts_at, strip_casts, edge_facts, try_sites
from effects import field_store_blocks, store_path
from pat import m, Bind, ANY, Call, Bin, Const, Param, SelfField, core, self_path
import mapped
import ranges
import c09

META = {
    "level": "other",
    "technique": "static analysis: unsafe-contract ledger over every unsafe call site in MIR (guard dominance, bounded-by-construction terms, who-may-store on width fields, cursor provenance), raw-value propagation into unsafe callees, unsafe-API table, compile_fail witnesses (thorough)",
    "explanation": "All call sites whose callee is an unsafe fn are enumerated from MIR (floor: the count confirmed by reading). A site inside "
                   "an unsafe fn with a documented contract forwards its obligation to that function's callers. A site in a safe function "
                   "must be discharged by a dominating comparison that matches the callee's `# Safety` precondition (transcribed in the "
                   "contract table), by an argument that is bounded by construction (split_offset(..).1 <= 63, bit_len(..) <= 64, a width "
                   "field all of whose stores are validated), or by a reviewed invariant naming the site and the reason; for reviewed sites "
                   "the structural residue (cursor guard dominates the scan, cursor built from a (rank, select(rank)) pair) is still "
                   "checked. Raw-value propagation shows no unbounded caller value reaches an unsafe callee. The representation "
                   "invariants behind the reviewed entries (cached counts, sampled positions) are C01-C04 arithmetic and are not decided, "
                   "with one exception that is structural: R7 -- the cached count comes from a whole-word popcount, so every RawVector "
                   "operation that shrinks or rebuilds the vector must pass the tail-clearing call on all paths (the C05.R1 rule, run here "
                   "because a stale tail makes OneIter / select_unchecked walk past the buffer).",
    "trusted_base": ["rustc's MIR faithfully represents the source", "std's own unsafe contracts (from_raw_parts, get_unchecked, set_len) as documented"],
    "assumptions": ["structures are built through the safe API or loaded from bytes the library wrote (property scope)"],
}

FLOOR_SITES = 70   # counted 75 on the pinned tree (native configuration)

UNSAFE_API = [
    "bits::low_set_unchecked", "bits::high_set_unchecked", "bits::select", "bits::write_int", "bits::read_int",
    "bit_vector::rank_support::RankSupport::rank_unchecked", "bit_vector::select_support::SelectSupport::<T>::select_unchecked",
    "raw_vector::AccessRaw::int", "raw_vector::AccessRaw::word_unchecked", "raw_vector::AccessRaw::set_int",
    "raw_vector::PushRaw::push_int", "raw_vector::PopRaw::pop_int", "bit_vector::Transformation::word_unchecked",
    "sparse_vector::SparseBuilder::set_unchecked", "rl_vector::RLBuilder::set_bit_unchecked", "rl_vector::RLBuilder::set_run_unchecked",
    "serialize::MemoryMap::as_mut_slice",
]

# argument positions (negative = from the end) that each unsafe callee's `# Safety` contract constrains
CONTRACT_ARGS = {"low_set_unchecked": [0], "high_set_unchecked": [0], "select": [1], "word_unchecked": [-1], "rank_unchecked": [2], "select_unchecked": [2],
                 "int": [-1], "set_int": [-1], "push_int": [-1], "pop_int": [-1], "read_int": [-1], "write_int": [-1], "get_unchecked": [1],
                 "from_raw_parts": [1], "from_raw_parts_mut": [1], "set_len": [1]}
DELEGATED_CONTRACTS = ("set_unchecked", "set_bit_unchecked", "set_run_unchecked")

# Reviewed invariants: (caller, callee-suffix) -> reason.  One named site, one line of reason; the residue is checked in code below.
REVIEWED = {
    ("<bit_vector::OneIter<'a, T> as std::iter::Iterator>::next", "word_unchecked"):
        "forward word scan: the cursor guard next.0 < limit.0 means a set bit of rank next.0 exists at or after next.1 (cached count is exact), so the scan stops inside the buffer",
    ("<bit_vector::OneIter<'a, T> as std::iter::Iterator>::nth", "word_unchecked"):
        "counted forward scan: n < limit.0 - next.0 set bits remain after the cursor, so the scan stops inside the buffer",
    ("<bit_vector::OneIter<'a, T> as std::iter::DoubleEndedIterator>::next_back", "word_unchecked"):
        "backward word scan: next.0 < limit.0 means a set bit exists before limit.1, so the scan stops at or after word 0",
    ("raw_vector::RawVectorWriter::flush", "int"):
        "overflow width = buf.len() - buf_len < 64: the buffer is flushed as soon as it reaches buf_len and one push adds at most 64 bits",
    ("raw_vector::RawVectorWriter::flush", "push_int"):
        "same overflow pair (value, width < 64) saved before the flush",
}
WIDTH_FIELD_ADTS = ("int_vector::IntVector", "int_vector::IntVectorWriter", "int_vector::IntVectorMapper")
REVIEWED_WIDTH_STORES = {
    "<int_vector::IntVector as serialize::Serialize>::load": "width read from bytes the library wrote (the loader validates len * width against the data length only)",
    "<int_vector::IntVectorMapper<'a> as serialize::MemoryMapped<'a>>::new": "width read from a file the library wrote",
    "<int_vector::IntVector as std::clone::Clone>::clone": "derived Clone",
}


def check(ctx):
    configs = ["native", "portable"] if ctx.tier == "quick" else ["native", "portable", "native-rel", "portable-rel"]
    site_sets = {}
    for cfg in configs:
        site_sets[cfg] = check_config(ctx, ctx.facts(cfg), "@" + cfg, cfg)
    # the unsafe call-site set is the same with and without overflow checks, and differs between native and portable only in bits::select
    base = site_sets[configs[0]]
    for cfg in configs[1:]:
        diff = {s for s in (site_sets[cfg] ^ base) if not s.startswith("bits::select|")}
        ctx.ob("C08.R1.site-set-stable-across-configurations", cfg, "src/", not diff, "set-equality",
               "unsafe call sites differing from %s outside bits::select: %s" % (configs[0], sorted(diff)[:6]), nontrivial=False)
    if ctx.tier == "thorough":
        import witness
        witness.run(ctx, "C08")
        import poscontrol
        poscontrol.run(ctx, "C08")


# ---------------------------------------------------------------------------------------- bounded-by-construction terms

NARROW_MAX = {"bool": 1, "u8": 255, "u16": 65535, "u32": (1 << 32) - 1}


def max_value(F, b, t, block, depth=0):
    """Upper bound (int) of term t established by construction or by a dominating fact, or None."""
    # a cast to a narrow unsigned type bounds the value whatever went in (`x as u8`, `u8::try_from`-free byte extraction)
    tyb = None
    while isinstance(t, tuple) and t and t[0] == "cast":
        if t[2] in NARROW_MAX:
            tyb = NARROW_MAX[t[2]] if tyb is None else min(tyb, NARROW_MAX[t[2]])
        t = t[1]
    if tyb is not None:
        inner = max_value(F, b, t, block, depth + 1) if depth <= 10 else None
        return tyb if inner is None else min(tyb, inner)
    if depth > 10:
        return None
    if t[0] == "const" and isinstance(t[1], int):
        return t[1]
    if t[0] == "field" and t[2] == "1" and strip_casts(t[1])[0] == "call" and strip_casts(t[1])[1] == "bits::split_offset":
        return 63
    if t[0] == "call" and t[1] == "bits::bit_len":
        return 64
    if t[0] == "bin" and t[1] == "BitAnd":
        vals = [max_value(F, b, x, block, depth + 1) for x in (t[2], t[3])]
        vals = [v for v in vals if v is not None]
        return min(vals) if vals else None
    if t[0] == "bin" and t[1] == "Add":
        x, y = max_value(F, b, t[2], block, depth + 1), max_value(F, b, t[3], block, depth + 1)
        return x + y if x is not None and y is not None else None
    if t[0] == "call" and t[1].split("::")[-1] == "min" and ("cmp::" in t[1] or "core::num" in t[1] or "Ord" in t[1]) and len(t[2]) == 2:
        vals = [max_value(F, b, x, block, depth + 1) for x in t[2]]
        vals = [v for v in vals if v is not None]
        return min(vals) if vals else None          # min(a, 64) is at most 64 whatever a is
    if t[0] == "call" and t[1].endswith("::width") and len(t[2]) == 1:
        # a getter of a validated width field
        if F.has_body(t[1]):
            gb = F.body(t[1])
            rt = gb.term_of_local(0)
            if self_path(rt) == ["width"]:
                return 64 if width_field_ok(F, gb) else None
    if t[0] == "field" and t[2] == "width" and self_path(t) == ["width"]:
        return 64
    if t[0] == "field" and t[2] == "width":
        from guards import ctor_payload_width
        if ctor_payload_width(t) is not None:
            return 64           # the width field of what a validating constructor returned
    if block is not None:
        from guards import validated_by_ctor
        if validated_by_ctor(facts_at(b, block), t):
            return 64           # `IntVector::new(t)?` accepted it
    if t[0] == "var" and depth < 8:
        # a local assigned in several arms (`let w = if fast { a } else { b }`): bounded if every assignment is
        ds = b.defs().get(t[1], [])
        if ds and all(d[2] in ("assign", "call") for d in ds) and not (1 <= t[1] <= b.nargs):
            vals = []
            for (dbi, si, kind, payload) in ds:
                tt = b.term_of_rvalue(payload) if kind == "assign" else b.term_of_call(payload)
                if strip_casts(tt) == t:
                    vals.append(None)
                else:
                    vals.append(max_value(F, b, tt, dbi, depth + 1))
            if all(v is not None for v in vals):
                return max(vals)
    if block is not None:
        for f in facts_at(b, block):
            if f[0] == "cmp" and strip_casts(f[2]) == t:
                c = strip_casts(f[3])
                if c[0] == "const" and isinstance(c[1], int):
                    if f[1] == "Le":
                        return c[1]
                    if f[1] == "Lt":
                        return c[1] - 1
    return None


_width_cache = {}


def width_field_ok(F, getter_body=None):
    return _width_cache.get(id(F), {}).get("ok", False)


def check_width_fields(ctx, F, tag):
    """Every store of a `width` field of the three int-vector types is <= 64 by construction, guarded, or a reviewed load site."""
    allok = True
    n = 0
    for b in F.all_bodies():
        for bi, si, st in b.stmts():
            if st["s"] != "assign":
                continue
            vals = []
            if st["rv"]["r"] == "agg" and st["rv"].get("def") in WIDTH_FIELD_ADTS:
                ops = dict(zip(st["rv"]["fields"], st["rv"]["ops"]))
                vals.append(b.term_of_operand(ops["width"]))
            elif st["lhs"]["p"] and any(a in WIDTH_FIELD_ADTS and nme == "width" for a, nme in store_path(st["lhs"])):
                vals.append(b.term_of_rvalue(st["rv"]))
            for v in vals:
                n += 1
                if b.name in REVIEWED_WIDTH_STORES:
                    ctx.exempt("C08.R1.width-field-store", b.name, loc(st["sp"]), REVIEWED_WIDTH_STORES[b.name])
                    ctx.ob("C08.R1.width-field-store", b.name + tag, loc(st["sp"]), True, "reviewed-invariant", REVIEWED_WIDTH_STORES[b.name], nontrivial=False)
                    continue
                mv = max_value(F, b, v, bi)
                ok = mv is not None and mv <= 64
                allok = allok and ok
                ctx.ob("C08.R1.width-field-store", b.name + tag, loc(st["sp"]), ok, "bounded-source/guard", "width := %s is at most %s" % (tstr(v)[:60], mv))
    _width_cache[id(F)] = {"ok": allok and n >= 6}
    ctx.count("width-field-stores" + tag, n)
    ctx.floor("width-field-stores" + tag, 8)


# ---------------------------------------------------------------------------------------- discharges for safe call sites

def discharge(ctx, F, b, bi, t, cname):
    """Returns (ok, how, detail) for an unsafe call in a safe function."""
    args = [b.term_of_operand(a) for a in t["args"]]
    fs = facts_at(b, bi)
    last = cname.split("::")[-1]
    rev = [(k, v) for k, v in REVIEWED.items() if k[0] == b.name and last == k[1]]
    if last in ("low_set_unchecked", "high_set_unchecked"):
        mv = max_value(F, b, args[0], bi)
        return (mv is not None and mv <= 64, "bounded-source", "argument %s <= %s (contract: n <= 64)" % (tstr(args[0])[:70], mv))
    if cname == "bits::select":
        w, r = strip_casts(args[0]), strip_casts(args[1])
        ok = False
        for f in fs:
            if f[0] == "cmp" and ((f[1] == "Gt" and strip_casts(f[3]) == r and counts_ones_of(b, f[2], w)) or (f[1] == "Lt" and strip_casts(f[2]) == r and counts_ones_of(b, f[3], w))):
                ok = True
        return (ok, "guarded", "bits::select(%s, %s) dominated by count_ones(word) > rank: %s" % (tstr(w), tstr(r), ok))
    if last == "word_unchecked" and not rev:
        idx = strip_casts(args[-1])
        ok = any(f[0] == "cmp" and f[1] == "Lt" and strip_casts(f[2]) == idx and is_word_count_of_len(strip_casts(f[3])) for f in fs)
        if not ok and idx[0] == "field" and idx[2] == "0" and strip_casts(idx[1])[0] == "call" and strip_casts(idx[1])[1] == "bits::split_offset":
            # the word that contains bit v, for a v below the bit length: v < len  =>  v / 64 < ceil(len / 64) = number of words
            v = strip_casts(strip_casts(idx[1])[2][0])
            recv = core(args[0])
            for f in fs:
                if f[0] == "cmp" and f[1] == "Lt" and strip_casts(f[2]) == v:
                    c = core(f[3])
                    if c[0] == "call" and c[1].split("::")[-1] == "len" and ("RawVector" in c[1] or "BitVec" in c[1]):
                        owner = core(c[2][0])
                        # the length is that of the vector whose words are read (its own data, or the bitvector that owns it)
                        if owner == recv or (recv[0] == "field" and recv[2] == "data" and core(recv[1]) == owner):
                            ok = True
        return (ok, "guarded", "word_unchecked(%s) dominated by index < split_offset(len).0 (a full word below the last one): %s" % (tstr(idx), ok))
    if last == "rank_unchecked" and len(args) == 3:
        parent, idx = core(args[1]), strip_casts(args[2])
        ok = any(f[0] == "cmp" and f[1] == "Lt" and strip_casts(f[2]) == idx and m(Call(lambda n_: n_.endswith("BitVec<'a>>::len") or n_ == "ops::BitVec::len", Bind("p")), f[3], {"p": parent}) for f in fs)
        sup = self_path(strip_unwrap(args[0])) == ["rank"]
        return (ok and sup and parent[:2] == ("param", 0), "guarded", "rank_unchecked(self.rank, self, %s) dominated by index < self.len(): %s" % (tstr(idx), ok))
    if last == "select_unchecked" and len(args) == 3 and "SelectSupport" in cname:
        parent, r = core(args[1]), strip_casts(args[2])
        targ = [a for a in t["callee"].get("args", []) if a.startswith("bit_vector::")]
        trans = targ[0] if targ else "?"
        ok = False
        from guards import canon
        want = canon(F, ("call", "<%s as bit_vector::Transformation>::count_ones" % trans, (parent,), (), "bit_vector::Transformation::count_ones"))
        for f in fs:
            if f[0] == "cmp" and f[1] == "Lt" and strip_casts(f[2]) == r:
                c = core(f[3])
                if c[0] == "call" and c[1] == "<%s as bit_vector::Transformation>::count_ones" % trans and core(c[2][0]) == parent:
                    ok = True
                elif canon(F, c) == want:
                    ok = True       # the same quantity spelled differently (`self.count_zeros()` for Complement::count_ones(self))
        field = {"bit_vector::Identity": ["select"], "bit_vector::Complement": ["select_zero"]}.get(trans)
        sup = self_path(strip_unwrap(args[0])) == field
        return (ok and sup and parent[:2] == ("param", 0), "guarded",
                "select_unchecked::<%s>(self.%s, self, %s) dominated by rank < %s::count_ones(self): %s; support field matches: %s" % (trans.split("::")[-1], field, tstr(r), trans.split("::")[-1], ok, sup))
    if last in ("int", "set_int", "push_int", "pop_int") and not rev:
        w = args[-1]
        mv = max_value(F, b, w, bi)
        return (mv is not None and mv <= 64, "bounded-source", "width argument %s <= %s (contract: width <= 64)" % (tstr(w)[:70], mv))
    if rev:
        return None  # handled by reviewed()
    return None


def strip_unwrap(t):
    t = core(t)
    while t[0] == "call" and t[1].split("::")[-1].split("<")[0] in ("unwrap", "as_ref", "expect") and t[2]:
        t = core(t[2][0])
    return t


def counts_ones_of(b, x, w):
    """x is (a cast of) count_ones(w), or a local all of whose definitions are."""
    x = strip_casts(x)
    w = strip_casts(w)

    def is_co(t):
        t = strip_casts(t)
        return t[0] == "call" and t[1].endswith("::count_ones") and strip_casts(t[2][0]) == w
    if is_co(x):
        return True
    if x[0] == "var":
        ds = b.defs().get(x[1], [])
        terms = [b.term_of_rvalue(p) if k == "assign" else b.term_of_call(p) for (_, _, k, p) in ds if k in ("assign", "call")]
        return bool(terms) and all(is_co(tt) for tt in terms)
    return False


def is_word_count_of_len(t):
    return t[0] == "field" and t[2] == "0" and strip_casts(t[1])[0] == "call" and strip_casts(t[1])[1] == "bits::split_offset"


def reviewed(ctx, b, bi, t, cname, key, where, tag):
    last = cname.split("::")[-1]
    reason = REVIEWED[(b.name, last)]
    ctx.exempt("C08.R1.unsafe-site-discharged", key, where, reason)
    ok = True
    residue = "none"
    if "OneIter" in b.name:
        # structural residue: the cursor guard dominates the scan
        fs = facts_at(b, bi)

        def spath(t_):
            """Field path of a cursor component, also through a local it was copied into once (`let (rank, start) = self.next`)."""
            p_ = self_path(t_)
            if p_:
                return p_
            t0 = core(t_)
            if t0[0] == "var":
                ds = b.defs().get(t0[1], [])
                if len(ds) == 1 and ds[0][2] == "assign" and ds[0][3]["r"] == "use":
                    return self_path(b.term_of_operand(ds[0][3]["o"]))
            return None
        if b.name.endswith("::nth"):
            ok = any(f[0] == "cmp" and ((f[1] == "Lt" and core(f[2])[:2] == ("param", 1)) or (f[1] == "Gt" and core(f[3])[:2] == ("param", 1))) for f in fs)
            residue = "scan dominated by n < limit.0 - next.0"
        else:
            ok = any(f[0] == "cmp" and ((f[1] == "Lt" and spath(f[2]) == ["next", "0"] and spath(f[3]) == ["limit", "0"]) or
                                        (f[1] == "Gt" and spath(f[3]) == ["next", "0"] and spath(f[2]) == ["limit", "0"])) for f in fs)
            residue = "scan dominated by next.0 < limit.0"
        if ok and b.name.endswith("::next_back"):
            # the backward scan starts in the word that holds bit limit.1 - 1 (limit.1 is exclusive and may equal the length, whose
            # word does not exist when the length is a multiple of 64): limit.1 is decremented before its word index is taken
            start = backward_scan_start(b)
            residue += "; first word read is that of limit.1 - 1"
            if start is not True:
                ctx.ob("C08.R1.unsafe-site-discharged", key + tag, where, start, "reviewed-invariant",
                       "%s; structural residue: %s -> %s" % (reason, residue, "the word index is taken from the exclusive limit itself" if start is False else "start of the scan not recognised"),
                       positive=start is False)
                return
    ctx.ob("C08.R1.unsafe-site-discharged", key + tag, where, ok, "reviewed-invariant", "%s; structural residue checked: %s -> %s" % (reason, residue, ok))


def backward_scan_start(b):
    """True: the word index of the backward scan is split_offset(limit.1 - 1), directly or after storing the decremented limit;
    False: it is split_offset(limit.1) of the undecremented exclusive limit; None: neither shape."""
    res = None
    for bi, t in b.calls():
        if callee_name(t) != "bits::split_offset":
            continue
        a = strip_casts(b.term_of_operand(t["args"][0]))
        if a[0] == "bin" and a[1] in ("Sub", "SubWithOverflow") and self_path(a[2]) == ["limit", "1"] and strip_casts(a[3]) == ("const", 1):
            return True
        if self_path(a) != ["limit", "1"]:
            continue
        # a dominating store of limit.1 - 1 into the cursor
        dec = False
        from facts import pl
        for sbi, si, st in b.stmts():
            if st["s"] != "assign" or not st["lhs"]["p"] or st["lhs"]["p"][0] != "deref" or st["lhs"]["l"] != 1:
                continue
            v = b.term_of_rvalue(st["rv"])
            txt = pl(st["lhs"])
            comp = None
            if txt.endswith(".limit") and v[0] == "tuple" and len(v[1]) == 2:
                comp = v[1][1]
            elif txt.endswith(".limit.1"):
                comp = v
            if comp is None:
                continue
            c = strip_casts(comp)
            if c[0] == "bin" and c[1] in ("Sub", "SubWithOverflow") and self_path(c[2]) == ["limit", "1"] and strip_casts(c[3]) == ("const", 1):
                if sbi == bi or b.dominates(sbi, bi):
                    dec = True
        if dec:
            return True
        res = False
    return res


# ---------------------------------------------------------------------------------------- main

def check_config(ctx, F, tag, cfg):
    check_width_fields(ctx, F, tag)
    sites = ledger(ctx, F, tag)
    n = len(sites)
    check_rest(ctx, F, tag, cfg)
    # R7: the cached number of set bits that the unchecked iterators and select paths trust (OneIter's remaining count,
    # Complement::count_ones, select_unchecked's rank bound) is RawVector::count_ones() -- a popcount over whole words -- taken
    # when a BitVector is made from a RawVector; it is exact only while the bits past `len` in the last word are zero.
    import c05
    c05.check_tail_invariant(ctx, F, tag, prefix="C08.R7.unused-bits-zero")
    from core import Relabel
    c05.check_word_count(ctx, F, tag, rule="C08.R7.raw-vector-word-count")
    c05.check_write_int(Relabel(ctx, {"C08.R7w.value-masked-before-store": "C08.R7.raw-vector-write-stays-in-field"}), F, tag, prefix="C08.R7w")
    # R8 (borrowed): the values the reviewed unchecked reads trust -- the cached count, the positions select() returns, a mapping
    # that really exists -- are established by rules owned by C01 / C18
    from core import Relabel
    import c01, c18
    c01.check_config(Relabel(ctx, {"C01.R3.cached-count": "C08.R8.cached-count", "C01.R4.select-store-read-agreement": "C08.R8.select-store-read-agreement"}), F, tag)
    if cfg in ("native", "native-rel"):
        c18.check_config(Relabel(ctx, {"C18.R1.": "C08.R8.mmap."}), F, tag)
    # (borrowed) the byte views the blanket Serialize impls build over a value, and the buffer Vec::load reads into, cover exactly
    # the value: size_of::<Self>() bytes of `self`, `size` items of a vector allocated for `size` items (C06.R2) -- one byte more
    # is a read or write past the object
    import c06
    c06.check_config(Relabel(ctx, {"C06.R2.basic.serializable-body": "C08.R9.byte-view-covers-exactly-the-value",
                                   "C06.R2.basic.serializable-load": "C08.R9.byte-view-covers-exactly-the-loaded-value",
                                   "C06.R2.basic.vec-load": "C08.R9.vector-buffer-holds-what-is-read"}), F, tag)
    return sites


def ledger(ctx, F, tag):
    derived = {i["def"] for i in F.impls if i["derived"]}
    sites = set()
    n = 0
    per_fn_count = {}
    for b in F.all_bodies():
        f = F.fns.get(b.name, [{}])[0]
        if f.get("impl") in derived:
            continue
        caller_unsafe = f.get("unsafe", False)
        if b.raw["kind"] == "Closure":
            parent = b.raw.get("parent")
            caller_unsafe = F.fns.get(parent, [{}])[0].get("unsafe", False)
        for bi, t in b.calls():
            if not t["callee"].get("unsafe") or t["exp"]:
                continue
            cname = callee_name(t)
            k = per_fn_count.get((b.name, cname), 0)
            per_fn_count[(b.name, cname)] = k + 1
            key = "%s|%s#%d" % (b.name, cname, k)
            sites.add("%s|%s" % (b.name, cname.split("::")[-1]))
            n += 1
            where = loc(t["sp"])
            if caller_unsafe:
                doc = f.get("doc", "")
                if b.raw["kind"] == "Closure":
                    doc = F.fns.get(b.raw.get("parent"), [{}])[0].get("doc", "")
                # trait-impl methods inherit the contract from the trait declaration
                if "# Safety" not in doc and f.get("impl_trait"):
                    tr = F.traits.get(f["impl_trait"])
                    if tr:
                        for it in tr["items"]:
                            if it["name"] == f.get("name"):
                                doc = it.get("doc", "")
                ctx.ob("C08.R1.unsafe-site-discharged", key + tag, where, "# Safety" in doc, "forwarded", "caller is an unsafe fn with a documented `# Safety` contract; the obligation moves to its callers", nontrivial=False)
                continue
            if (b.name, cname.split("::")[-1]) in REVIEWED:
                reviewed(ctx, b, bi, t, cname, key, where, tag)
                continue
            res = discharge(ctx, F, b, bi, t, cname)
            if res is not None:
                ok, how, detail = res
                # a new site whose arguments are the caller's own, never looked at on the way, is positively unguarded
                from guards import untested_params
                bare = (not ok) and untested_params(b, bi, [b.term_of_operand(a) for a in t["args"][1:]])
                ctx.ob("C08.R1.unsafe-site-discharged", key + tag, where, ok, how, detail, positive=bare)
                continue
            # sites whose discharge is a rule of another section of this check
            if cname.startswith("std::slice::from_raw_parts") or cname.endswith("::set_len") or cname.startswith("libc::"):
                how = "see-R5/R6/C06/C18"
                owner = {"<V as serialize::Serialize>": "R5 (known finding KF1) + C06.R2.basic.serializable-*", "<std::vec::Vec<V> as serialize::Serialize>": "C06.R2.basic.vec-body / vec-load (pointer and length from the same vector; set_len on the read's success edge)",
                         "serialize::MemoryMap": "C18.R1-R3", "<serialize::MemoryMap as": "C18.R2-R3", "<serialize::Mapped": "R6 / C13.R1 guard-before-carve"}
                own = [v for k2, v in owner.items() if b.name.startswith(k2)]
                ctx.ob("C08.R1.unsafe-site-discharged", key + tag, where, bool(own), "delegated", "discharged by %s" % (own[0] if own else "NO RULE covers this site"), nontrivial=False)
                continue
            if cname in ("sparse_vector::SparseBuilder::set_unchecked", "rl_vector::RLBuilder::set_bit_unchecked", "rl_vector::RLBuilder::set_run_unchecked"):
                ctx.ob("C08.R1.unsafe-site-discharged", key + tag, where, True, "delegated", "discharged by C16.R2.unchecked-call-discharged (guards of the builder contract)", nontrivial=False)
                continue
            ctx.ob("C08.R1.unsafe-site-discharged", key + tag, where, False, "none", "unsafe call %s in safe function %s has no contract-table entry and no reviewed invariant" % (cname, b.name))
    ctx.count("unsafe-call-sites" + tag, n)
    return sites


def check_rest(ctx, F, tag, cfg):
    ctx.floor("unsafe-call-sites" + tag, FLOOR_SITES)

    # ---------------- R2 unsafe API table
    for fn in UNSAFE_API:
        f = F.fn(fn)
        ctx.ob("C08.R2.api-still-unsafe", fn + tag, loc(f["span"]), f["unsafe"] and "# Safety" in f["doc"], "item-structure", "%s: unsafe=%s, `# Safety` documented=%s" % (fn, f["unsafe"], "# Safety" in f["doc"]), nontrivial=False)
    # impls of the unsafe trait methods are unsafe too (guaranteed by the compiler once the trait item is unsafe)

    # ---------------- R3 raw reaches unsafe
    entries, an = c09.run_analysis(F)
    for k in an.sink_inventory():
        ctx.site("C08.R3.raw-value-reaches-unsafe|%s%s" % (k, tag))
    known = lambda key: ctx.site_known("C08.R3.raw-value-reaches-unsafe|%s%s" % (key, tag))
    for key, a in sorted(an.unsafe_raw.items()):
        last = a["callee"].split("::")[-1].split("<")[0]
        if last in DELEGATED_CONTRACTS:
            continue    # joint constraints of the builder contracts are decided by C16.R2
        constrained = CONTRACT_ARGS.get(last)
        if constrained is not None:
            pos = {(i if i >= 0 else a["nargs"] + i) for i in constrained}
            if not (set(a["arg_idx"]) & pos):
                continue    # the unbounded value is data (a value to store), not an argument the contract constrains
        ctx.ob("C08.R3.raw-value-reaches-unsafe", key + tag, a["where"], False, "raw-value-propagation", a["detail"] + " [reached via %s]" % a["chain"], positive=known(key))
    for key, a in sorted(an.alarms.items()):
        # an unbounded raw value in checked arithmetic wraps in release builds; if the function also contains unsafe calls the wrapped value flows on
        has_unsafe = any(t["callee"].get("unsafe") and not t["exp"] for _, t in F.body(a["fn"]).calls())
        if has_unsafe and a["kind"] == "overflow" and not any(key.startswith(p) for p in c09.EXEMPT):
            ctx.ob("C08.R3.raw-value-reaches-unsafe", key + tag, a["where"], False, "raw-value-propagation",
                   "wrapped arithmetic on a caller-supplied value in a function that performs unsafe accesses (release build: the wrapped value passes the guard): " + a["detail"],
                   positive=known(key))
    ctx.ob("C08.R3.raw-value-reaches-unsafe", "summary" + tag, "src/", True, "raw-value-propagation",
           "%d functions reached with raw values from %d total entry points; unsafe callees receiving an unbounded raw value: %d" % (len(an.raw_params), len(entries), len(an.unsafe_raw)), nontrivial=False)

    check_cursors(ctx, F, tag)
    if cfg == "native":
        check_reinterpretation(ctx, F, "")
    mapped.check_views(ctx, F, tag, prefix="C08.R6")
    # bytes that come from a file are never trusted to be UTF-8: no unchecked conversion anywhere in the crate (zero-count)
    unchecked_utf8 = [(b.name, loc(t["sp"])) for b in F.all_bodies() if "::tests::" not in b.name for _, t in b.calls()
                      if callee_name(t).split("::")[-1] in ("from_utf8_unchecked", "from_utf8_unchecked_mut")]
    ctx.ob("C08.R6.no-unchecked-utf8", "crate" + tag, "src/", not unchecked_utf8, "who-may-call",
           "str::from_utf8_unchecked calls (count must be 0: a mapped or loaded byte string is validated, not assumed): %s" % unchecked_utf8[:3], nontrivial=False, positive=True)
    # (borrowed) the guard of each view constructor covers what the view then reads: the length formula of the guard is the one
    # the view is built with (C13.R2) -- a guard that rounds the byte length down lets from_raw_parts run past the map
    import c13
    from core import Relabel
    if not isinstance(ctx, Relabel):
        c13.check_config(Relabel(ctx, {"C13.R2.length-formulas-agree": "C08.R6.view-guard-covers-the-view"}), F, tag)


def check_cursors(ctx, F, tag, prefix="C08.R4"):
    OI = "bit_vector::OneIter"
    n = 0
    from guards import canon
    for b in F.all_bodies():
        k_fn = 0
        for bi, si, st in b.stmts():
            if st["s"] == "assign" and st["rv"]["r"] == "agg" and st["rv"].get("def") == OI:
                n += 1
                k_fn += 1
                ops = dict(zip(st["rv"]["fields"], st["rv"]["ops"]))
                parent = core(b.term_of_operand(ops["parent"]))
                lim = core(b.term_of_operand(ops["limit"]))
                nxt = core(b.term_of_operand(ops["next"]))
                trans = [a for a in st["rv"].get("args", []) if a.startswith("bit_vector::")]
                # the same quantities spelled differently count (`self.count_zeros()` for Complement::count_ones(self))
                want_count = [canon(F, ("call", "<%s as bit_vector::Transformation>::count_ones" % tr, (parent,), (), "bit_vector::Transformation::count_ones")) for tr in trans]
                want_len = canon(F, ("call", "<bit_vector::BitVector as ops::BitVec<'a>>::len", (parent,), (), "ops::BitVec::len"))

                def is_limit(t):
                    if not (t[0] == "tuple" and len(t[1]) == 2):
                        return False
                    by_name = m(Call(lambda n_: n_.endswith("Transformation>::count_ones") or n_ == "bit_vector::Transformation::count_ones", Bind("p")), t[1][0], {"p": parent}) and \
                        m(Call(lambda n_: n_.endswith("BitVec<'a>>::len") or n_ == "ops::BitVec::len", Bind("p")), t[1][1], {"p": parent})
                    return by_name or (canon(F, t[1][0]) in want_count and canon(F, t[1][1]) == want_len)
                okl = is_limit(lim)
                okn = None          # unknown provenance is undecided; a recognised form with the wrong rank / parent is a violation
                how = "?"
                if nxt[0] == "tuple" and len(nxt[1]) == 2:
                    a0, a1 = core(nxt[1][0]), core(nxt[1][1])
                    if a0 == ("const", 0) and a1 == ("const", 0):
                        okn, how = True, "(0, 0)"
                    elif is_limit(nxt):
                        okn, how = True, "limit (empty iterator)"
                    elif a1[0] == "call" and a1[1].endswith("::select_unchecked"):
                        okn, how = core(a1[2][2]) == a0 and core(a1[2][1]) == parent, "(rank, select_unchecked(parent, rank))"
                    elif any(isinstance(x, tuple) and x and x[0] == "call" and x[1].endswith("::select_unchecked") for x in subterms(a1)):
                        okn, how = False, "a select_unchecked result that was altered afterwards"
                if b.name == "<bit_vector::OneIter<'a, T> as std::clone::Clone>::clone":
                    continue
                verdict = False if (okn is False or not okl) else (True if okn else None)
                ctx.ob(prefix + ".cursor-provenance", "%s|OneIter#%d%s" % (b.name, k_fn, tag), loc(st["sp"]), verdict, "term-provenance",
                       "limit = (T::count_ones(parent), parent.len()): %s; next = %s: %s" % (okl, how, "not a recognised construction (position computed some other way)" if okn is None else okn))
    ctx.count("one-iter-aggregates" + tag, n)
    ctx.floor("one-iter-aggregates" + tag, 3)
    # next/limit stored only inside the iterator's own impls
    bad = []
    for b in F.all_bodies():
        for fld in ("next", "limit"):
            if field_store_blocks(b, OI, fld) and not b.name.startswith("<bit_vector::OneIter<'a, T> as std::iter::"):
                bad.append(b.name)
    import inline
    ctx.ob(prefix + ".cursor-stores", OI + tag, "src/bit_vector.rs", (not bad) if not inline.only_new(bad) else None, "who-may-store", "stores to OneIter.next/limit outside its Iterator impls: %s" % bad)
    # sparse OneIter: limit = Pos{high.len(), low.len()}
    SO = "sparse_vector::OneIter"
    k = 0
    for b in F.all_bodies():
        for bi, si, st in b.stmts():
            if st["s"] == "assign" and st["rv"]["r"] == "agg" and st["rv"].get("def") == SO and "Clone" not in b.name:
                k += 1
                ops = dict(zip(st["rv"]["fields"], st["rv"]["ops"]))
                lim = core(b.term_of_operand(ops["limit"]))
                ok = lim[0] == "adt" and lim[1] == "sparse_vector::Pos" and \
                    m(Call(lambda n_: n_.endswith("::len"), ANY), lim[4][0]) and any(self_path_any(x, "high") for x in subterms(lim[4][0])) and \
                    m(Call(lambda n_: n_.endswith("::len"), ANY), lim[4][1]) and any(self_path_any(x, "low") for x in subterms(lim[4][1]))
                ctx.ob(prefix + ".cursor-provenance", "%s|sparse::OneIter#%d%s" % (b.name, k, tag), loc(st["sp"]), ok, "term-provenance", "limit = Pos{high.len(), low.len()}: %s" % ok, nontrivial=False)
    ctx.count("sparse-one-iter-aggregates" + tag, k)
    ctx.floor("sparse-one-iter-aggregates" + tag, 2)


def self_path_any(x, name):
    return x[0] == "field" and x[2] == name


def check_reinterpretation(ctx, F, tag):
    """R5: from_raw_parts over `&Self` / Vec<V> storage for a type parameter bounded by a trait needs that trait to be unsafe (or Copy-bounded)."""
    tr = F.traits.get("serialize::Serializable")
    if tr is None:
        raise Undecided("anchor lost: trait serialize::Serializable")
    marker_ok = tr["unsafe"] or any("Copy" in s for s in tr["supers"])
    n = 0
    for b in F.all_bodies():
        if not (b.name.startswith("<V as serialize::Serialize>") or b.name.startswith("<std::vec::Vec<V> as serialize::Serialize>")):
            continue
        for bi, t in b.calls():
            if callee_name(t).startswith("std::slice::from_raw_parts"):
                n += 1
    ctx.count("generic-reinterpretation-sites" + tag, n)
    ctx.ob("C08.R5.reinterpretation-needs-unsafe-marker", "serialize::Serializable", loc(tr["span"]), marker_ok, "item-structure",
           "%d sites reinterpret a generic `V: Serializable` as bytes; trait Serializable is unsafe: %s, supertraits %s (a safe trait lets 100%% safe code implement it for a type owning heap memory: double free on load)" % (
               n, tr["unsafe"], tr["supers"]))
    ctx.floor("generic-reinterpretation-sites" + tag, 4)
