"""Compile-fail witnesses (type-level part of C08 / C13 / C18), thorough tier only.

A harness crate that path-depends on the analysed repository is generated in a scratch directory; every witness is a pair of
doctests: one `compile_fail,E0xxx` (must fail with exactly that error code -- needs the nightly toolchain) and a compiling twin
(`no_run`) that differs only by the offending line, so a witness whose paths are merely wrong cannot pass.
"""
import os
import re
import shutil
import subprocess
import tempfile

from facts import Undecided, REPO

PRELUDE = """use simple_sds::serialize::{self, MemoryMap, MappingMode, MemoryMapped, MappedSlice, Serialize};
use simple_sds::raw_vector::{RawVector, AccessRaw, PushRaw, PopRaw};
use simple_sds::bit_vector::{BitVector, Transformation, Identity};
use simple_sds::bit_vector::rank_support::RankSupport;
use simple_sds::bit_vector::select_support::SelectSupport;
use simple_sds::sparse_vector::SparseBuilder;
use simple_sds::rl_vector::RLBuilder;
use simple_sds::bits;
"""

# id, properties, error code, setup lines, offending line, twin line, trailing lines
WITNESSES = [
    ("view_outlives_map", ("C13", "C18"), "E0505",
     ["let name = serialize::temp_file_name(\"w\");", "let map = MemoryMap::new(&name, MappingMode::ReadOnly).unwrap();",
      "let view = MappedSlice::<u64>::new(&map, 0).unwrap();"],
     "drop(map);", "", ["let _n = view.len();"]),
    ("slice_outlives_map", ("C13", "C18"), "E0505",
     ["let name = serialize::temp_file_name(\"w\");", "let map = MemoryMap::new(&name, MappingMode::ReadOnly).unwrap();",
      "let s: &[u64] = map.as_ref();"],
     "drop(map);", "", ["let _n = s.len();"]),
    ("view_escapes_map_scope", ("C13", "C18"), "E0597",
     ["let name = serialize::temp_file_name(\"w\");", "let map0 = MemoryMap::new(&name, MappingMode::ReadOnly).unwrap();", "let view;"],
     "{ let map = MemoryMap::new(&name, MappingMode::ReadOnly).unwrap(); view = MappedSlice::<u64>::new(&map, 0).unwrap(); }",
     "{ view = MappedSlice::<u64>::new(&map0, 0).unwrap(); }", ["let _n = view.len(); let _ = &map0;"]),
    ("mut_slice_needs_unique_borrow", ("C18",), "E0502",
     ["let name = serialize::temp_file_name(\"w\");", "let mut map = MemoryMap::new(&name, MappingMode::Mutable).unwrap();",
      "let s: &[u64] = map.as_ref();"],
     "let m = unsafe { map.as_mut_slice() }; m[0] = 1;", "", ["let _n = s.len();"]),
    ("map_not_clone", ("C18",), "E0599",
     ["let name = serialize::temp_file_name(\"w\");", "let map = MemoryMap::new(&name, MappingMode::ReadOnly).unwrap();"],
     "let _c = map.clone();", "let _c = &map;", []),
]

UNSAFE_CALLS = [
    ("bits_select", "let _ = bits::select(1u64, 0);"),
    ("bits_low_set_unchecked", "let _ = bits::low_set_unchecked(3);"),
    ("bits_high_set_unchecked", "let _ = bits::high_set_unchecked(3);"),
    ("bits_read_int", "let v: Vec<u64> = vec![0]; let _ = bits::read_int(&v, 0, 4);"),
    ("bits_write_int", "let mut v: Vec<u64> = vec![0]; bits::write_int(&mut v, 0, 1, 4);"),
    ("raw_int", "let r = RawVector::with_len(64, false); let _ = r.int(0, 4);"),
    ("raw_set_int", "let mut r = RawVector::with_len(64, false); r.set_int(0, 1, 4);"),
    ("raw_word_unchecked", "let r = RawVector::with_len(64, false); let _ = r.word_unchecked(0);"),
    ("raw_push_int", "let mut r = RawVector::new(); r.push_int(1, 4);"),
    ("raw_pop_int", "let mut r = RawVector::with_len(64, false); let _ = r.pop_int(4);"),
    ("rank_unchecked", "let bv = BitVector::from(RawVector::with_len(64, true)); let rs = RankSupport::new(&bv); let _ = rs.rank_unchecked(&bv, 1);"),
    ("select_unchecked", "let bv = BitVector::from(RawVector::with_len(64, true)); let ss = SelectSupport::<Identity>::new(&bv); let _ = ss.select_unchecked(&bv, 1);"),
    ("transformation_word_unchecked", "let bv = BitVector::from(RawVector::with_len(64, true)); let _ = Identity::word_unchecked(&bv, 0);"),
    ("sparse_set_unchecked", "let mut b = SparseBuilder::new(10, 1).unwrap(); b.set_unchecked(3);"),
    ("rl_set_bit_unchecked", "let mut b = RLBuilder::new(); b.set_bit_unchecked(3);"),
    ("rl_set_run_unchecked", "let mut b = RLBuilder::new(); b.set_run_unchecked(3, 2);"),
    ("map_as_mut_slice", "let name = serialize::temp_file_name(\"w\"); let mut map = MemoryMap::new(&name, MappingMode::Mutable).unwrap(); let _ = map.as_mut_slice();"),
]
for _id, _line in UNSAFE_CALLS:
    WITNESSES.append(("unsafe_" + _id, ("C08",), "E0133", [], _line, "unsafe { %s }" % _line, []))


def crate_source(props):
    out = ["//! generated witness harness\n"]
    names = []
    for wid, wprops, ecode, setup, bad, twin, tail in WITNESSES:
        if props is not None and not (set(wprops) & set(props)):
            continue
        names.append(wid)
        for variant, line, attr in (("fail", bad, "compile_fail,%s" % ecode), ("twin", twin, "no_run")):
            out.append("/// ```%s" % attr)
            for l in PRELUDE.strip().split("\n"):
                out.append("/// # #![allow(unused)] " if False else "/// # " + l)
            out.append("/// # #[allow(unused)] fn w() {")
            for l in setup:
                out.append("/// " + l)
            if line:
                out.append("/// " + line)
            for l in tail:
                out.append("/// " + l)
            out.append("/// # }")
            out.append("/// ```")
            out.append("pub fn %s_%s() {}\n" % (wid, variant))
    return "\n".join(out) + "\n", names


def run(ctx, prop):
    """Runs the witnesses relevant to `prop` against ctx.repo and records one obligation per witness."""
    repo = ctx.repo
    tmp = tempfile.mkdtemp(prefix="witness-")
    try:
        src, names = crate_source([prop])
        os.makedirs(os.path.join(tmp, "w", "src"))
        with open(os.path.join(tmp, "w", "Cargo.toml"), "w") as f:
            f.write("[package]\nname = \"witness\"\nversion = \"0.0.0\"\nedition = \"2018\"\n\n[lib]\ndoctest = true\n\n[dependencies]\n"
                    "simple-sds = { path = \"%s\" }\n\n[workspace]\n" % os.path.abspath(repo))
        with open(os.path.join(tmp, "w", "src", "lib.rs"), "w") as f:
            f.write("#![allow(unused_doc_comments)]\n" + src)
        lock = os.path.join(repo, "Cargo.lock")
        env = dict(os.environ, CARGO_TARGET_DIR=os.path.join(tmp, "tgt"), CARGO_NET_OFFLINE="true")
        env.pop("RUSTC_WORKSPACE_WRAPPER", None)
        env.pop("RUSTFLAGS", None)
        p = subprocess.run(["cargo", "+nightly", "test", "--doc", "--offline", "--", "--test-threads", "16"], cwd=os.path.join(tmp, "w"), env=env,
                           stdout=subprocess.PIPE, stderr=subprocess.STDOUT, text=True)
        out = p.stdout
        results = {}
        for mobj in re.finditer(r"test src/lib\.rs - (\w+) \(line \d+\)( - compile fail| - compile)? \.\.\. (\w+)", out):
            results[mobj.group(1)] = mobj.group(3)
        if not results:
            raise Undecided("witness harness did not run:\n" + out[-1500:])
        for wid in names:
            f = results.get(wid + "_fail")
            t = results.get(wid + "_twin")
            w = [x for x in WITNESSES if x[0] == wid][0]
            ok = f == "ok" and t == "ok"
            ctx.ob("%s.witness.%s" % (prop, "unsafe-api" if wid.startswith("unsafe_") else "lifetime"), wid, "witness harness (generated)", ok, "compile-fail-witness",
                   "`%s` must be rejected with %s: %s; twin differing only in that line compiles: %s" % (w[4][:90], w[2], f, t))
        ctx.count("witnesses", len(names))
    finally:
        shutil.rmtree(tmp, ignore_errors=True)
