"""C14 -- truncated input and failed writes are always reported, never accepted.

 R1  no Result is dropped anywhere in the library (except the two documented Drop sites); an io::Result is consumed
     only by a propagating form (`?`, return, map_err, or a documented unwrap)
 R2  no partial-I/O primitive (Read::read / Write::write) is used; io::copy's byte count is compared with the requested length
 R3  at every `?` the Break arm only converts the residual into the return value; no Ok is reachable from it
 R4  mapped views refuse (UnexpectedEof) before touching memory (shared with C13.R1)
"""
from facts import Undecided, loc, tstr, callee_name, callee_written, reads_of_stmt, reads_of_term, operand_place, subterms, resolve_ref_local
from guards import try_sites, ok_blocks, must_pass_through, edge_facts, strip_casts
import mapped

META = {
    "level": "other",
    "technique": "static analysis: crate-wide Result-consumption dataflow on MIR, `?` break-arm shape, partial-I/O who-may-call, io::copy count guard (rustc_private driver)",
    "explanation": "Every call in the library's MIR whose destination type is a Result is enumerated; on every CFG path from the call to a "
                   "return its value must be read (not merely dropped), and io::Results must be consumed by a propagating form. Every `?` "
                   "site's Break arm must flow into the function's return value and never reach an Ok. Partial-I/O primitives are forbidden "
                   "(read_exact/write_all only), and the byte count of io::copy must be compared with the requested length before any Ok. "
                   "Mapped views must return UnexpectedEof before indexing or carving the map. Together these are the structural content of "
                   "'an I/O error or a short read is never turned into success'; arithmetic on honest header values is not decided.",
    "trusted_base": ["read_exact / write_all return Err on short reads / writes (std contract)", "rustc's MIR faithfully represents the source"],
    "assumptions": ["headers of a strict prefix of a valid file carry honest values (panics from arithmetic on them are outside static reach)"],
}

# Reviewed, exact, named: a destructor cannot return an error; documented on both writer types.
ALLOWED_DISCARDS = {
    ("<raw_vector::RawVectorWriter as std::ops::Drop>::drop", "raw_vector::RawVectorWriter::close"):
        "Drop cannot return; RawVectorWriter docs: errors on drop are ignored, call close() to see them",
    ("<int_vector::IntVectorWriter as std::ops::Drop>::drop", "int_vector::IntVectorWriter::close"):
        "Drop cannot return; IntVectorWriter docs: errors on drop are ignored, call close() to see them",
}
# Documented `# Panics`: I/O errors (push cannot return a Result through the PushRaw trait); serialize::test is a test helper that panics by contract.
ALLOWED_IO_UNWRAP = {
    "<raw_vector::RawVectorWriter as raw_vector::PushRaw>::push_bit": "documented: panics on I/O error during flush",
    "<raw_vector::RawVectorWriter as raw_vector::PushRaw>::push_int": "documented: panics on I/O error during flush",
    "serialize::test": "documented test helper: 'Will panic if any of the tests fails'",
}
PARTIAL_IO = {"std::io::Read::read", "std::io::Write::write", "std::io::Read::read_vectored", "std::io::Write::write_vectored",
              "std::io::Read::read_buf", "std::io::BufRead::fill_buf",
              # end-of-input is success for these: fewer bytes than the header announced are accepted
              "std::io::Read::read_to_end", "std::io::Read::read_to_string", "std::io::Read::bytes", "std::io::BufRead::read_until",
              "std::io::BufRead::read_line"}
FLOOR_RESULT_CALLS = 200   # counted 277 on the pinned tree
FLOOR_TRY_SITES = 60       # counted 103 on the pinned tree; `?; Ok(())` tails written as tail expressions lower it without removing a check


def count_is_used(b, t):
    """Does anything look at the Ok payload of this call (the number of bytes transferred)?  The payload is followed through `?` /
    match arms, copies and casts; a use is a comparison, arithmetic, an index / range, or passing it to a call."""
    if t["dest"]["p"]:
        return True
    derived = {t["dest"]["l"]}
    grew = True
    while grew:
        grew = False
        for bj, sj, st in b.stmts():
            if st["s"] != "assign" or st["lhs"]["p"] or st["lhs"]["l"] in derived:
                continue
            rv = st["rv"]
            srcs = [operand_place(rv["o"])] if rv["r"] in ("use", "cast") and "o" in rv else []
            if any(q is not None and q["l"] in derived for q in srcs):
                derived.add(st["lhs"]["l"])
                grew = True
        for bj, tj in b.calls():
            if (tj["callee"].get("def") or "") in ("std::ops::Try::branch",) and not tj["dest"]["p"] and tj["dest"]["l"] not in derived:
                q = operand_place(tj["args"][0]) if tj["args"] else None
                if q is not None and q["l"] in derived:
                    derived.add(tj["dest"]["l"])
                    grew = True
    # payload locals: moved out of a derived local through a Continue / Ok downcast
    payload = set()
    for bj, sj, st in b.stmts():
        if st["s"] == "assign" and st["rv"]["r"] in ("use", "cast"):
            q = operand_place(st["rv"]["o"])
            if q is not None and q["l"] in derived and any(isinstance(e, dict) and "down" in e and e.get("name") in ("Continue", "Ok") for e in q["p"]):
                if not st["lhs"]["p"]:
                    payload.add(st["lhs"]["l"])
    grew = True
    while grew:
        grew = False
        for bj, sj, st in b.stmts():
            if st["s"] == "assign" and not st["lhs"]["p"] and st["lhs"]["l"] not in payload and st["rv"]["r"] in ("use", "cast"):
                q = operand_place(st["rv"]["o"])
                if q is not None and not q["p"] and q["l"] in payload:
                    payload.add(st["lhs"]["l"])
                    grew = True
    if not payload:
        return False
    for bj, sj, st in b.stmts():
        if st["s"] != "assign":
            continue
        rv = st["rv"]
        if rv["r"] == "bin":
            for k in ("a", "b"):
                q = operand_place(rv[k])
                if q is not None and q["l"] in payload:
                    return True
        for e in st["lhs"]["p"]:
            if isinstance(e, dict) and e.get("idx") in payload:
                return True
    for bj, tj in b.calls():
        for a in tj["args"]:
            q = operand_place(a)
            if q is not None and q["l"] in payload:
                return True
    for bj in b.reachable():
        tt = b.blocks[bj]["term"]
        if tt["t"] == "switch":
            q = operand_place(tt["discr"])
            if q is not None and q["l"] in payload:
                return True
    return False


def is_io_result(ty):
    return ty.startswith("std::result::Result<") and ty.endswith(", std::io::Error>")


def consumption(b, d, start, depth=0):
    """Is local `d` read on every path from block `start` to a return? A plain move into another local is followed.
    Returns (consumed, [(kind, block, stmt-or-terminator)])."""
    readers = set()
    consumers = []
    ok_moves = True
    for bj, sj, st in b.stmts():
        if d in reads_of_stmt(st):
            is_move = st["s"] == "assign" and st["rv"]["r"] == "use" and not st["lhs"]["p"] and st["lhs"]["l"] != 0 and \
                operand_place(st["rv"]["o"]) is not None and not operand_place(st["rv"]["o"])["p"]
            if is_move and depth < 6:
                c2, cons2 = consumption(b, st["lhs"]["l"], bj, depth + 1)
                consumers.append(("move", bj, st))
                consumers.extend(cons2)
                if c2:
                    readers.add(bj)
                else:
                    ok_moves = False
            else:
                readers.add(bj)
                consumers.append(("stmt", bj, st))
    for bj in sorted(b.reachable()):
        tt = b.blocks[bj]["term"]
        if tt["t"] == "drop":
            continue
        if d in reads_of_term(tt):
            readers.add(bj)
            consumers.append(("term", bj, tt))
    return must_pass_through(b, start, readers) and ok_moves, consumers


def match_propagates(b, d, read_block):
    """`match r { Ok(..) => .., Err(e) => return Err(e) }` written out: the block that reads r's discriminant switches on it, and
    every path from a non-Ok arm to the function's return passes an assignment that moves r (or its Err payload, re-wrapped in
    Err) towards _0."""
    t = b.blocks[read_block]["term"]
    if t["t"] != "switch":
        return False
    arms = [dst for v, dst in t["targets"] if int(v) != 0]
    if t["otherwise"] not in [dst for v, dst in t["targets"]] and 0 in [int(v) for v, _ in t["targets"]]:
        arms.append(t["otherwise"])
    if not arms:
        return False
    carried = {d}
    writers = set()
    region = b.reach_from(arms)
    changed = True
    while changed:
        changed = False
        for bi in sorted(region):
            for st in b.blocks[bi]["stmts"]:
                if st["s"] != "assign" or st["lhs"]["p"]:
                    continue
                rv = st["rv"]
                ops = [rv["o"]] if rv["r"] in ("use", "cast") else (rv["ops"] if rv["r"] == "agg" and rv.get("vname") in ("Err", None) else [])
                for o in ops:
                    q = operand_place(o)
                    if q is not None and q["l"] in carried and st["lhs"]["l"] not in carried:
                        carried.add(st["lhs"]["l"])
                        changed = True
                    if q is not None and q["l"] in carried and st["lhs"]["l"] == 0:
                        writers.add(bi)
    if 0 not in carried:
        return False
    return all(must_pass_through(b, a, writers) for a in arms)


ERROR_DISCARDING = ("ok", "unwrap_or", "unwrap_or_default", "unwrap_or_else", "map_or", "into_iter", "iter", "flat_map", "flatten", "filter_map")


def error_discarding_adaptors(F):
    """Calls that turn an io::Result into a value while dropping the error: `r.ok()`, `r.unwrap_or(..)`, and an io::Result used as
    an iterator (`flat_map(|_| load(reader))`, `flatten()`, `for x in result`) -- an Err yields nothing and is gone.  The pinned
    tree has none; a loader or writer built on one reports success for truncated input / a failed write."""
    out = []
    for b in F.all_bodies():
        if "::tests::" in b.name or b.name.startswith("internal::") or any(k[0] == b.name for k in ALLOWED_DISCARDS):
            continue            # (the two Drop impls discard the error of close() by documented contract, however they spell it)
        for bi, t in b.calls():
            cn = callee_name(t)
            last = cn.split("::")[-1].split("<")[0]
            if last not in ERROR_DISCARDING:
                continue
            ga = t["callee"].get("args") or []
            on_result = cn.startswith("std::result::Result::<") and len(ga) >= 2 and ga[1] == "std::io::Error"
            as_iter = any(("std::result::Result<" in a and a.rstrip(">").endswith("std::io::Error")) or a.endswith(", std::io::Error>") for a in ga) and \
                last in ("into_iter", "iter", "flat_map", "flatten", "filter_map")
            if on_result or as_iter:
                out.append((b.name, "%s on %s" % (last, [a[:60] for a in ga[:2]]), loc(t["sp"])))
    return out


def check(ctx):
    configs = ["native"] if ctx.tier == "quick" else ["native", "portable", "native-rel", "portable-rel"]
    for cfg in configs:
        check_config(ctx, ctx.facts(cfg), "" if cfg == "native" else "@" + cfg)
    if ctx.tier == "thorough":
        import poscontrol
        poscontrol.run(ctx, "C14")


def check_config(ctx, F, tag, views=True):
    from core import Relabel
    if views and not isinstance(ctx, Relabel):
        # (borrowed) "truncated input is reported": a fixed-size value is loaded by reading all of its bytes -- a read of
        # size_of::<u64>() bytes accepts a two-word value cut after its first word (C06.R2)
        import c06
        c06.check_config(Relabel(ctx, {"C06.R2.basic.serializable-load": "C14.R8.fixed-size-load-reads-the-whole-value",
                                       "C06.R2.basic.vec-load": "C14.R8.vector-load-reads-the-whole-body",
                                       # an optional structure is skipped by the word count in its header, which is the value's
                                       # size_in_elements(): a size smaller than what is written lets a file cut inside the
                                       # structure's last words be skipped with Ok
                                       "C06.R2.size-sums-written-items": "C14.R9.skipped-size-is-the-written-size",
                                       "C06.R2.size-constants": "C14.R9.skipped-size-constants"}), F, tag)
        # (borrowed) a file cut inside its last element is refused by the map itself: every view constructor bounds what it reads
        # by map.len(), which counts whole elements only behind this guard (C18.R3)
        import c18
        c18.check_config(Relabel(ctx, {"C18.R3.size-multiple-of-8-guard": "C14.R7.map-refuses-a-partial-element"}), F, tag)
    # a reader is advanced by reading: `seek(Current(n))` past the end of a File or Cursor succeeds, so data skipped by seeking is
    # never checked to be there (zero-count; the pinned tree seeks only its own output files, to the start)
    seeks = []
    for b_ in F.all_bodies():
        if "::tests::" in b_.name or b_.name.startswith("internal::"):
            continue
        for _, t_ in b_.calls():
            if callee_written(t_) == "std::io::Seek::seek" and len(t_["args"]) == 2:
                pos = b_.term_of_operand(t_["args"][1])
                if any(x[0] == "adt" and x[1] == "std::io::SeekFrom" and x[2] in ("Current", "End") for x in subterms(pos)) or \
                        any(x[0] == "call" and "Read" in str(x[3]) for x in [("call", "", (), tuple(t_["callee"].get("args") or []))]) and "Read" in (F.fns.get(b_.name, [{}])[0].get("sig", "")):
                    seeks.append((b_.name, loc(t_["sp"])))
    ctx.ob("C14.R2.no-skip-by-seek", "crate" + tag, "src/", not seeks, "who-may-call",
           "relative seeks (SeekFrom::Current / End) -- skipping input without reading it cannot detect a truncated input (count must be 0): %s" % seeks[:3], nontrivial=False, positive=True)
    eda = error_discarding_adaptors(F)
    ctx.ob("C14.R1.no-error-discarding-adaptor", "crate" + tag, "src/", not eda, "who-may-call",
           "io::Result turned into a value with the error dropped (ok / unwrap_or* / used as an iterator; count must be 0): %s" % eda[:3], nontrivial=False, positive=True)
    if views:
        import c13
        from core import Relabel
        c13.check_config(Relabel(ctx, {"C13.R2.length-formulas-agree": "C14.R5.length-formulas-agree"}), F, tag)
        import c12
        c12.check_config(Relabel(ctx, {"C12.R3.flushed-buffer-cleared": "C14.R6.writer.flushed-buffer-cleared", "C12.R3.overflow-carried-back": "C14.R6.writer.overflow-carried-back",
                                       "C12.R2.": "C14.R6.writer."}), F, tag)
    partial_calls = []
    copy_sites = []
    for b in F.all_bodies():
        where0 = loc(b.raw["span"])
        # ---------- R1 result consumption
        for bi, t in b.calls():
            wname = callee_written(t)
            cname = callee_name(t)
            if wname in PARTIAL_IO or cname in PARTIAL_IO:
                partial_calls.append((b.name, wname, loc(t["sp"]), count_is_used(b, t)))
            if cname == "std::io::copy":
                copy_sites.append((b, bi, t))
            dty = t["dest_ty"]
            if not dty.startswith("std::result::Result<"):
                continue
            ctx.count("result-calls" + tag)
            key = "%s|%s" % (b.name, cname)
            where = loc(t["sp"])
            dest = t["dest"]
            if dest["p"] or dest["l"] == 0:
                ctx.ob("C14.R1.result-consumed", key + tag, where, True, "returned", "result is the return value / stored", nontrivial=False)
                continue
            d = dest["l"]
            if t["target"] is None:
                continue
            consumed, consumers = consumption(b, d, t["target"])
            if not consumed and (b.name, cname) in ALLOWED_DISCARDS:
                ctx.exempt("C14.R1.result-consumed", key, where, ALLOWED_DISCARDS[(b.name, cname)])
                ctx.ob("C14.R1.result-consumed", key + tag, where, True, "reviewed-exception", ALLOWED_DISCARDS[(b.name, cname)])
                ctx.count("allowed-discards" + tag)
                continue
            ctx.ob("C14.R1.result-consumed", key + tag, where, consumed, "must-read-on-every-path",
                   "Result of %s (type %s) is %s" % (cname, dty, "read on every path to return" if consumed else
                                                     "dropped on some path: no read of its destination between the call and a return"))
            if not consumed or not is_io_result(dty):
                continue
            # ---------- R1b io::Result consumed by a propagating form only
            forms = []
            okform = True
            for kind, bj, x in consumers:
                if kind == "term" and x["t"] == "call":
                    cn = callee_written(x)
                    rn = callee_name(x)
                    last = rn.split("::")[-1].split("<")[0]
                    if cn == "std::ops::Try::branch":
                        forms.append("?")
                    elif rn.startswith("std::result::Result::<") and last in ("map_err", "map", "and_then"):
                        forms.append(last)
                    elif rn.startswith("std::result::Result::<") and last in ("unwrap", "expect"):
                        if b.name in ALLOWED_IO_UNWRAP:
                            forms.append("unwrap(documented)")
                            ctx.exempt("C14.R1.io-result-propagated", key, where, ALLOWED_IO_UNWRAP[b.name])
                        else:
                            forms.append("unwrap(UNDOCUMENTED)")
                            okform = False
                    else:
                        forms.append("call " + rn)
                        okform = False
                elif kind == "stmt" and x["s"] == "assign" and x["lhs"]["l"] == 0 and not x["lhs"]["p"] and x["rv"]["r"] == "use":
                    forms.append("return")
                elif kind == "move":
                    forms.append("move")
                elif kind == "stmt" and x["s"] == "assign" and x["rv"]["r"] == "discr" and match_propagates(b, x["rv"]["p"]["l"], bj):
                    forms.append("match(Err arm returns the error)")
                elif kind == "stmt" and x["s"] == "assign" and x["rv"]["r"] == "use" and operand_place(x["rv"]["o"]) is not None and \
                        any(isinstance(e, dict) and "down" in e for e in operand_place(x["rv"]["o"])["p"]):
                    forms.append("payload of a matched arm")     # the arm was selected by a discriminant test, judged above
                elif kind == "stmt" and x["s"] == "assign" and x["rv"]["r"] == "agg" and x["rv"].get("agg") in ("adt", "tuple"):
                    # wrapped (`Some(result)`, a tuple) and handed on: where the wrapper goes is not followed -- undecided, not wrong
                    forms.append("wrapped in %s" % (x["rv"].get("vname") or x["rv"].get("agg")))
                    wrapped = True
                else:
                    forms.append("match/other")
                    okform = False
            # the match was judged: its Err arm carries the error to the return value.  What else reads the matched value inside
            # the arms (the payloads, a drop) is part of that match, not another consumer
            if not okform and "match(Err arm returns the error)" in forms and all(
                    f_ in ("match(Err arm returns the error)", "match/other", "payload of a matched arm", "?", "return", "move") for f_ in forms):
                okform = True
            if okform and forms and locals().get("wrapped"):
                okform = None
            wrapped = False
            # (read on every path, as established above, but through no statement the classifier knows: undecided, not wrong)
            ctx.ob("C14.R1.io-result-propagated", key + tag, where, ((okform and True) if forms else (None if okform else False)) if okform is not None else None, "consumption-form",
                   "io::Result of %s consumed by: %s (allowed: ?, return, map_err, documented unwrap)" % (cname, sorted(set(forms))))

        # ---------- R3 break arms
        oks = ok_blocks(b).get("Ok", [])
        for s in try_sites(b):
            ctx.count("try-sites" + tag)
            key = "%s|try@%s" % (b.name, s["self_ty"])
            good = s["residual_ok"] and s["cont_block"] is not None and s["break_block"] is not None
            detail = "break arm is from_residual into the return place"
            if good and s.get("chain_verified"):
                detail = "break arm carries the error through the enclosing `?` to the return place (walked)"
            elif good:
                reach = b.reach_from([s["break_block"]])
                hit = [x for x in oks if x in reach]
                # blocks reachable from the break arm must not contain any call except from_residual (no side effects that mask the error)
                if hit:
                    good = False
                    detail = "an `_0 = Ok(..)` assignment (bb%s) is reachable from the Break arm" % hit
            else:
                detail = "unrecognised `?` shape: %s" % {k: s[k] for k in ("cont_block", "break_block", "residual_ok")}
            ctx.ob("C14.R3.break-arm-propagates", key + tag, loc(s["sp"]), good, "cfg-shape", detail, nontrivial=False)

    # ---------- R2b buffering writers must be flushed (their Drop swallows the error of the final write)
    nbuf = 0
    for b in F.all_bodies():
        for bi, t in b.calls():
            cn = callee_name(t)
            if cn.startswith("std::io::BufWriter::<") or cn.startswith("std::io::LineWriter::<"):
                if cn.split("::")[-1].split("<")[0] not in ("new", "with_capacity"):
                    continue
                nbuf += 1
                w = t["dest"]["l"] if not t["dest"]["p"] else None
                flushes = []
                for bj, t2 in b.calls():
                    n2 = callee_written(t2)
                    if n2 in ("std::io::Write::flush",) or callee_name(t2).endswith("::into_inner"):
                        r = resolve_ref_local(b, t2["args"][0]) if t2["args"] else None
                        q = operand_place(t2["args"][0]) if t2["args"] else None
                        if w is not None and (r == w or (q is not None and not q["p"] and q["l"] == w)):
                            flushes.append(bj)
                oks = ok_blocks(b).get("Ok", []) or b.return_blocks()
                good = w is not None and bool(flushes) and t["target"] is not None and must_pass_through(b, t["target"], flushes, to_blocks=oks)
                ctx.ob("C14.R2.buffered-writer-flushed", "%s|%s%s" % (b.name, cn.split("::<")[0], tag), loc(t["sp"]), good, "must-pass-through", positive=True, detail=
                       "a buffering writer is created here; every path to a successful return must call flush()/into_inner() on it (its Drop discards the error of the last write): %s" % good)
    ctx.count("buffering-writers" + tag, nbuf)
    # ---------- R2
    # a partial read / write whose count is thrown away accepts a short transfer silently: that is the defect itself (violation);
    # one whose count is looked at (compared, sliced with, looped on) may handle the remainder correctly -- not decided here
    dropped = [p for p in partial_calls if not p[3]]
    ctx.ob("C14.R2.no-partial-io", "crate" + tag, "src/", True if not partial_calls else (False if dropped else None), "who-may-call",
           "calls to partial-I/O primitives: %s; with the returned count never looked at: %s" % ([p[:3] for p in partial_calls], [p[:3] for p in dropped]))
    for b, bi, t in copy_sites:
        key = "%s|std::io::copy" % b.name
        where = loc(t["sp"])
        sites = [s for s in try_sites(b) if s["src_local"] == t["dest"]["l"]]
        if len(sites) != 1 or sites[0]["cont_block"] is None:
            ctx.ob("C14.R2.copy-count-checked", key + tag, where, False, "guard-on-path", "io::copy result is not consumed by `?`; count cannot be traced")
            continue
        s = sites[0]
        payload = s["payload_local"]
        # requested length: the argument of Read::take feeding the reader argument
        want = None
        for x in subterms(b.term_of_operand(t["args"][0])):
            if x[0] == "call" and x[1].endswith("::take") and len(x[2]) == 2:
                want = x[2][1]
        cmp_blocks = []
        mismatch_targets = []
        if payload is not None and want is not None:
            pt = ("var", payload, b.local_name(payload))
            for u, v, f in edge_facts(b):
                if f[0] != "cmp" or f[1] not in ("Eq", "Ne"):
                    continue
                x, y = strip_casts(f[2]), strip_casts(f[3])
                px = b.term_of_local(payload)
                if {1} and ((x == px and y == want) or (y == px and x == want) or
                            (strip_casts(x) == strip_casts(px) and strip_casts(y) == strip_casts(want)) or
                            (strip_casts(y) == strip_casts(px) and strip_casts(x) == strip_casts(want))):
                    cmp_blocks.append(u)
                    if f[1] == "Ne":
                        mismatch_targets.append(v)
        if payload is not None and want is not None and not cmp_blocks:
            # the count may travel before it is compared: through casts, an `Ok(count)` returned by an inlined helper, the
            # caller's `?` on that -- follow the locals it flows into and look for a comparison of one of them with the length
            derived = {payload}
            grew = True
            while grew:
                grew = False
                for bj, sj, stj in b.stmts():
                    if stj["s"] != "assign" or stj["lhs"]["p"] or stj["lhs"]["l"] in derived:
                        continue
                    rvj = stj["rv"]
                    srcs = []
                    if rvj["r"] in ("use", "cast"):
                        srcs = [operand_place(rvj["o"])]
                    elif rvj["r"] == "agg" and rvj.get("vname") in ("Ok", "Some", "Continue"):
                        srcs = [operand_place(o) for o in rvj["ops"]]
                    if any(q is not None and q["l"] in derived for q in srcs):
                        derived.add(stj["lhs"]["l"])
                        grew = True
                for bj, tj in b.calls():
                    if (tj["callee"].get("def") or "") in ("std::ops::Try::branch", "std::ops::Try::from_output") and not tj["dest"]["p"] and tj["dest"]["l"] not in derived:
                        q = operand_place(tj["args"][0]) if tj["args"] else None
                        if q is not None and q["l"] in derived:
                            derived.add(tj["dest"]["l"])
                            grew = True
            for bj, sj, stj in b.stmts():
                if stj["s"] == "assign" and stj["rv"]["r"] == "bin" and stj["rv"]["op"] in ("Eq", "Ne") and not stj["lhs"]["p"]:
                    qa, qb = operand_place(stj["rv"]["a"]), operand_place(stj["rv"]["b"])
                    for q, other in ((qa, stj["rv"]["b"]), (qb, stj["rv"]["a"])):
                        if q is not None and q["l"] in derived and strip_casts(b.term_of_operand(other)) == strip_casts(want):
                            # the switch on this comparison
                            tt = b.blocks[bj]["term"]
                            if tt["t"] == "switch":
                                cmp_blocks.append(bj)
                                ne = stj["rv"]["op"] == "Ne"
                                for v_, d_ in tt["targets"]:
                                    if (int(v_) != 0) == ne:
                                        mismatch_targets.append(d_)
                                if ne == (0 in [int(v_) for v_, _ in tt["targets"]]) and len(tt["targets"]) == 1:
                                    mismatch_targets.append(tt["otherwise"])
        oks = ok_blocks(b).get("Ok", [])
        ok = False
        detail = "the count returned by io::copy is dropped: no comparison with the requested length %s on the path to Ok" % (tstr(want) if want else "?")
        if cmp_blocks:
            every = must_pass_through(b, s["cont_block"], cmp_blocks, to_blocks=oks)
            leak = [x for x in oks if x in b.reach_from(mismatch_targets)]
            ok = every and not leak
            detail = "copied count compared with %s on every path to Ok: %s; Ok reachable from the mismatch edge: %s" % (tstr(want), every, leak)
        # a bounded copy (`take(n)`) whose count is never compared with n is the bad construct itself, wherever it appears
        ctx.ob("C14.R2.copy-count-checked", key + tag, where, ok, "guard-on-path", detail, positive=(want is not None and payload is not None and not cmp_blocks))
        ctx.count("io-copy-sites" + tag)

    if not views:
        return
    # ---------- R4 mapped views
    mapped.check_views(ctx, F, tag, prefix="C14.R4")

    ctx.floor("result-calls" + tag, FLOOR_RESULT_CALLS)
    ctx.floor("try-sites" + tag, FLOOR_TRY_SITES)
    ctx.floor("allowed-discards" + tag, 2)
