"""Integer-width discipline (shared by every claimed property, restricted to the files the property is anchored in).

Every claimed property quantifies over inputs "up to the maximum usize": lengths, positions, ranks, byte counts.  A value of that
kind that is pushed through a narrower integer type on its way is wrong for large inputs and right for everything a test builds.
Three shapes are decided from the MIR casts (all are absent from the pinned tree, so each is a zero-count rule with a positive
control in controls/pos):

  W1  lossy narrowing      `x as u32` (u64/usize -> narrower) where x is not bounded by construction or by a dominating comparison
                           and the narrow value is used for more than a shift / rotate / pow count
  W2  narrow arithmetic    `(a + b) as usize` where the `+ * << -` was computed in a narrower type and then widened
  W3  narrow complement    `!(m) as usize` used as an and-mask (rule C17.R5, reported there)
  W4  advisory quantities  size_hint() / capacity() results reaching anything but a reservation (see advisory_scan)
  W5  shift counts         a shift whose count can reach the bit width (a width <= 64 used as a shift count; see shift_scan)
  W6  lossy adaptors       take_while / map_while on a borrowed iterator that is used again afterwards (see lossy_adaptor_scan)
  W8  new field writers    a function the pinned tree does not have that writes a structure's fields, builds it from parts or calls a
                           private `&mut self` helper: undecided, never a violation (see new_writer_scan)

A cast of a value that is provably small (a width <= 64, a bit offset <= 63, a masked value, a constant) is not reported.
"""
import json
import os

from facts import loc, tstr, subterms, operand_place, callee_name, VERIF

W = {"u8": 8, "u16": 16, "u32": 32, "u64": 64, "usize": 64, "i8": 8, "i16": 16, "i32": 32, "i64": 64, "isize": 64, "u128": 128, "i128": 128}
COUNT_ARG_FNS = ("checked_shl", "checked_shr", "wrapping_shl", "wrapping_shr", "overflowing_shl", "overflowing_shr", "rotate_left", "rotate_right",
                 "pow", "checked_pow", "wrapping_pow", "saturating_pow", "unbounded_shl", "unbounded_shr")
_anchor_cache = {}


# The storage a property's structures are built on, where the property's own anchors do not already name it: the plain bitvector
# keeps its bits (and takes its count of ones) in a RawVector; the sparse and run-length vectors in IntVector / RawVector / BitVector.
# A width defect there (a count accumulated in u32) is a defect of every structure on top.
STORAGE = {"C01": ["src/raw_vector.rs"], "C10": ["src/raw_vector.rs"], "C11": ["src/raw_vector.rs", "src/int_vector.rs"],
           "C16": ["src/raw_vector.rs", "src/int_vector.rs", "src/bit_vector.rs"], "C19": ["src/raw_vector.rs"]}


def anchored_files(prop):
    if not _anchor_cache:
        for l in open(os.path.join(VERIF, "properties.jsonl")):
            p = json.loads(l)
            fs = [f for f in p["anchors"].get("files", []) if f.endswith(".rs")]
            _anchor_cache[p["id"]] = FileSet(fs + [f for f in STORAGE.get(p["id"], []) if f not in fs])
    return _anchor_cache.get(prop, [])


def body_file(b):
    return b.raw["span"].split(":")[0]


class FileSet(list):
    """Anchored files; `src/bit_vector.rs` also covers its submodules `src/bit_vector/*.rs` (the support structures of the plain
    bitvector live there and are part of what the anchor names)."""
    def __contains__(self, f):
        return list.__contains__(self, f) or any(isinstance(f, str) and f.startswith(x[:-3] + "/") for x in self if x.endswith(".rs"))


def uses_of(b, l):
    """How a local is used: list of ('shift-count' | 'count-arg' | 'other', where)."""
    out = []
    for bi, si, st in b.stmts():
        if st["s"] != "assign":
            continue
        rv = st["rv"]
        if rv["r"] == "bin" and rv["op"].startswith(("Shl", "Shr")):
            q = operand_place(rv["b"])
            if q is not None and q["l"] == l:
                out.append(("shift-count", st["sp"]))
                continue
            q = operand_place(rv["a"])
            if q is not None and q["l"] == l:
                out.append(("other", st["sp"]))
            continue
        for key in ("o", "a", "b"):
            if key in rv and isinstance(rv[key], dict):
                q = operand_place(rv[key])
                if q is not None and q["l"] == l:
                    # plain copies are followed
                    if rv["r"] == "use" and not st["lhs"]["p"]:
                        out.extend(uses_of(b, st["lhs"]["l"]) if st["lhs"]["l"] != l else [])
                    else:
                        out.append(("other", st["sp"]))
        for o in rv.get("ops", []) or []:
            q = operand_place(o)
            if q is not None and q["l"] == l:
                out.append(("other", st["sp"]))
    for bi, t in b.calls():
        for i, a in enumerate(t["args"]):
            q = operand_place(a)
            if q is not None and not q["p"] and q["l"] == l:
                last = callee_name(t).split("::")[-1].split("<")[0]
                out.append(("count-arg" if (last in COUNT_ARG_FNS and i == 1) else "other", t["sp"]))
    for bi in sorted(b.reachable()):
        t = b.blocks[bi]["term"]
        if t["t"] == "switch":
            q = operand_place(t["discr"])
            if q is not None and q["l"] == l:
                out.append(("other", t["sp"]))
        if t["t"] == "assert":
            for o in t["ops"]:
                q = operand_place(o)
                if q is not None and q["l"] == l and not t["kind"].startswith("Overflow(Sh"):
                    out.append(("other", t["sp"]))
    return out


SMALL_RESULT_FNS = ("leading_zeros", "trailing_zeros", "count_ones", "count_zeros", "leading_ones", "trailing_ones", "ilog2", "ilog10", "checked_ilog2")


def small_bound(F, b, t, block, depth=0):
    """Upper bound of a term: c08.max_value plus the bit-counting intrinsics (at most the bit width) and closed arithmetic on
    bounded operands."""
    import c08
    from guards import strip_casts
    v = c08.max_value(F, b, t, block)
    if v is not None or depth > 6:
        return v
    t0 = strip_casts(t)
    if t0[0] == "call" and t0[1].split("::")[-1].split("<")[0] in SMALL_RESULT_FNS:
        return 128
    if t0[0] == "bin" and t0[1] in ("Sub", "Div", "Shr", "Rem"):
        return small_bound(F, b, t0[2], block, depth + 1)
    if t0[0] == "bin" and t0[1] in ("Add", "Mul"):
        x, y = small_bound(F, b, t0[2], block, depth + 1), small_bound(F, b, t0[3], block, depth + 1)
        if x is not None and y is not None:
            return x + y if t0[1] == "Add" else x * y
    if t0[0] == "call" and t0[1].split("::")[-1] in ("min",) and len(t0[2]) == 2:
        vals = [small_bound(F, b, a, block, depth + 1) for a in t0[2]]
        vals = [v for v in vals if v is not None]
        return min(vals) if vals else None
    return None


def scan(F, files=None):
    """(lossy narrowing casts, narrow arithmetic widened): lists of (function, description, where)."""
    import c08
    w1, w2 = [], []
    for b in F.all_bodies():
        if "::tests::" in b.name or b.name.startswith("internal::"):
            continue
        if files is not None and body_file(b) not in files:
            continue
        for bi, si, st in b.stmts():
            if st["s"] != "assign" or st["rv"]["r"] != "cast" or st["rv"]["kind"] != "IntToInt" or st["lhs"]["p"]:
                continue
            p = operand_place(st["rv"]["o"])
            if p is None:
                continue
            frm = b.local_ty(p["l"]) if not p["p"] else None
            if frm is None:
                # projected place: take the type recorded on the last field projection
                last = p["p"][-1]
                frm = last.get("ty") if isinstance(last, dict) else None
            to = st["rv"]["ty"]
            if frm not in W or to not in W:
                continue
            t = b.term_of_operand(st["rv"]["o"])
            if W[frm] > W[to]:
                bound = small_bound(F, b, t, bi)
                from guards import strip_casts as _sc
                t_ = _sc(t)
                if bound is None and t_[0] == "bin" and t_[1] == "Shr" and _sc(t_[3])[0] == "const" and isinstance(_sc(t_[3])[1], int) and 0 <= _sc(t_[3])[1] < W[frm]:
                    bound = (1 << (W[frm] - _sc(t_[3])[1])) - 1       # what is left of a W-bit value after a shift down by a constant
                if bound is not None and bound < (1 << W[to]):
                    continue
                # a value split into parts, none dropped: the same function also takes `(x >> w) as ..` of the same x
                from guards import strip_casts
                upper = False
                for _, _, st2 in b.stmts():
                    if st2["s"] == "assign" and st2["rv"]["r"] == "cast" and st2["rv"].get("kind") == "IntToInt":
                        t2 = strip_casts(b.term_of_operand(st2["rv"]["o"]))
                        if t2[0] == "bin" and t2[1] == "Shr" and strip_casts(t2[2]) == strip_casts(t) and strip_casts(t2[3])[:2] == ("const", W[to]):
                            upper = True
                if upper:
                    continue
                us = uses_of(b, st["lhs"]["l"])
                if us and all(k in ("shift-count", "count-arg") for k, _ in us):
                    continue
                w1.append((b.name, "%s -> %s of %s" % (frm, to, tstr(t)[:60]), loc(st["sp"])))
            elif W[frm] < W[to]:
                inner = t
                while isinstance(inner, tuple) and inner and inner[0] == "cast":
                    inner = inner[1]
                if isinstance(inner, tuple) and inner and inner[0] == "call" and inner[1].split("::")[-1].split("<")[0] in ("sum", "product") and \
                        "Iterator" in inner[1] and not any(isinstance(x, tuple) and x and x[0] == "array" for x in subterms(inner)):
                    # an accumulation over an iterator of unknown length carried out in the narrow type: `.sum::<u32>() as usize`
                    w2.append((b.name, "%s computed in %s then widened to %s: %s" % (inner[1].split("::")[-1], frm, to, tstr(inner)[:60]), loc(st["sp"])))
                    continue
                if isinstance(inner, tuple) and inner and inner[0] == "bin" and inner[1] in ("Add", "Mul", "Shl", "Sub"):
                    tot = small_bound(F, b, inner, bi)
                    if tot is not None and tot < (1 << W[frm]):
                        continue        # the whole expression fits the narrower type: widening afterwards changes nothing
                    w2.append((b.name, "%s(..) computed in %s then widened to %s: %s" % (inner[1], frm, to, tstr(inner)[:60]), loc(st["sp"])))
    return w1, w2


def check(ctx, prop):
    files = anchored_files(prop)
    if not files:
        return
    F = ctx.facts("native")
    w1, w2 = scan(F, files)
    ctx.ob("%s.W1.no-lossy-narrowing" % prop, "anchored-files", ", ".join(files)[:80], not w1, "cast-dataflow",
           "integer casts to a narrower type of values not bounded by construction, in the files this property is anchored in (count must be 0): %s" % w1[:4],
           nontrivial=False)
    ctx.ob("%s.W2.no-narrow-arithmetic-widened" % prop, "anchored-files", ", ".join(files)[:80], not w2, "cast-dataflow",
           "arithmetic computed in a narrower integer type and widened afterwards (count must be 0): %s" % w2[:4], nontrivial=False)
    w5, rev = shift_scan(F, files)
    for fn, kind, where in rev:
        ctx.exempt("%s.W5.shift-count-below-bit-width" % prop, fn + "|" + kind, where,
                   SHIFT_REVIEWED.get((fn, kind)) or SHIFT_REVIEWED[("sparse_vector::SparseVector::split", "Overflow(Shr)")])
    ctx.ob("%s.W5.shift-count-below-bit-width" % prop, "anchored-files", ", ".join(files)[:80], not w5, "bounded-source/guard",
           "shifts whose count is bounded by construction by a value that reaches the bit width of the shifted type (a width <= 64 used as a "
           "shift count), with no dominating comparison excluding it (count must be 0): %s" % w5[:4], nontrivial=False, positive=True)
    w6 = lossy_adaptor_scan(F, files)
    bad6 = [h for h in w6 if h[3] is True]
    und6 = [h for h in w6 if h[3] is None]
    ctx.ob("%s.W6.no-take-while-on-a-borrowed-iterator" % prop, "anchored-files", ", ".join(files)[:80], False if bad6 else (None if und6 else True), "adaptor-dataflow",
           "take_while / map_while on `&mut iterator` with the iterator used again afterwards (count must be 0): %s" % [h[:3] for h in (bad6 or und6)][:3],
           nontrivial=False, positive=bool(bad6))
    for fn, what, where in new_writer_scan(F, files):
        ctx.ob("%s.W8.new-function-writes-structure-fields" % prop, fn, where, None, "who-may-write",
               "a function the pinned tree does not have %s: whether the invariants the rules rely on are maintained is not established" % "; ".join(what), nontrivial=False)
    w4 = advisory_scan(F, files)
    ctx.ob("%s.W4.advisory-quantities-only-reserve" % prop, "anchored-files", ", ".join(files)[:80], not w4, "taint-dataflow",
           "size_hint() / capacity() results reaching anything but a reservation -- a length, a stored field, a return value or a branch "
           "(count must be 0; accepted sinks: %s): %s" % (sorted(ADVISORY_SINKS_OK), w4[:4]), nontrivial=False, positive=True)


# ------------------------------------------------------------------------------------------------ W4 advisory quantities
#
# `Iterator::size_hint` and `Vec::capacity` (and the crate's own `capacity()` getters over it) are advisory: the first is a bound
# the iterator may miss, the second depends on the allocator and on the history of the vector, not on its content.  The only
# thing the pinned tree does with either is reserve memory.  A length, a stored field, a returned value or a branch that depends
# on one makes the structure a function of something other than the bit sequence it was built from -- right in every test
# (tests build from exact-size iterators and fresh vectors) and wrong in general.  Zero-count rule, positive identification.

ADVISORY_SOURCES = ("size_hint", "capacity")
ADVISORY_EXEMPT_FNS = ("capacity", "size_hint", "reserve", "reserve_exact", "with_capacity", "try_reserve", "shrink_to_fit")
ADVISORY_SINKS_OK = {
    "with_capacity": "reserves", "reserve": "reserves", "reserve_exact": "reserves", "try_reserve": "reserves",
    "multiset": "SparseVector::try_from_iter: the iterator is bound by ExactSizeIterator, and the builder refuses to finish unless exactly that many values arrive",
    "new": "same (SparseBuilder::new)",
}
ADVISORY_PURE = ("min", "max", "bit_len", "bits_to_words", "words_to_bits", "bytes_to_words", "words_to_bytes", "from", "into", "try_from", "try_into",
                 "unwrap", "unwrap_or", "unwrap_or_default", "expect", "next_power_of_two", "div_ceil", "pow", "add", "sub", "mul", "div", "rem",
                 "clone", "branch", "from_residual", "ok", "map", "and_then", "unwrap_or_else")


def _rv_locals(rv):
    out = []
    for key in ("o", "a", "b"):
        if key in rv and isinstance(rv[key], dict):
            q = operand_place(rv[key])
            if q is not None:
                out.append(q["l"])
    for o in rv.get("ops", []) or []:
        q = operand_place(o)
        if q is not None:
            out.append(q["l"])
    if "p" in rv and isinstance(rv["p"], dict) and "l" in rv["p"]:
        out.append(rv["p"]["l"])
    return out


def _last(name):
    n = name
    # strip generic arguments, then take the last path segment
    depth, cut = 0, []
    for ch in n:
        if ch == "<":
            depth += 1
        elif ch == ">":
            depth -= 1
        elif depth == 0:
            cut.append(ch)
    return "".join(cut).split("::")[-1]


def is_advisory_source(cname):
    last = _last(cname)
    if last == "size_hint":
        return True
    return last == "capacity" and "SparseBuilder" not in cname


def advisory_scan(F, files=None):
    """Uses of an advisory quantity other than reserving memory: list of (function, what, where)."""
    out = []
    for b in F.all_bodies():
        if "::tests::" in b.name or b.name.startswith("internal::"):
            continue
        if files is not None and body_file(b) not in files:
            continue
        own = _last(b.name.split("::{closure")[0])
        if own in ADVISORY_EXEMPT_FNS:
            continue
        srcs = [(bi, t) for bi, t in b.calls() if is_advisory_source(callee_name(t))]
        if not srcs:
            continue
        tainted = {}
        for bi, t in srcs:
            tainted[t["dest"]["l"]] = "%s at %s" % (_last(callee_name(t)), loc(t["sp"]))
        changed = True
        while changed:
            changed = False
            for bi, si, st in b.stmts():
                if st["s"] != "assign" or (st["lhs"]["p"] and st["lhs"]["p"][0] == "deref"):
                    continue
                hit = [l for l in _rv_locals(st["rv"]) if l in tainted]
                if hit and st["lhs"]["l"] not in tainted:
                    tainted[st["lhs"]["l"]] = tainted[hit[0]]
                    changed = True
            for bi, t in b.calls():
                hit = [operand_place(a)["l"] for a in t["args"] if operand_place(a) is not None and operand_place(a)["l"] in tainted]
                if hit and _last(callee_name(t)) in ADVISORY_PURE and t["dest"]["l"] not in tainted and not (t["dest"]["p"] and t["dest"]["p"][0] == "deref"):
                    tainted[t["dest"]["l"]] = tainted[hit[0]]
                    changed = True
        # uses
        for bi, si, st in b.stmts():
            if st["s"] == "assign" and st["lhs"]["p"] and st["lhs"]["p"][0] == "deref":
                hit = [l for l in _rv_locals(st["rv"]) if l in tainted]
                if hit:
                    out.append((b.name, "stored through a reference (%s)" % tainted[hit[0]], loc(st["sp"])))
        for bi, t in b.calls():
            hit = [operand_place(a)["l"] for a in t["args"] if operand_place(a) is not None and operand_place(a)["l"] in tainted]
            if not hit:
                continue
            last = _last(callee_name(t))
            if last in ADVISORY_PURE or last in ADVISORY_SINKS_OK or is_advisory_source(callee_name(t)):
                continue
            out.append((b.name, "passed to %s (%s)" % (callee_name(t)[-60:], tainted[hit[0]]), loc(t["sp"])))
        for bi in sorted(b.reachable()):
            t = b.blocks[bi]["term"]
            if t["t"] == "switch":
                q = operand_place(t["discr"])
                if q is not None and q["l"] in tainted:
                    out.append((b.name, "decides a branch (%s)" % tainted[q["l"]], loc(t["sp"])))
        if 0 in tainted:
            out.append((b.name, "returned (%s)" % tainted[0], b.raw["span"]))
    return out


# ------------------------------------------------------------------------------------------------ W5 shift counts
#
# A width in this crate ranges over 1..=64 and a bit offset over 0..=63.  `x << width` is therefore one value away from a shift by
# the whole word (a panic in a debug build, a shift by zero in a release build): the pinned tree never shifts by a width, it
# indexes the mask table (`bits::low_set`) or shifts by a difference the surrounding branch keeps below 64.  Reported: a shift
# whose count has a known upper bound that reaches the bit width of the shifted type, with no dominating comparison excluding it.

SHIFT_REVIEWED = {
    ("sparse_vector::SparseVector::split", "Overflow(Shr)"):
        "shift by low.width(): the low width of a sparse vector is round(log2(universe * ln 2 / ones)) <= 63 for universe < 2^64 (SparseBuilder::get_params; floating point, outside this analysis)",
    ("sparse_vector::SparseVector::combine", "Overflow(Shl)"): "same low width <= 63",
}


def shift_scan(F, files=None):
    import c08
    from guards import facts_at, fact_at_most, strip_casts, _c
    out, reviewed = [], []
    if id(F) not in c08._width_cache:
        from poscontrol import Scratch
        c08.check_width_fields(Scratch(), F, "")         # (fills the cache max_value consults for `width()` getters)
    for b in F.all_bodies():
        if "::tests::" in b.name or b.name.startswith("internal::"):
            continue
        if files is not None and body_file(b) not in files:
            continue
        for bi in sorted(b.reachable()):
            t = b.blocks[bi]["term"]
            if t["t"] != "assert" or not t["kind"].startswith("Overflow(Sh") or t["exp"]:
                continue
            ops = [b.term_of_operand(o) for o in t["ops"]]
            if len(ops) != 2:
                continue
            q = operand_place(t["ops"][0])
            ty = b.local_ty(q["l"]) if q is not None and not q["p"] else None
            width = W.get(ty, 64)
            cnt = ops[1]
            mv = c08.max_value(F, b, cnt, bi)
            if mv is None or mv < width:
                continue
            fs = facts_at(b, bi)
            if fact_at_most(fs, cnt, width - 1):
                continue
            c0 = _c(cnt)
            excluded = set()
            for f in fs:
                if f[0] == "cmp" and f[1] == "Ne":
                    x, y = _c(f[2]), _c(f[3])
                    if x == c0 and y[0] == "const" and isinstance(y[1], int):
                        excluded.add(y[1])
                    if y == c0 and x[0] == "const" and isinstance(x[1], int):
                        excluded.add(x[1])
            if all(v in excluded for v in range(width, mv + 1)) and mv - width < 8:
                continue
            # the reviewed reason is about the *count* (the low width of a sparse vector), wherever the shift is written: split /
            # combine on the pinned tree, or the function they were inlined into
            if body_file(b) == "src/sparse_vector.rs" and "width" in tstr(cnt) and "low" in tstr(cnt) and t["kind"] in ("Overflow(Shr)", "Overflow(Shl)"):
                reviewed.append((b.name, t["kind"], loc(t["sp"])))
                continue
            out.append((b.name, "%s by %s (at most %d, type %s)" % (t["kind"], tstr(cnt)[:60], mv, ty or "?"), loc(t["sp"])))
    return out, reviewed


# ------------------------------------------------------------------------------------------------ W6 take_while on a borrowed iterator
#
# `iter.by_ref().take_while(p)` (and `map_while`) takes the first item that fails `p` out of `iter` and drops it.  Used to split
# one cursor into consecutive groups -- the superblocks of a select structure, the runs of a block -- it loses the first item of
# every group but the first.  The pinned tree has no such call (it counts, or peeks).  Reported when the underlying iterator is
# used again after the adaptor was consumed (otherwise the lost item is nobody's).

LOSSY_ADAPTORS = ("take_while", "map_while")


def lossy_adaptor_scan(F, files=None):
    from facts import resolve_ref_local, reads_of_stmt, reads_of_term
    out = []
    for b in F.all_bodies():
        if "::tests::" in b.name or b.name.startswith("internal::"):
            continue
        if files is not None and body_file(b) not in files:
            continue
        for bi, t in b.calls():
            cn = callee_name(t)
            if not (cn.startswith("std::iter::Iterator::") and _last(cn) in LOSSY_ADAPTORS):
                continue
            selfty = (t["callee"].get("args") or [""])[0]
            if "&mut " not in selfty:
                continue
            # the iterator behind the borrow: follow reborrows, copies and adaptor calls (by_ref, take, skip, ..) back to `&mut local`
            root = None
            p = operand_place(t["args"][0])
            cur = p["l"] if p is not None and not p["p"] else None
            for _ in range(12):
                if cur is None:
                    break
                ds = b.defs().get(cur, [])
                if len(ds) != 1:
                    break
                kind, payload = ds[0][2], ds[0][3]
                if kind == "assign" and payload["r"] in ("ref", "rawptr"):
                    q = payload["p"]
                    if not q["p"]:
                        root = q["l"]
                        break
                    cur = q["l"] if q["p"] == ["deref"] else None
                elif kind == "assign" and payload["r"] == "use":
                    q = operand_place(payload["o"])
                    cur = q["l"] if q is not None and not q["p"] else None
                elif kind == "call" and payload["args"]:
                    q = operand_place(payload["args"][0])
                    cur = q["l"] if q is not None and not q["p"] else None
                else:
                    break
            if root is None:
                out.append((b.name, "%s on %s (underlying iterator not identified)" % (_last(cn), selfty[:50]), loc(t["sp"]), None))
                continue
            after = b.reach_from(b.succ(bi))
            used = False
            for abi in after:
                blk = b.blocks[abi]
                for st in blk["stmts"]:
                    if st["s"] == "assign" and root in _rv_locals(st["rv"]):
                        used = True
                tt = blk["term"]
                if tt["t"] == "call" and any(operand_place(a) is not None and operand_place(a)["l"] == root for a in tt["args"]):
                    used = True
            out.append((b.name, "%s on %s, and `%s` is used again afterwards: the first item that fails the predicate is lost" % (_last(cn), selfty[:50], b.local_name(root) or "_%d" % root),
                        loc(t["sp"]), True) if used else (b.name, "%s on a borrowed iterator that is not used again" % _last(cn), loc(t["sp"]), False))
    return out


# ------------------------------------------------------------------------------------------------ W8 new writers of the structures' fields
#
# Every rule about a structure's invariants (unused bits zero, word count = bits_to_words(len), cached counts, widths, supports
# that are functions of the data, the writers' counters, the map's pointer / length pair) was established by reading the functions
# that write its fields on the pinned tree.  A function the pinned tree does not have -- a new `truncate`, `append`, `from_parts`,
# `sync`, `reopen` -- that stores to those fields, mutates them through `&mut self.field`, builds the structure from parts, or
# calls one of the type's private `&mut self` helpers (whose preconditions its callers were read for) is outside that reading.
# Composed only of the type's existing public methods it inherits their guarantees; otherwise whether it maintains the
# invariants is *not established*: the run is undecided and names the function and what it writes.  (Never a violation: a
# correct addition looks the same.)

def new_writer_scan(F, files=None):
    import inline
    from effects import rooted_mut_refs, store_path
    base = inline.baseline()
    if base is None:
        return []
    crate_adts = {a["def"] for a in F.data.get("adts", [])} if isinstance(F.data.get("adts"), list) else set(getattr(F, "adts", {}) or {})
    out = []
    for b in F.all_bodies():
        name = b.name
        if name in base or "{closure" in name or "{constant" in name or "::tests::" in name or name.startswith("internal::"):
            continue
        if files is not None and body_file(b) not in files:
            continue
        what = []
        f = (F.fns.get(name) or [{}])[0]
        self_ty = f.get("impl_self")
        # (a) direct stores through a reference parameter, (b) mutating calls on a field of it
        for i in range(1, b.nargs + 1):
            if not b.local_ty(i).startswith("&mut"):
                continue
            holders = rooted_mut_refs(b, i, by_ref=True)
            for bi, si, st in b.stmts():
                if st["s"] == "assign" and st["lhs"]["p"] and st["lhs"]["p"][0] == "deref" and st["lhs"]["l"] in holders:
                    sp_ = [(a, n) for a, n in store_path(st["lhs"]) if a and not a.startswith("std::")]
                    if sp_:
                        what.append("stores %s.%s" % (sp_[-1][0].split("::")[-1], sp_[-1][1]))
            for bi, t in b.calls():
                if not t["args"]:
                    continue
                q = operand_place(t["args"][0])
                if q is None or q["p"] or q["l"] not in holders or not b.local_ty(q["l"]).startswith("&mut"):
                    continue
                cn = callee_name(t)
                if q["l"] == i or not any(x[0] == "field" for x in subterms(b.term_of_operand(t["args"][0]))):
                    # the parameter itself handed on: fine when that is one of the type's existing public methods (composition of
                    # checked building blocks); anything else writes through the reference in a way nobody has read
                    cf = (F.fns.get(cn) or [{}])[0]
                    if cn in base and cf.get("vis", "pub") == "pub":
                        continue
                    if cn.startswith(("std::", "core::", "alloc::", "<")) and _last(cn) in ("index_mut", "deref_mut", "as_mut", "as_mut_slice", "swap", "replace", "take", "borrow_mut"):
                        what.append("writes through its `&mut` parameter (%s)" % _last(cn))
                    continue
                tt = b.term_of_operand(t["args"][0])
                fields = [x[2] for x in subterms(tt) if x[0] == "field" and isinstance(x[2], str) and not x[2].isdigit()]
                if fields:
                    what.append("mutates .%s through %s" % (fields[0], _last(cn)))
        # (e) patches a field of a structure it holds by value (`let mut r = self.clone(); r.len = n;`)
        for bi, si, st in b.stmts():
            if st["s"] == "assign" and st["lhs"]["p"] and st["lhs"]["p"][0] != "deref" and st["lhs"]["l"] > b.nargs:
                e0 = st["lhs"]["p"][0]
                if isinstance(e0, dict) and e0.get("adt") and not str(e0["adt"]).startswith(("std::", "core::", "alloc::")) and e0.get("name") and \
                        "Iter" not in str(e0["adt"]).split("::")[-1] and not str(e0["adt"]).endswith("Pos"):
                    what.append("patches %s.%s of a value it holds" % (str(e0["adt"]).split("::")[-1], e0["name"]))
        # (c) builds a structure of the crate from parts
        for bi, si, st in b.stmts():
            if st["s"] == "assign" and st["rv"]["r"] == "agg" and st["rv"].get("agg") == "adt":
                d = st["rv"].get("def", "")
                if d and not d.startswith(("std::", "core::", "alloc::")) and "::" in d and st["rv"].get("fields") and not d.endswith(("Iter", "Pos", "Parts")) \
                        and "Iter" not in d.split("::")[-1]:
                    what.append("builds %s{..}" % d.split("::")[-1])
        # (d) calls a private `&mut self` helper of its own type
        for bi, t in b.calls():
            cn = callee_name(t)
            cf = (F.fns.get(cn) or [{}])[0]
            if cf and cf.get("vis", "pub") != "pub" and cf.get("impl_self") and cf.get("impl_self") == self_ty and cf.get("sig", "").find("&'a mut") >= 0 or \
                    (cf and cf.get("vis", "pub") != "pub" and cf.get("impl_self") == self_ty and "&mut" in cf.get("sig", "")):
                what.append("calls the private helper %s" % _last(cn))
        if what:
            out.append((name, sorted(set(what))[:5], b.raw["span"].split(":")[0] + ":" + b.raw["span"].split(":")[1]))
    return out
