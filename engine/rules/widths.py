"""Integer-width discipline (shared by every claimed property, restricted to the files the property is anchored in).

Every claimed property quantifies over inputs "up to the maximum usize": lengths, positions, ranks, byte counts.  A value of that
kind that is pushed through a narrower integer type on its way is wrong for large inputs and right for everything a test builds.
Three shapes are decided from the MIR casts (all are absent from the pinned tree, so each is a zero-count rule with a positive
control in controls/pos):

  W1  lossy narrowing      `x as u32` (u64/usize -> narrower) where x is not bounded by construction or by a dominating comparison
                           and the narrow value is used for more than a shift / rotate / pow count
  W2  narrow arithmetic    `(a + b) as usize` where the `+ * << -` was computed in a narrower type and then widened
  W3  narrow complement    `!(m) as usize` used as an and-mask (rule C17.R5, reported there)

A cast of a value that is provably small (a width <= 64, a bit offset <= 63, a masked value, a constant) is not reported.
"""
import json
import os

from facts import loc, tstr, subterms, operand_place, callee_name, VERIF

W = {"u8": 8, "u16": 16, "u32": 32, "u64": 64, "usize": 64, "i8": 8, "i16": 16, "i32": 32, "i64": 64, "isize": 64, "u128": 128, "i128": 128}
COUNT_ARG_FNS = ("checked_shl", "checked_shr", "wrapping_shl", "wrapping_shr", "overflowing_shl", "overflowing_shr", "rotate_left", "rotate_right",
                 "pow", "checked_pow", "wrapping_pow", "saturating_pow", "unbounded_shl", "unbounded_shr")
_anchor_cache = {}


def anchored_files(prop):
    if not _anchor_cache:
        for l in open(os.path.join(VERIF, "properties.jsonl")):
            p = json.loads(l)
            _anchor_cache[p["id"]] = [f for f in p["anchors"].get("files", []) if f.endswith(".rs")]
    return _anchor_cache.get(prop, [])


def body_file(b):
    return b.raw["span"].split(":")[0]


def uses_of(b, l):
    """How a local is used: list of ('shift-count' | 'count-arg' | 'other', where)."""
    out = []
    for bi, si, st in b.stmts():
        if st["s"] != "assign":
            continue
        rv = st["rv"]
        if rv["r"] == "bin" and rv["op"].startswith(("Shl", "Shr")):
            q = operand_place(rv["b"])
            if q is not None and q["l"] == l:
                out.append(("shift-count", st["sp"]))
                continue
            q = operand_place(rv["a"])
            if q is not None and q["l"] == l:
                out.append(("other", st["sp"]))
            continue
        for key in ("o", "a", "b"):
            if key in rv and isinstance(rv[key], dict):
                q = operand_place(rv[key])
                if q is not None and q["l"] == l:
                    # plain copies are followed
                    if rv["r"] == "use" and not st["lhs"]["p"]:
                        out.extend(uses_of(b, st["lhs"]["l"]) if st["lhs"]["l"] != l else [])
                    else:
                        out.append(("other", st["sp"]))
        for o in rv.get("ops", []) or []:
            q = operand_place(o)
            if q is not None and q["l"] == l:
                out.append(("other", st["sp"]))
    for bi, t in b.calls():
        for i, a in enumerate(t["args"]):
            q = operand_place(a)
            if q is not None and not q["p"] and q["l"] == l:
                last = callee_name(t).split("::")[-1].split("<")[0]
                out.append(("count-arg" if (last in COUNT_ARG_FNS and i == 1) else "other", t["sp"]))
    for bi in sorted(b.reachable()):
        t = b.blocks[bi]["term"]
        if t["t"] == "switch":
            q = operand_place(t["discr"])
            if q is not None and q["l"] == l:
                out.append(("other", t["sp"]))
        if t["t"] == "assert":
            for o in t["ops"]:
                q = operand_place(o)
                if q is not None and q["l"] == l and not t["kind"].startswith("Overflow(Sh"):
                    out.append(("other", t["sp"]))
    return out


SMALL_RESULT_FNS = ("leading_zeros", "trailing_zeros", "count_ones", "count_zeros", "leading_ones", "trailing_ones", "ilog2", "ilog10", "checked_ilog2")


def small_bound(F, b, t, block, depth=0):
    """Upper bound of a term: c08.max_value plus the bit-counting intrinsics (at most the bit width) and closed arithmetic on
    bounded operands."""
    import c08
    from guards import strip_casts
    v = c08.max_value(F, b, t, block)
    if v is not None or depth > 6:
        return v
    t0 = strip_casts(t)
    if t0[0] == "call" and t0[1].split("::")[-1].split("<")[0] in SMALL_RESULT_FNS:
        return 128
    if t0[0] == "bin" and t0[1] in ("Sub", "Div", "Shr", "Rem"):
        return small_bound(F, b, t0[2], block, depth + 1)
    if t0[0] == "bin" and t0[1] in ("Add", "Mul"):
        x, y = small_bound(F, b, t0[2], block, depth + 1), small_bound(F, b, t0[3], block, depth + 1)
        if x is not None and y is not None:
            return x + y if t0[1] == "Add" else x * y
    if t0[0] == "call" and t0[1].split("::")[-1] in ("min",) and len(t0[2]) == 2:
        vals = [small_bound(F, b, a, block, depth + 1) for a in t0[2]]
        vals = [v for v in vals if v is not None]
        return min(vals) if vals else None
    return None


def scan(F, files=None):
    """(lossy narrowing casts, narrow arithmetic widened): lists of (function, description, where)."""
    import c08
    w1, w2 = [], []
    for b in F.all_bodies():
        if "::tests::" in b.name or b.name.startswith("internal::"):
            continue
        if files is not None and body_file(b) not in files:
            continue
        for bi, si, st in b.stmts():
            if st["s"] != "assign" or st["rv"]["r"] != "cast" or st["rv"]["kind"] != "IntToInt" or st["lhs"]["p"]:
                continue
            p = operand_place(st["rv"]["o"])
            if p is None:
                continue
            frm = b.local_ty(p["l"]) if not p["p"] else None
            if frm is None:
                # projected place: take the type recorded on the last field projection
                last = p["p"][-1]
                frm = last.get("ty") if isinstance(last, dict) else None
            to = st["rv"]["ty"]
            if frm not in W or to not in W:
                continue
            t = b.term_of_operand(st["rv"]["o"])
            if W[frm] > W[to]:
                bound = small_bound(F, b, t, bi)
                if bound is not None and bound < (1 << W[to]):
                    continue
                us = uses_of(b, st["lhs"]["l"])
                if us and all(k in ("shift-count", "count-arg") for k, _ in us):
                    continue
                w1.append((b.name, "%s -> %s of %s" % (frm, to, tstr(t)[:60]), loc(st["sp"])))
            elif W[frm] < W[to]:
                inner = t
                while isinstance(inner, tuple) and inner and inner[0] == "cast":
                    inner = inner[1]
                if isinstance(inner, tuple) and inner and inner[0] == "bin" and inner[1] in ("Add", "Mul", "Shl", "Sub"):
                    tot = small_bound(F, b, inner, bi)
                    if tot is not None and tot < (1 << W[frm]):
                        continue        # the whole expression fits the narrower type: widening afterwards changes nothing
                    w2.append((b.name, "%s(..) computed in %s then widened to %s: %s" % (inner[1], frm, to, tstr(inner)[:60]), loc(st["sp"])))
    return w1, w2


def check(ctx, prop):
    files = anchored_files(prop)
    if not files:
        return
    F = ctx.facts("native")
    w1, w2 = scan(F, files)
    ctx.ob("%s.W1.no-lossy-narrowing" % prop, "anchored-files", ", ".join(files)[:80], not w1, "cast-dataflow",
           "integer casts to a narrower type of values not bounded by construction, in the files this property is anchored in (count must be 0): %s" % w1[:4],
           nontrivial=False)
    ctx.ob("%s.W2.no-narrow-arithmetic-widened" % prop, "anchored-files", ", ".join(files)[:80], not w2, "cast-dataflow",
           "arithmetic computed in a narrower integer type and widened afterwards (count must be 0): %s" % w2[:4], nontrivial=False)
