"""A2 -- guard facts by dominance, A5 -- must-pass-through, plus small CFG queries shared by rules."""
import os
from facts import subterms, tstr, callee_name

NEG = {"Eq": "Ne", "Ne": "Eq", "Lt": "Ge", "Ge": "Lt", "Gt": "Le", "Le": "Gt"}
SWAP = {"Eq": "Eq", "Ne": "Ne", "Lt": "Gt", "Gt": "Lt", "Le": "Ge", "Ge": "Le"}


def strip_casts(t):
    while isinstance(t, tuple) and t and t[0] == "cast":
        t = t[1]
    return t


def edge_facts(b):
    """List of (src_block, dst_block, fact). fact = ('cmp', op, a, b) | ('bool', term, truth) | ('discr', term, value|('not', [values]))."""
    out = []
    for bi in sorted(b.reachable()):
        t = b.blocks[bi]["term"]
        if t["t"] != "switch":
            continue
        cond = b.term_of_operand(t["discr"])
        ty = t["discr_ty"]
        targets = [(int(v) if not isinstance(v, int) else v, d) for v, d in t["targets"]]
        other = t["otherwise"]
        if ty == "bool":
            for v, d in targets:
                for f in bool_facts(cond, v != 0):
                    out.append((bi, d, f))
            vals = [v for v, _ in targets]
            if len(vals) == 1 and other not in [d for _, d in targets]:
                for f in bool_facts(cond, vals[0] == 0):
                    out.append((bi, other, f))
        else:
            for v, d in targets:
                out.append((bi, d, ("discr", cond, v)))
            if other not in [d for _, d in targets]:
                out.append((bi, other, ("discr", cond, ("not", tuple(v for v, _ in targets)))))
                # `if let Err(e) = r { .. }`: one variant of a two-variant enum (Option, Result) is named, the fall-through edge is
                # the other one
                c1 = strip_casts(cond)
                if len(targets) == 1 and targets[0][0] in (0, 1) and isinstance(c1, tuple) and c1 and c1[0] == "discr":
                    ty_ = None
                    src_ = c1[1]
                    while isinstance(src_, tuple) and src_ and src_[0] in ("ref", "deref", "cast"):
                        src_ = src_[1]
                    if isinstance(src_, tuple) and src_ and src_[0] == "var":
                        ty_ = b.local_ty(src_[1])
                    elif isinstance(src_, tuple) and src_ and src_[0] == "call" and len(src_) > 3 and src_[3]:
                        ty_ = None
                        for (cbi, ct) in b.calls():
                            pass
                    if isinstance(ty_, str) and ty_.startswith(("std::option::Option<", "std::result::Result<", "core::option::Option<", "core::result::Result<")):
                        out.append((bi, other, ("discr", cond, 1 - targets[0][0])))
            # a `match` on an integer itself (`match n { 0 => .., _ => .. }`) is a comparison with the literal
            c0 = strip_casts(cond)
            if not (isinstance(c0, tuple) and c0 and c0[0] == "discr"):
                for v, d in targets:
                    out.append((bi, d, ("cmp", "Eq", cond, ("const", v))))
                if len(targets) == 1 and other != targets[0][1]:
                    out.append((bi, other, ("cmp", "Ne", cond, ("const", targets[0][0]))))
    return out


def bool_facts(cond, truth):
    """Facts implied by boolean term `cond` having value `truth`."""
    cond = strip_casts(cond)
    out = [("bool", cond, truth)]
    if cond[0] == "bin" and cond[1] in NEG:
        op = cond[1] if truth else NEG[cond[1]]
        out.append(("cmp", op, cond[2], cond[3]))
    elif cond[0] == "un" and cond[1] == "Not":
        out.extend(bool_facts(cond[2], not truth))
    elif cond[0] == "call" and len(cond[2]) == 1 and cond[1].split("::")[-1] in VARIANT_TESTS and \
            cond[1].startswith(("std::option::Option::<", "std::result::Result::<")):
        # `x.is_some()` and friends are tests of the discriminant
        v = VARIANT_TESTS[cond[1].split("::")[-1]]
        x = cond[2][0]
        while isinstance(x, tuple) and x and x[0] in ("ref", "deref"):
            x = x[1]
        out.append(("discr", ("discr", x), v if truth else 1 - v))
    return out


VARIANT_TESTS = {"is_some": 1, "is_none": 0, "is_ok": 0, "is_err": 1}


def linear(t, sign=1, out=None):
    """A term as a linear combination {leaf term: coefficient, (): constant} over Add / Sub (unsigned arithmetic read as integers:
    valid for comparing two guards that are both evaluated without overflow)."""
    if out is None:
        out = {}
    t = strip_casts(t)
    if isinstance(t, tuple) and t and t[0] == "bin" and t[1] in ("Add", "Sub"):
        linear(t[2], sign, out)
        linear(t[3], sign if t[1] == "Add" else -sign, out)
    elif isinstance(t, tuple) and t and t[0] == "const" and isinstance(t[1], int):
        out[()] = out.get((), 0) + sign * t[1]
    else:
        key = t[:2] if isinstance(t, tuple) and t and t[0] == "param" else t
        out[key] = out.get(key, 0) + sign
    return {k: v for k, v in out.items() if v != 0}


def fact_linear_le(facts, lhs, rhs):
    """Do the facts contain `lhs <= rhs` up to moving terms across the comparison?  (`w <= 64 - o` for `o + w <= 64`, `a < b + 1`..)
    Compared as lhs - rhs <= 0 in normal form."""
    want = linear(("bin", "Sub", lhs, rhs))
    for f in facts:
        if f[0] != "cmp":
            continue
        op, a, b = f[1], f[2], f[3]
        if op in ("Ge", "Gt"):
            op, a, b = {"Ge": "Le", "Gt": "Lt"}[op], b, a
        if op == "Le":
            have = linear(("bin", "Sub", a, b))
        elif op == "Lt":
            have = linear(("bin", "Add", ("bin", "Sub", a, b), ("const", 1)))
        else:
            continue
        if have == want:
            return True
    return False


def canon(F, t, depth=4, self_ty=None):
    """A term with crate-local calls to straight-line functions replaced by what they return (parameters substituted), trait-method
    calls resolved through the receiver's type where it is known and otherwise named as written, references and casts dropped: two
    spellings of the same quantity (`self.count_zeros()` and `Complement::count_ones(self)`, both `len - count_ones`) get the
    same canonical term."""
    if not isinstance(t, tuple) or not t:
        return t
    if not isinstance(t[0], str):
        return tuple(canon(F, x, depth, self_ty) for x in t)
    k = t[0]
    if k in ("ref", "deref", "cast"):
        return canon(F, t[1], depth, self_ty)
    if k == "call":
        name = t[1]
        written = t[4] if len(t) > 4 and isinstance(t[4], str) else name
        ty = (t[3][0] if len(t) > 3 and t[3] else None) or self_ty
        if ty == "Self":
            ty = self_ty
        # a call written against the trait (inside a provided method, or unresolved): pick the implementation for the receiver's type
        if name == written and "::" in written and ty:
            tr, meth = written.rsplit("::", 1)
            for im in F.impls_of(tr):
                if (im["self_ty"].get("def") or im["self_ty"].get("s")) == ty.split("<")[0]:
                    for it in im["items"]:
                        if it["name"] == meth and F.has_body(it["def"]):
                            name = it["def"]
        if depth > 0 and F.has_body(name):
            cb = F.body(name)
            if len(cb.reachable()) <= 4 and not cb.loop_blocks() and not any(tt["callee"].get("unsafe") for _, tt in cb.calls()):
                rt = cb.term_of_local(0)
                if isinstance(rt, tuple) and rt and rt[0] not in ("var", "unknown", "deep"):
                    from serfmt import subst_params
                    inner_self = ty if name == written else None       # a provided method: nested trait calls are on the same Self
                    return canon(F, subst_params(rt, list(t[2])), depth - 1, inner_self or self_ty)
        return ("call", written, tuple(canon(F, a, depth, self_ty) for a in t[2]))
    if k == "param":
        return ("param", t[1])
    if k == "const":
        return ("const", t[1])
    if k == "adt":
        return t[:4] + (tuple(canon(F, x, depth, self_ty) for x in t[4]),)
    return tuple(canon(F, x, depth, self_ty) if isinstance(x, tuple) else x for x in t)


def untested_params(b, block, terms):
    """True if some term is built only from parameters of the function and constants (through arithmetic, casts, crate helpers) and NO
    fact that holds at `block` mentions any of those parameters: the value is whatever the caller passed, and nothing on the way
    looked at it.  (A positive identification: for an argument-checked API there is then a caller value -- 0 or usize::MAX -- that
    the code does not survive.  A value that *was* looked at, even through something derived from it, may be bounded by an
    invariant the rules cannot see; that is left undecided.)"""
    facts = facts_at(b, block)
    mentioned = set()
    for f in facts:
        for part in f[1:]:
            if isinstance(part, tuple):
                for x in subterms(part):
                    if isinstance(x, tuple) and x and x[0] == "param":
                        mentioned.add(x[1])
    for t in terms:
        ps, other = set(), False
        for x in subterms(t):
            if not (isinstance(x, tuple) and x and isinstance(x[0], str)):
                continue
            if x[0] == "param":
                ps.add(x[1])
            elif x[0] in ("var", "field", "index", "deref") and not any(isinstance(y, tuple) and y and y[0] == "param" for y in subterms(x)):
                other = True
        if ps and not (ps & mentioned) and all(b.local_ty(i + 1) in ("usize", "u64", "u32", "u16", "u8") for i in ps):
            return True
    return False


def fact_add_fits(facts, a, b):
    """A dominating fact that a + b does not overflow usize: `usize::MAX - a >= b` (either operand, either spelling) or
    `a.checked_add(b)` known to be Some."""
    a, b = strip_casts(a), strip_casts(b)
    for f in facts:
        if f[0] == "cmp" and f[1] in ("Ge", "Le"):
            big, small = (f[2], f[3]) if f[1] == "Ge" else (f[3], f[2])
            big, small = strip_casts(big), strip_casts(small)
            if big[0] == "bin" and big[1] == "Sub" and strip_casts(big[2])[0] == "const" and strip_casts(big[2])[1] == 2 ** 64 - 1 and \
                    {strip_casts(big[3]), small} == {a, b}:
                return True
        if f[0] == "discr" and f[2] == 1:
            x = f[1]
            while isinstance(x, tuple) and x and x[0] in ("discr", "ref", "deref"):
                x = x[1]
            if isinstance(x, tuple) and x and x[0] == "call" and x[1].endswith("::checked_add") and len(x[2]) == 2 and \
                    {strip_casts(x[2][0]), strip_casts(x[2][1])} == {a, b}:
                return True
    return False


def _getter_field(F, name):
    """Field name if crate function `name` is a plain getter `fn f(&self) -> T { self.<field> }` (possibly cast), else None."""
    if F is None or not F.has_body(name):
        return None
    cache = F.__dict__.setdefault("_getter_cache", {})
    if name not in cache:
        res = None
        try:
            cb = F.body(name)
            if cb.nargs == 1:
                t = cb.term_of_local(0)
                path = []
                while isinstance(t, tuple) and t and t[0] in ("field", "ref", "deref", "cast"):
                    if t[0] == "field":
                        path.append(t[2])
                    t = t[1]
                if isinstance(t, tuple) and t and t[0] == "param" and t[1] == 0 and path:
                    res = path[-1]
        except Exception:
            res = None
        cache[name] = res
    return cache[name]


def _mem_reads(f, F=None):
    """(param index, field name) for every read of a field of the object behind a reference parameter in a fact's terms, directly
    or through a plain getter. Results of other calls are values fixed when the call returned and are not re-read."""
    from facts import subterms
    out = set()
    terms = [x for x in f[1:] if isinstance(x, tuple)]
    for t in terms:
        for x in subterms(t):
            if x[0] == "field":
                path = []
                y = x
                while isinstance(y, tuple) and y and y[0] in ("field", "ref", "deref", "cast", "downcast"):
                    if y[0] == "field":
                        path.append(y[2])
                    y = y[1]
                if isinstance(y, tuple) and y and y[0] == "param" and path:
                    out.add((y[1], path[-1]))
            elif x[0] == "call" and len(x[2]) == 1:
                g = _getter_field(F, x[1])
                if g is not None:
                    y = x[2][0]
                    while isinstance(y, tuple) and y and y[0] in ("ref", "deref", "cast"):
                        y = y[1]
                    if isinstance(y, tuple) and y and y[0] == "param":
                        out.add((y[1], g))
    return out


def _mutations(b, param):
    """Stores into / &mut calls on the object behind `&mut` parameter `param` (0-based): [(block, kind, first field or None)]."""
    cache = b.__dict__.setdefault("_mut_sites", {})
    if param not in cache:
        sites = []
        if b.local_ty(param + 1).startswith("&mut"):
            from effects import mutation_sites
            for bi, kind, desc, sp in mutation_sites(b, param + 1, by_ref=True):
                sites.append((bi, kind, desc.split(".")[0] if kind == "store" and desc != "*" else None))
        cache[param] = sites
    return cache[param]


def fact_still_valid(b, v, block, f):
    """A fact established on entry of v still holds on entry of `block` (and up to its terminator) unless the memory it reads may
    be written in between: a store to the same field of the same `&mut` parameter, or a `&mut` call on it, in a block that is
    reachable from v and from which `block` is reachable (a call terminating `block` itself is the use, not an intervening write)."""
    reads = _mem_reads(f, getattr(b, "F", None) or getattr(b, "facts", None))
    if not reads:
        return True
    reach_v = b.__dict__.setdefault("_reach_cache", {})
    if v not in reach_v:
        reach_v[v] = b.reach_from([v])
    for param, field in reads:
        for d, kind, sfield in _mutations(b, param):
            if d not in reach_v[v]:
                continue
            if kind == "store" and field is not None and sfield is not None and sfield != field:
                continue
            if d == block:
                continue        # the guarded site itself (a store, or the call that ends the block)
            if block in b.reach_from(b.succ(d)):
                return False
    return True


def facts_at(b, block, evaluated_before=False):
    """Facts that hold whenever `block` is entered: edges (u,v) with v dominating block and v having the single predecessor u,
    and whose field reads cannot have been overwritten between v and block.
    evaluated_before=True: the weaker "this test was evaluated (and came out this way) on every path to block" -- no invalidation;
    for rules that ask for a guard to *precede* a scan whose own steps move the compared cursor."""
    if getattr(b, "_edge_facts", None) is None:
        b._edge_facts = edge_facts(b)
    cache = b.__dict__.setdefault("_facts_at", {})
    key = (block, evaluated_before)
    if key in cache:
        return cache[key]
    res = []
    cache[key] = res          # (recursion guard for the correlation step below)
    for u, v, f in b._edge_facts:
        if b.pred(v) == [u] and b.dominates(v, block):
            # invalidation by intervening stores is experimental (needs may-store callee summaries to be exact): off by default
            if evaluated_before or not os.environ.get("VERIF_INVALIDATION") or fact_still_valid(b, v, block, f):
                res.append(f)
    # discriminant-correlated facts: a dominating fact "x holds variant V" (directly, or through `x?` taking the Continue arm)
    # about a local all of whose definitions build known variants means the most recent definition executed was one that builds
    # V; what held at every such definition held on the way here (a helper returning Ok only behind its own checks, inlined)
    extra = []
    for f in list(res):
        if f[0] != "discr" or isinstance(f[2], tuple):
            continue
        src = f[1]
        if isinstance(src, tuple) and src and src[0] == "discr":
            src = src[1]
        while isinstance(src, tuple) and src and src[0] in ("ref", "deref", "cast"):
            src = src[1]
        vnames = None
        if isinstance(src, tuple) and src and src[0] == "call" and src[1].endswith("::branch") and "Try" in src[1] and len(src[2]) == 1:
            vnames = ("Ok", "Some") if f[2] == 0 else ("Err", "None")
            src = src[2][0]
            while isinstance(src, tuple) and src and src[0] in ("ref", "deref", "cast"):
                src = src[1]
        if not (isinstance(src, tuple) and src and src[0] == "var"):
            continue
        if vnames is None:
            # a direct match on the local: variant index -> names via the aggregates that define it
            names = set()
            todo, seen_l = [src[1]], set()
            while todo:
                l0 = todo.pop()
                if l0 in seen_l:
                    continue
                seen_l.add(l0)
                for (bi, si, kind, rv) in b.defs().get(l0, []):
                    if kind == "assign" and rv["r"] == "agg" and rv.get("agg") == "adt" and rv.get("variant") == f[2] and rv.get("vname"):
                        names.add(rv["vname"])
                    elif kind == "assign" and rv["r"] == "use":
                        q = rv["o"].get("m") or rv["o"].get("c")
                        if q is not None and not q["p"]:
                            todo.append(q["l"])
            if len(names) != 1:
                continue
            vnames = tuple(names)
        hit = b.variant_defs(src[1], vnames)
        if not hit:
            continue
        common = None
        for (dbi, rv) in hit:
            if dbi == block:
                common = []
                break
            fs = facts_at(b, dbi, evaluated_before)
            common = list(fs) if common is None else [x for x in common if x in fs]
        for x in common or []:
            if x not in res and x not in extra:
                extra.append(x)
    res.extend(extra)
    # boolean-correlated facts: a dominating fact "flag is true" about a local assigned in several places (`let ok = a && b`, an
    # inlined predicate helper, `(lo..=hi).contains(&x)`) means the assignment executed last was one that can produce true: the
    # constant-false arms are excluded, and what held at every remaining assignment -- plus the assigned comparison itself --
    # held on the way here.  Symmetrically for "flag is false".
    work = [f for f in res if f[0] == "bool"]
    done = set()
    while work:
        f = work.pop()
        src = strip_casts(f[1])
        if not (isinstance(src, tuple) and src and src[0] == "var") or (src[1], f[2]) in done:
            continue
        done.add((src[1], f[2]))
        roots = _bool_defs(b, src[1])
        if not roots:
            continue
        cands = []
        for dbi, rv in roots:
            if rv["r"] == "use" and "k" in rv["o"] and rv["o"]["k"].get("v") is not None:
                if bool(int(rv["o"]["k"]["v"])) != f[2]:
                    continue            # this arm assigns the other constant
                cands.append((dbi, None))
            else:
                cands.append((dbi, rv))
        if not cands or any(dbi == block for dbi, _ in cands):
            continue
        common = None
        for dbi, rv in cands:
            fs = list(facts_at(b, dbi, evaluated_before))
            if rv is not None:
                fs.extend(bool_facts(b.term_of_rvalue(rv), f[2]))
            common = fs if common is None else [x for x in common if x in fs]
        for x in common or []:
            if x not in res:
                res.append(x)
                if x[0] == "bool":
                    work.append(x)
    return res


def _bool_defs(b, l, limit=16):
    """Root assignments of a boolean local assigned in more than one place (see Body.root_defs)."""
    out = b.root_defs(l, limit)
    return out if out and len(out) > 1 else None


def cmp_facts_at(b, block):
    return [f for f in facts_at(b, block) if f[0] == "cmp"]


def has_cmp(facts, op, a, bb):
    """True if the facts contain `a op bb` (or its mirrored form)."""
    for f in facts:
        if f[0] != "cmp":
            continue
        if f[1] == op and f[2] == a and f[3] == bb:
            return True
        if SWAP[f[1]] == op and f[3] == a and f[2] == bb:
            return True
    return False


def must_pass_through(b, from_block, via_blocks, to_blocks=None):
    """A5: every path from from_block to a return (or to_blocks) passes through a block in via_blocks.
    (from_block itself counts when it is in via_blocks.)"""
    targets = set(to_blocks) if to_blocks is not None else set(b.return_blocks())
    via = set(via_blocks)
    if from_block in via:
        return True
    reach = b.reach_from([from_block], avoid=via)
    return not (reach & targets)


def blocks_calling(b, pred):
    return [bi for bi, t in b.calls() if pred(callee_name(t), t)]


def switch_arm_defs(b, local, F=None):
    """For a local assigned once in each arm of one discriminant switch: {variant_value: rvalue-term}. None if not that shape."""
    ds = [d for d in b.defs().get(local, []) if d[2] == "assign"]
    if len(ds) < 2 or len(ds) != len(b.defs().get(local, [])):
        return None
    efs = [(u, v, f) for (u, v, f) in edge_facts(b) if f[0] == "discr"]
    res = {}
    sw = None
    for (bi, si, kind, rv) in ds:
        hit = [(u, f) for (u, v, f) in efs if v == bi and b.pred(v) == [u]]
        if len(hit) != 1:
            return None
        u, f = hit[0]
        if sw is None:
            sw = (u, f[1])
        elif sw != (u, f[1]):
            return None
        res[f[2]] = b.term_of_rvalue(rv)
    return sw[1], res


def const_names(t):
    return {x[2] for x in subterms(t) if x[0] == "const" and len(x) > 2} | {x[1] for x in subterms(t) if x[0] in ("namedconst", "constref")}


def try_sites(b):
    """`?` sites: list of dicts {call_block, src_local, cont_block, break_block, payload_local, residual_ok}."""
    out = []
    for bi, t in b.calls():
        name = t["callee"].get("def", "")
        if name != "std::ops::Try::branch":
            continue
        if t["dest"]["p"] or t["target"] is None:
            continue
        r = t["dest"]["l"]
        src = None
        p = t["args"][0].get("m") or t["args"][0].get("c")
        if p is not None and not p["p"]:
            src = p["l"]
        nb = t["target"]
        sw = b.blocks[nb]["term"]
        site = {"call_block": bi, "src_local": src, "res_local": r, "cont_block": None, "break_block": None,
                "payload_local": None, "residual_ok": False, "sp": t["sp"], "self_ty": t["callee"].get("self_ty", {}).get("s", "")}
        if sw["t"] == "switch":
            dt = b.term_of_operand(sw["discr"])
            if dt == ("discr", b.term_of_local(r)) or (dt[0] == "discr"):
                for v, d in sw["targets"]:
                    if int(v) == 0:
                        site["cont_block"] = d
                    elif int(v) == 1:
                        site["break_block"] = d
        if site["cont_block"] is not None:
            for st in b.blocks[site["cont_block"]]["stmts"]:
                if st["s"] == "assign" and st["rv"]["r"] == "use":
                    q = st["rv"]["o"].get("m") or st["rv"]["o"].get("c")
                    if q and q["l"] == r and any(isinstance(e, dict) and e.get("name") == "Continue" for e in q["p"]) and not st["lhs"]["p"]:
                        site["payload_local"] = st["lhs"]["l"]
        if site["break_block"] is not None:
            # break arm: from_residual into _0, then only returns
            bb = site["break_block"]
            tt = b.blocks[bb]["term"]
            if tt["t"] == "call" and tt["callee"].get("def") == "std::ops::FromResidual::from_residual" and not tt["dest"]["p"]:
                if tt["dest"]["l"] == 0:
                    site["residual_ok"] = True
                elif tt.get("target") is not None:
                    # the residual is built in a local (the `?` sits in a helper that was inlined): it must reach _0 by plain
                    # moves only and the function must return without doing anything else
                    def walk(cur, carried, steps):
                        """True if every continuation from `cur` returns with the error in _0 having done nothing but move it."""
                        carried = set(carried)
                        while steps < 24:
                            steps += 1
                            for st in b.blocks[cur]["stmts"]:
                                if st["s"] == "assign" and st["rv"]["r"] == "use" and not st["lhs"]["p"]:
                                    q = st["rv"]["o"].get("m") or st["rv"]["o"].get("c")
                                    if q is not None and q["l"] in carried and all(isinstance(e, dict) and ("down" in e or "f" in e) for e in q["p"]):
                                        carried.add(st["lhs"]["l"])
                                        continue
                                if st["s"] == "assign" and st["lhs"]["p"]:
                                    return False       # a store to memory; assignments to plain locals (drop flags, discriminant reads) are inert
                            t2 = b.blocks[cur]["term"]
                            if t2["t"] == "return":
                                return 0 in carried
                            if t2["t"] in ("goto", "drop") and t2.get("target") is not None:
                                cur = t2["target"]
                                continue
                            # the error is re-propagated by an enclosing `?` (the inner `?` sat in a helper that was inlined):
                            # branch(err) -> Break arm -> from_residual
                            if t2["t"] == "call" and t2.get("target") is not None and not t2["dest"]["p"] and \
                                    t2["callee"].get("def") in ("std::ops::Try::branch", "std::ops::FromResidual::from_residual"):
                                q = t2["args"][0].get("m") or t2["args"][0].get("c")
                                if q is not None and q["l"] in carried:
                                    carried.add(t2["dest"]["l"])
                                    cur = t2["target"]
                                    continue
                                return False
                            if t2["t"] == "switch":
                                dq = t2["discr"].get("m") or t2["discr"].get("c")
                                src = None
                                if dq is not None and not dq["p"]:
                                    for st in b.blocks[cur]["stmts"]:
                                        if st["s"] == "assign" and not st["lhs"]["p"] and st["lhs"]["l"] == dq["l"] and st["rv"]["r"] == "discr":
                                            src = st["rv"]["p"]["l"]
                                brk = [d for v, d in t2["targets"] if int(v) == 1]
                                if src in carried and len(brk) == 1:
                                    cur = brk[0]
                                    continue
                                if src is None and t2.get("discr_ty") == "bool" and dq is not None and not dq["p"] and dq["l"] not in carried:
                                    # a drop flag: whichever way it goes, the rest must do the same
                                    succs = [d for _, d in t2["targets"]] + [t2["otherwise"]]
                                    return all(walk(d, carried, steps) for d in set(succs))
                            return False
                        return False
                    ok = walk(tt["target"], {tt["dest"]["l"]}, 0)
                    site["residual_ok"] = ok
                    site["chain_verified"] = ok     # the walk above ended at `return` with the error in _0 and met nothing else
        out.append(site)
    return out


def ok_blocks(b):
    """Blocks that assign `_0 = Result::Ok{..}` (or Option::Some), by variant name."""
    res = {}
    for bi, si, st in b.stmts():
        if st["s"] == "assign" and st["lhs"]["l"] == 0 and not st["lhs"]["p"] and st["rv"]["r"] == "agg" and st["rv"].get("agg") == "adt":
            res.setdefault(st["rv"]["vname"], []).append(bi)
    return res


def _c(t):
    while isinstance(t, tuple) and t and t[0] in ("cast", "ref", "deref"):
        t = t[1]
    return t


def fact_nonzero(facts, term):
    """A dominating fact implies term != 0 (any of: t != 0, t > 0, t >= k with k >= 1)."""
    term = _c(term)
    for f in facts:
        if f[0] != "cmp":
            continue
        a, b = _c(f[2]), _c(f[3])
        if a == term and b[0] == "const" and isinstance(b[1], int):
            if (f[1] == "Ne" and b[1] == 0) or (f[1] == "Gt" and b[1] >= 0) or (f[1] == "Ge" and b[1] >= 1):
                return True
        if b == term and a[0] == "const" and isinstance(a[1], int):
            if (f[1] == "Ne" and a[1] == 0) or (f[1] == "Lt" and a[1] >= 0) or (f[1] == "Le" and a[1] >= 1):
                return True
    return False


def fact_at_least(facts, term, k):
    """A dominating fact implies term >= k."""
    term = _c(term)
    for f in facts:
        if f[0] != "cmp":
            continue
        a, b = _c(f[2]), _c(f[3])
        if a == term and b[0] == "const" and isinstance(b[1], int):
            if (f[1] == "Gt" and b[1] >= k - 1) or (f[1] == "Ge" and b[1] >= k) or (f[1] == "Eq" and b[1] >= k):
                return True
        if b == term and a[0] == "const" and isinstance(a[1], int):
            if (f[1] == "Lt" and a[1] >= k - 1) or (f[1] == "Le" and a[1] >= k):
                return True
    return False


def fact_zero(facts, term):
    term = _c(term)
    for f in facts:
        if f[0] != "cmp":
            continue
        a, b = _c(f[2]), _c(f[3])
        if a == term and b[0] == "const" and isinstance(b[1], int) and ((f[1] == "Eq" and b[1] == 0) or (f[1] == "Le" and b[1] == 0) or (f[1] == "Lt" and b[1] == 1)):
            return True
        if b == term and a[0] == "const" and isinstance(a[1], int) and ((f[1] == "Eq" and a[1] == 0) or (f[1] == "Ge" and a[1] == 0)):
            return True
    return False


def fact_at_most(facts, term, k):
    """A dominating fact implies term <= k."""
    term = _c(term)
    for f in facts:
        if f[0] != "cmp":
            continue
        a, b = _c(f[2]), _c(f[3])
        if a == term and b[0] == "const" and isinstance(b[1], int):
            if (f[1] == "Le" and b[1] <= k) or (f[1] == "Lt" and b[1] <= k + 1) or (f[1] == "Eq" and b[1] <= k):
                return True
        if b == term and a[0] == "const" and isinstance(a[1], int):
            if (f[1] == "Ge" and a[1] <= k) or (f[1] == "Gt" and a[1] <= k + 1):
                return True
    return False


def is_min_name(n):
    return n.endswith("cmp::min") or n.endswith("cmp::Ord::min")


def is_max_name(n):
    return n.endswith("cmp::max") or n.endswith("cmp::Ord::max")


def resolve_nonzero_vars(b, block, term):
    """A local that is `X` on one path and the constant 0 on all others, used under a dominating `local != 0` (or `> 0`) test, is X
    there (`let n = if a > b { a - b } else { 0 }; if n > 0 { use(n) }`). Rewrites such locals inside `term`; returns
    (term, facts that hold where X was computed)."""
    facts = facts_at(b, block)
    extra = []

    def walk(t):
        if not isinstance(t, tuple) or not t:
            return t
        if isinstance(t[0], str):
            if t[0] == "var":
                ds = b.defs().get(t[1], [])
                if ds and all(d[2] == "assign" for d in ds):
                    vals = [(d[0], b.term_of_rvalue(d[3])) for d in ds]
                    zeros = [v for v in vals if strip_casts(v[1])[0] == "const" and strip_casts(v[1])[1] == 0]
                    rest = [v for v in vals if v not in zeros]
                    if zeros and len(rest) == 1 and fact_nonzero(facts, t):
                        for f in facts_at(b, rest[0][0]):
                            if f not in extra:
                                extra.append(f)
                        return walk(rest[0][1])
                return t
            if t[0] in ("param", "const", "namedconst", "constref", "static", "bytes", "fn", "zst", "constdbg", "promoted"):
                return t
            if t[0] == "call":
                return (t[0], t[1], tuple(walk(x) for x in t[2])) + t[3:]
            if t[0] == "adt":
                return t[:4] + (tuple(walk(x) for x in t[4]),)
            return tuple(walk(x) if isinstance(x, tuple) else x for x in t)
        return tuple(walk(x) for x in t)
    return walk(term), extra


def reach_on_error_path(b, start):
    """Blocks reachable from `start` (a block that builds an error value) when the error is followed: an `Err` / `None` aggregate
    built on the way marks its local as holding an error; a switch on the discriminant of such a local -- or of `Try::branch` of
    it -- takes only the error / Break edge. Everything else is plain reachability. Used to ask "can a refusal still reach the
    success value?" when the refusal sits in a helper that was inlined (its `return Err(..)` continues into the caller's `?`)."""
    err = set()
    is_none = set()        # error locals that hold Option::None (discriminant 0) rather than Err / Break (discriminant 1)
    seen, stack = set(), [start]
    while stack:
        x = stack.pop()
        if x in seen:
            continue
        seen.add(x)
        blk = b.blocks[x]
        dsrc = {}
        for st in blk["stmts"]:
            if st["s"] != "assign" or st["lhs"]["p"]:
                continue
            rv = st["rv"]
            l = st["lhs"]["l"]
            if rv["r"] == "agg" and rv.get("agg") == "adt" and rv.get("vname") in ("Err", "None") and rv.get("def") in ("std::result::Result", "std::option::Option"):
                err.add(l)
                (is_none.add if rv.get("vname") == "None" else is_none.discard)(l)
            elif rv["r"] == "use":
                q = rv["o"].get("m") or rv["o"].get("c")
                if q is not None and q["l"] in err and all(isinstance(e, dict) and ("down" in e or "f" in e) for e in q["p"]):
                    err.add(l)
                    (is_none.add if q["l"] in is_none and not q["p"] else is_none.discard)(l)
                elif l in err:
                    err.discard(l)
            elif rv["r"] == "discr":
                dsrc[l] = rv["p"]["l"] if not rv["p"]["p"] else None
            elif l in err:
                err.discard(l)
        t = blk["term"]
        nxt = b.succ(x)
        if t["t"] == "call" and not t["dest"]["p"] and t.get("target") is not None:
            q = (t["args"][0].get("m") or t["args"][0].get("c")) if t["args"] else None
            d = t["callee"].get("def")
            if d in ("std::ops::Try::branch", "std::ops::FromResidual::from_residual") and q is not None and q["l"] in err:
                err.add(t["dest"]["l"])
            elif t["dest"]["l"] in err:
                err.discard(t["dest"]["l"])
        elif t["t"] == "switch":
            dq = t["discr"].get("m") or t["discr"].get("c")
            src = dsrc.get(dq["l"]) if dq is not None and not dq["p"] else None
            if src in err:
                one = [d for v, d in t["targets"] if int(v) == 1]
                # Result::Err and ControlFlow::Break have discriminant 1; Option::None has 0
                zero = [d for v, d in t["targets"] if int(v) == 0]
                if src in is_none:
                    nxt = zero or [t["otherwise"]]
                else:
                    nxt = one or ([t["otherwise"]] if not zero else [t["otherwise"]])
        stack.extend(nxt)
    return seen


# ---------------------------------------------------------------------------------------- validation by delegation
#
# `let base = IntVector::new(width)?;` validates `width` exactly as the inline test does: the constructor returns Ok only for
# 1..=64 (its own obligation), so behind the Continue arm of the `?` (or the Ok arm of a match) the argument is in range and the
# `width` field of the payload is the validated value.
VALIDATING_CTORS = {"int_vector::IntVector::new": 0, "int_vector::IntVector::with_len": 1, "int_vector::IntVector::with_capacity": 1}


def _ctor_call(x):
    """The validating constructor call inside `branch(ctor(..))` / `ctor(..)`, or None."""
    x = _c(x)
    if isinstance(x, tuple) and x and x[0] == "discr":
        x = _c(x[1])
    if isinstance(x, tuple) and x and x[0] == "call" and x[1].endswith("::branch") and "Try" in x[1] and len(x[2]) == 1:
        x = _c(x[2][0])
    if isinstance(x, tuple) and x and x[0] == "call" and x[1] in VALIDATING_CTORS:
        return x
    return None


def validated_by_ctor(facts, term):
    """A dominating fact says a validating constructor accepted `term` as its width."""
    term = _c(term)
    for f in facts:
        if f[0] != "discr" or f[2] != 0:
            continue
        c = _ctor_call(f[1])
        if c is not None and _c(c[2][VALIDATING_CTORS[c[1]]]) == term:
            return True
    return False


def ctor_payload_width(t):
    """t = (branch(ctor(.., w, ..)) as Continue).0.width (or (ctor(..) as Ok).0.width): returns w, else None."""
    t = _c(t)
    if not (isinstance(t, tuple) and t and t[0] == "field" and t[2] == "width"):
        return None
    x = _c(t[1])
    for _ in range(4):
        if isinstance(x, tuple) and x and x[0] in ("field", "downcast"):
            x = _c(x[1])
    c = _ctor_call(x)
    return _c(c[2][VALIDATING_CTORS[c[1]]]) if c is not None else None
