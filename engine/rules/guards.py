"""A2 -- guard facts by dominance, A5 -- must-pass-through, plus small CFG queries shared by rules."""
from facts import subterms, tstr, callee_name

NEG = {"Eq": "Ne", "Ne": "Eq", "Lt": "Ge", "Ge": "Lt", "Gt": "Le", "Le": "Gt"}
SWAP = {"Eq": "Eq", "Ne": "Ne", "Lt": "Gt", "Gt": "Lt", "Le": "Ge", "Ge": "Le"}


def strip_casts(t):
    while isinstance(t, tuple) and t and t[0] == "cast":
        t = t[1]
    return t


def edge_facts(b):
    """List of (src_block, dst_block, fact). fact = ('cmp', op, a, b) | ('bool', term, truth) | ('discr', term, value|('not', [values]))."""
    out = []
    for bi in sorted(b.reachable()):
        t = b.blocks[bi]["term"]
        if t["t"] != "switch":
            continue
        cond = b.term_of_operand(t["discr"])
        ty = t["discr_ty"]
        targets = [(int(v) if not isinstance(v, int) else v, d) for v, d in t["targets"]]
        other = t["otherwise"]
        if ty == "bool":
            for v, d in targets:
                for f in bool_facts(cond, v != 0):
                    out.append((bi, d, f))
            vals = [v for v, _ in targets]
            if len(vals) == 1 and other not in [d for _, d in targets]:
                for f in bool_facts(cond, vals[0] == 0):
                    out.append((bi, other, f))
        else:
            for v, d in targets:
                out.append((bi, d, ("discr", cond, v)))
            if other not in [d for _, d in targets]:
                out.append((bi, other, ("discr", cond, ("not", tuple(v for v, _ in targets)))))
    return out


def bool_facts(cond, truth):
    """Facts implied by boolean term `cond` having value `truth`."""
    cond = strip_casts(cond)
    out = [("bool", cond, truth)]
    if cond[0] == "bin" and cond[1] in NEG:
        op = cond[1] if truth else NEG[cond[1]]
        out.append(("cmp", op, cond[2], cond[3]))
    elif cond[0] == "un" and cond[1] == "Not":
        out.extend(bool_facts(cond[2], not truth))
    return out


def facts_at(b, block):
    """Facts that hold whenever `block` is entered: edges (u,v) with v dominating block and v having the single predecessor u."""
    if getattr(b, "_edge_facts", None) is None:
        b._edge_facts = edge_facts(b)
    res = []
    for u, v, f in b._edge_facts:
        if b.pred(v) == [u] and b.dominates(v, block):
            res.append(f)
    return res


def cmp_facts_at(b, block):
    return [f for f in facts_at(b, block) if f[0] == "cmp"]


def has_cmp(facts, op, a, bb):
    """True if the facts contain `a op bb` (or its mirrored form)."""
    for f in facts:
        if f[0] != "cmp":
            continue
        if f[1] == op and f[2] == a and f[3] == bb:
            return True
        if SWAP[f[1]] == op and f[3] == a and f[2] == bb:
            return True
    return False


def must_pass_through(b, from_block, via_blocks, to_blocks=None):
    """A5: every path from from_block to a return (or to_blocks) passes through a block in via_blocks.
    (from_block itself counts when it is in via_blocks.)"""
    targets = set(to_blocks) if to_blocks is not None else set(b.return_blocks())
    via = set(via_blocks)
    if from_block in via:
        return True
    reach = b.reach_from([from_block], avoid=via)
    return not (reach & targets)


def blocks_calling(b, pred):
    return [bi for bi, t in b.calls() if pred(callee_name(t), t)]


def switch_arm_defs(b, local, F=None):
    """For a local assigned once in each arm of one discriminant switch: {variant_value: rvalue-term}. None if not that shape."""
    ds = [d for d in b.defs().get(local, []) if d[2] == "assign"]
    if len(ds) < 2 or len(ds) != len(b.defs().get(local, [])):
        return None
    efs = [(u, v, f) for (u, v, f) in edge_facts(b) if f[0] == "discr"]
    res = {}
    sw = None
    for (bi, si, kind, rv) in ds:
        hit = [(u, f) for (u, v, f) in efs if v == bi and b.pred(v) == [u]]
        if len(hit) != 1:
            return None
        u, f = hit[0]
        if sw is None:
            sw = (u, f[1])
        elif sw != (u, f[1]):
            return None
        res[f[2]] = b.term_of_rvalue(rv)
    return sw[1], res


def const_names(t):
    return {x[2] for x in subterms(t) if x[0] == "const" and len(x) > 2} | {x[1] for x in subterms(t) if x[0] in ("namedconst", "constref")}


def try_sites(b):
    """`?` sites: list of dicts {call_block, src_local, cont_block, break_block, payload_local, residual_ok}."""
    out = []
    for bi, t in b.calls():
        name = t["callee"].get("def", "")
        if name != "std::ops::Try::branch":
            continue
        if t["dest"]["p"] or t["target"] is None:
            continue
        r = t["dest"]["l"]
        src = None
        p = t["args"][0].get("m") or t["args"][0].get("c")
        if p is not None and not p["p"]:
            src = p["l"]
        nb = t["target"]
        sw = b.blocks[nb]["term"]
        site = {"call_block": bi, "src_local": src, "res_local": r, "cont_block": None, "break_block": None,
                "payload_local": None, "residual_ok": False, "sp": t["sp"], "self_ty": t["callee"].get("self_ty", {}).get("s", "")}
        if sw["t"] == "switch":
            dt = b.term_of_operand(sw["discr"])
            if dt == ("discr", b.term_of_local(r)) or (dt[0] == "discr"):
                for v, d in sw["targets"]:
                    if int(v) == 0:
                        site["cont_block"] = d
                    elif int(v) == 1:
                        site["break_block"] = d
        if site["cont_block"] is not None:
            for st in b.blocks[site["cont_block"]]["stmts"]:
                if st["s"] == "assign" and st["rv"]["r"] == "use":
                    q = st["rv"]["o"].get("m") or st["rv"]["o"].get("c")
                    if q and q["l"] == r and any(isinstance(e, dict) and e.get("name") == "Continue" for e in q["p"]) and not st["lhs"]["p"]:
                        site["payload_local"] = st["lhs"]["l"]
        if site["break_block"] is not None:
            # break arm: from_residual into _0, then only returns
            bb = site["break_block"]
            tt = b.blocks[bb]["term"]
            if tt["t"] == "call" and tt["callee"].get("def") == "std::ops::FromResidual::from_residual" and \
                    tt["dest"]["l"] == 0 and not tt["dest"]["p"]:
                site["residual_ok"] = True
        out.append(site)
    return out


def ok_blocks(b):
    """Blocks that assign `_0 = Result::Ok{..}` (or Option::Some), by variant name."""
    res = {}
    for bi, si, st in b.stmts():
        if st["s"] == "assign" and st["lhs"]["l"] == 0 and not st["lhs"]["p"] and st["rv"]["r"] == "agg" and st["rv"].get("agg") == "adt":
            res.setdefault(st["rv"]["vname"], []).append(bi)
    return res


def _c(t):
    while isinstance(t, tuple) and t and t[0] in ("cast", "ref", "deref"):
        t = t[1]
    return t


def fact_nonzero(facts, term):
    """A dominating fact implies term != 0 (any of: t != 0, t > 0, t >= k with k >= 1)."""
    term = _c(term)
    for f in facts:
        if f[0] != "cmp":
            continue
        a, b = _c(f[2]), _c(f[3])
        if a == term and b[0] == "const" and isinstance(b[1], int):
            if (f[1] == "Ne" and b[1] == 0) or (f[1] == "Gt" and b[1] >= 0) or (f[1] == "Ge" and b[1] >= 1):
                return True
        if b == term and a[0] == "const" and isinstance(a[1], int):
            if (f[1] == "Ne" and a[1] == 0) or (f[1] == "Lt" and a[1] >= 0) or (f[1] == "Le" and a[1] >= 1):
                return True
    return False


def fact_zero(facts, term):
    term = _c(term)
    for f in facts:
        if f[0] != "cmp":
            continue
        a, b = _c(f[2]), _c(f[3])
        if a == term and b[0] == "const" and isinstance(b[1], int) and ((f[1] == "Eq" and b[1] == 0) or (f[1] == "Le" and b[1] == 0) or (f[1] == "Lt" and b[1] == 1)):
            return True
        if b == term and a[0] == "const" and isinstance(a[1], int) and ((f[1] == "Eq" and a[1] == 0) or (f[1] == "Ge" and a[1] == 0)):
            return True
    return False


def fact_at_most(facts, term, k):
    """A dominating fact implies term <= k."""
    term = _c(term)
    for f in facts:
        if f[0] != "cmp":
            continue
        a, b = _c(f[2]), _c(f[3])
        if a == term and b[0] == "const" and isinstance(b[1], int):
            if (f[1] == "Le" and b[1] <= k) or (f[1] == "Lt" and b[1] <= k + 1) or (f[1] == "Eq" and b[1] <= k):
                return True
        if b == term and a[0] == "const" and isinstance(a[1], int):
            if (f[1] == "Ge" and a[1] <= k) or (f[1] == "Gt" and a[1] <= k + 1):
                return True
    return False


def is_min_name(n):
    return n.endswith("cmp::min") or n.endswith("cmp::Ord::min")


def is_max_name(n):
    return n.endswith("cmp::max") or n.endswith("cmp::Ord::max")
