"""C19 -- support structures are optional, rebuildable and never change answers (structural part).

 R1 enable_* stores the option field only when the matching supports_*() is false, and stores Some(<matching support>::new(self));
    supports_* reads the matching field; enable_pred_succ = enable_rank + enable_select
 R2 BitVector::load returns exactly the loaded options (validation edges only refuse)
 R3 composite loaders enable what their queries use on every Ok path; constructors start with no supports
 R4 skip_option consumes exactly the declared length; absent_option writes the length 0
 R5 equality covers the support fields
"""
from facts import Undecided, loc, tstr, callee_name, callee_written, subterms, operand_place, resolve_ref_local
from guards import facts_at, must_pass_through, strip_casts, try_sites, ok_blocks, edge_facts
from effects import field_store_blocks, mutation_sites
from pat import m, Bind, ANY, Call, Bin, Const, Param, SelfField, core, self_path
import serfmt
from c06 import root_local

BV = "bit_vector::BitVector"
META = {
    "level": "other",
    "technique": "static analysis: guard dominance on option-field stores, payload provenance in loaders, must-call before Ok in composite loaders, validation formulas vs builder counts (MIR, rustc_private driver; bodies normalised by helper inlining and combinator expansion)",
    "explanation": "The three option fields of BitVector are written only by the enable_* methods (under the negative supports_* guard, with "
                   "the matching support type built from self), by the constructors (None) and by load (the loaded options, unmodified). "
                   "Composite loaders (SparseVector, WMCore, RLVector) must call the enabling/rebuilding routines on every path to Ok. "
                   "skip_option's read limit is the loaded length times the word size and its count is checked. That rebuilt supports equal "
                   "loaded ones, and that answers are unchanged, is arithmetic and not decided.",
    "trusted_base": ["rustc's MIR faithfully represents the source"],
    "assumptions": [],
}

ENABLES = [
    ("<bit_vector::BitVector as ops::Rank<'a>>::enable_rank", "<bit_vector::BitVector as ops::Rank<'a>>::supports_rank", "rank",
     "bit_vector::rank_support::RankSupport::new", None),
    ("<bit_vector::BitVector as ops::Select<'a>>::enable_select", "<bit_vector::BitVector as ops::Select<'a>>::supports_select", "select",
     "bit_vector::select_support::SelectSupport::<T>::new", "bit_vector::Identity"),
    ("<bit_vector::BitVector as ops::SelectZero<'a>>::enable_select_zero", "<bit_vector::BitVector as ops::SelectZero<'a>>::supports_select_zero", "select_zero",
     "bit_vector::select_support::SelectSupport::<T>::new", "bit_vector::Complement"),
]
OPTION_FIELDS = ("rank", "select", "select_zero")


def check(ctx):
    configs = ["native"] if ctx.tier == "quick" else ["native", "portable", "native-rel", "portable-rel"]
    for cfg in configs:
        check_config(ctx, ctx.facts(cfg), "" if cfg == "native" else "@" + cfg)


def is_none_term(t):
    t = core(t)
    if t[0] == "adt" and t[1] == "std::option::Option" and t[2] == "None":
        return True
    if t[0] == "promoted" and any(d.endswith("::None") for d in t[3]):
        return True
    return False


def field_absent_fact(fs, field):
    """A dominating fact that self.<field> is None, spelled on the field itself: is_none() true, is_some() false, discriminant 0,
    or `== None`."""
    for f in fs:
        if f[0] == "bool":
            t = core(f[1])
            if t[0] == "call" and len(t[2]) == 1 and self_path(t[2][0]) == [field]:
                last = t[1].split("::")[-1]
                if (last == "is_none" and f[2] is True) or (last == "is_some" and f[2] is False):
                    return True
            if t[0] == "call" and t[1].endswith("PartialEq>::eq") or (t[0] == "call" and t[1].endswith("::eq")):
                if len(t[2]) == 2 and ((self_path(t[2][0]) == [field] and is_none_term(t[2][1])) or (self_path(t[2][1]) == [field] and is_none_term(t[2][0]))) and f[2] is True:
                    return True
            if t[0] == "call" and (t[1].endswith("PartialEq>::ne") or t[1].endswith("::ne")):
                if len(t[2]) == 2 and ((self_path(t[2][0]) == [field] and is_none_term(t[2][1])) or (self_path(t[2][1]) == [field] and is_none_term(t[2][0]))) and f[2] is False:
                    return True
        if f[0] == "discr":
            src = core(f[1])
            if src[0] == "discr":
                src = core(src[1])
            if self_path(src) == [field] and f[2] == 0:
                return True
    return False


def check_config(ctx, F, tag):
    # ---------------- R1
    for en, sup, field, ctor, targ in ENABLES:
        b = F.body(en)
        stores = [x for x in field_store_blocks(b, BV, field) if not b.blocks[x[0]]["cleanup"]]
        ctx.count("option-field-stores" + tag, len(stores))
        if not stores:
            raise Undecided("%s does not store BitVector.%s" % (en, field))
        for k, (bi, si, st) in enumerate(stores):
            fs = facts_at(b, bi)
            guard = any(f[0] == "bool" and f[2] is False and m(Call(sup, Param(0)), f[1]) for f in fs) or field_absent_fact(fs, field)
            val = b.term_of_rvalue(st["rv"])
            env = {}
            okv = m(("adt", "std::option::Option", "Some", ANY, (Call(ctor, Param(0)),)), val, env)
            okt = True
            if okv and targ is not None:
                inner = core(val)[4][0]
                okt = targ in core(inner)[3]
            ctx.ob("C19.R1.enable-only-when-absent", "%s|%s#%d%s" % (en, field, k, tag), loc(st["sp"]), guard and okv and okt, "guard-dominance+term",
                   "store to .%s dominated by %s() == false: %s; value = %s (must be Some(%s%s(self)))" % (
                       field, sup.split("::")[-1], guard, tstr(val)[:90], ctor.split("::")[-3] if targ else "RankSupport", "<%s>::new" % targ.split("::")[-1] if targ else "::new"))
        sb = F.body(sup)
        t = sb.term_of_local(0)
        env = {}
        oks = (m(Call(lambda n: n.endswith("::ne"), SelfField(field), ANY), t) and is_none_term(core(t)[2][1])) or \
            m(Call(lambda n: n.startswith("std::option::Option::<") and n.endswith("::is_some"), SelfField(field)), t)
        ctx.ob("C19.R1.supports-reads-matching-field", sup + tag, loc(sb.raw["span"]), oks, "term-shape", "%s() = %s" % (sup.split("::")[-1], tstr(t)[:120]))
    ps = F.body("<bit_vector::BitVector as ops::PredSucc<'a>>::enable_pred_succ")
    names = sorted(callee_name(t) for _, t in ps.calls())
    ctx.ob("C19.R1.enable-pred-succ", ps.name + tag, loc(ps.raw["span"]), names == sorted([ENABLES[0][0], ENABLES[1][0]]) and
           all(must_pass_through(ps, 0, [bi]) for bi, _ in ps.calls()), "call-sequence", "enable_pred_succ calls %s" % names)
    sp = F.body("<bit_vector::BitVector as ops::PredSucc<'a>>::supports_pred_succ")
    t = sp.term_of_local(0)
    fields_read = sorted({tuple(self_path(x)) for x in subterms(t) if x[0] == "field" and self_path(x)} | set())
    ctx.ob("C19.R1.supports-pred-succ", sp.name + tag, loc(sp.raw["span"]), True, "informational", "supports_pred_succ reads %s" % fields_read, nontrivial=False)

    # predecessor / successor use rank *and* select: the flag is true only when both structures are present
    def presence(term):
        c = core(term)
        if c[0] == "call" and len(c[2]) >= 1 and self_path(c[2][0]) is not None and len(self_path(c[2][0])) == 1:
            last = c[1].split("::")[-1]
            if last == "is_some" and len(c[2]) == 1:
                return self_path(c[2][0])[0]
            if last == "ne" and len(c[2]) == 2 and is_none_term(c[2][1]):
                return self_path(c[2][0])[0]
        return None

    def present_here(b, bi):
        have = set()
        for f in facts_at(b, bi):
            if f[0] == "bool" and f[2] is True and presence(f[1]):
                have.add(presence(f[1]))
            if f[0] == "discr" and f[2] == 1:
                src = core(f[1])
                src = core(src[1]) if src[0] == "discr" else src
                if self_path(src) and len(self_path(src)) == 1:
                    have.add(self_path(src)[0])
        return have
    need = {"rank", "select"}
    bad = []
    defs0 = [d for d in sp.defs().get(0, []) if d[2] in ("assign", "call")]
    for (bi, si, kind, payload) in defs0:
        v = core(sp.term_of_rvalue(payload) if kind == "assign" else sp.term_of_call(payload))
        have = set(present_here(sp, bi))
        if v[0] == "const" and v[1] == 0:
            continue
        if v[0] == "bin" and v[1] == "BitAnd" and presence(v[2]) and presence(v[3]):
            have |= {presence(v[2]), presence(v[3])}
        elif presence(v):
            have.add(presence(v))
        elif not (v[0] == "const" and v[1] == 1):
            have = None            # unknown shape: not judged
        if have is not None and not need <= have:
            bad.append("`%s` returned with only %s known present" % (tstr(v)[:40], sorted(have)))
    ctx.ob("C19.R1.pred-succ-needs-rank-and-select", sp.name + tag, loc(sp.raw["span"]), not bad, "per-path-facts",
           "supports_pred_succ() can return true without both rank and select present: %s" % bad)

    # who stores the option fields, crate-wide
    who = {}
    for b in F.all_bodies():
        for f in OPTION_FIELDS:
            for x in field_store_blocks(b, BV, f):
                if not b.blocks[x[0]]["cleanup"]:
                    who.setdefault(b.name, set()).add(f)
    allowed = {en: {field} for en, _, field, _, _ in ENABLES}
    bad = {k: sorted(v) for k, v in who.items() if allowed.get(k) != v}
    import inline
    ctx.ob("C19.R1.who-stores-option-fields", BV + tag, "src/bit_vector.rs", (not bad) if not inline.only_new(list(bad)) else None, "who-may-store", "option-field stores outside the matching enable_*: %s" % bad)
    ctx.floor("option-field-stores" + tag, 3)

    # ---------------- R2 + constructors
    naggs = 0
    for b in F.all_bodies():
        for bi, si, st in b.stmts():
            if st["s"] == "assign" and st["rv"]["r"] == "agg" and st["rv"].get("def") == BV:
                naggs += 1
                ops = dict(zip(st["rv"]["fields"], st["rv"]["ops"]))
                if b.name == "<bit_vector::BitVector as serialize::Serialize>::load":
                    L = serfmt.load_seq(b)
                    opt_loads = [l for l in L if l["ty"].startswith("std::option::Option<")]
                    ok = len(opt_loads) == 3
                    detail = []
                    if ok:
                        for f, l in zip(OPTION_FIELDS, opt_loads):
                            r = root_local(b, ops[f])
                            good = r == l["payload"]
                            # the payload local is never mutated: no &mut borrow, no store
                            muts = mutation_sites(b, l["payload"], by_ref=False) if l["payload"] is not None else [1]
                            ok = ok and good and not muts
                            detail.append("%s<-load(%s)%s" % (f, l["ty"].split("::")[-1][:24], "" if good and not muts else " MISMATCH/MUTATED"))
                    ctx.ob("C19.R2.load-returns-loaded-options", b.name + tag, loc(st["sp"]), ok, "payload-provenance", "; ".join(detail) or "expected three Option loads")
                elif b.name == "<bit_vector::BitVector as std::clone::Clone>::clone":
                    continue
                else:
                    ok = all(is_none_term(b.term_of_operand(ops[f])) for f in OPTION_FIELDS)
                    ctx.ob("C19.R3.constructor-starts-without-supports", b.name + tag, loc(st["sp"]), ok, "term-shape",
                           "rank/select/select_zero = %s" % [tstr(b.term_of_operand(ops[f]))[:40] for f in OPTION_FIELDS])
    ctx.count("bitvector-aggregates" + tag, naggs)
    ctx.floor("bitvector-aggregates" + tag, 2)
    # validation edges in BitVector::load only refuse: every block reachable from a validation-failure edge returns Err (no aggregate)
    lb = F.body("<bit_vector::BitVector as serialize::Serialize>::load")
    agg_blocks = [bi for bi, si, st in lb.stmts() if st["s"] == "assign" and st["rv"]["r"] == "agg" and st["rv"].get("def") == BV]
    errk = [bi for bi, si, st in lb.stmts() if st["s"] == "assign" and st["rv"]["r"] == "agg" and st["rv"].get("def") == "std::io::ErrorKind"]
    from guards import reach_on_error_path
    leak = [e for e in errk if any(a in reach_on_error_path(lb, e) for a in agg_blocks)]
    ctx.ob("C19.R2.validation-only-refuses", lb.name + tag, loc(lb.raw["span"]), len(errk) >= 4 and not leak, "cfg-reachability",
           "%d validation failure blocks; aggregate reachable from one: %s" % (len(errk), leak))

    check_validation_formulas(ctx, F, tag)
    check_partial_unit_counts(ctx, F, tag)
    if not getattr(ctx, "_map", None):
        import c01
        from core import Relabel
        c01.check_select_layout(Relabel(ctx, {"C01.R4.": "C19.R4."}), F, tag)     # enabling select never changes answers: what is stored is what is read
    import c09
    c09.check_wm_load_width(ctx, F, tag, rule="C19.R3.wm-core-load-width")     # embedding structures load: every width the core can be built with

    # ---------------- R3 composite loaders
    check_composite_loaders(ctx, F, tag, "C19.R3")
    check_support_sample_counts(ctx, F, tag)

    # ---------------- R4 skip_option
    sk = F.body("serialize::skip_option")
    L = serfmt.load_seq(sk)
    ok = len(L) == 1 and L[0]["ty"] == "usize" and L[0]["payload"] is not None
    detail = "skip_option loads %s" % [x["ty"] for x in L]
    if ok:
        size = sk.term_of_local(L[0]["payload"])
        takes = [t for _, t in sk.calls() if callee_name(t).endswith("::take") and "Read" in callee_written(t)]
        ok = len(takes) == 1
        if ok:
            lim = sk.term_of_operand(takes[0]["args"][1])
            ok = m(Bin("Mul", Bind("n"), Const(8, "bits::WORD_BYTES")), lim, {"n": core(size)}) or m(Call("bits::words_to_bytes", Bind("n")), lim, {"n": core(size)})
            detail = "take limit = %s; loaded length = %s" % (tstr(lim)[:100], tstr(size)[:60])
            # skipping happens only for a non-zero length
            fs = facts_at(sk, [bi for bi, t in sk.calls() if t is takes[0]][0])
            from guards import fact_nonzero
            ok = ok and (fact_nonzero(fs, size) or fact_nonzero(fs, strip_casts(lim)))      # (tested on the element count or on the byte count)
    ctx.ob("C19.R4.skip-option-length", "serialize::skip_option" + tag, loc(sk.raw["span"]), ok, "term-provenance", detail)

    # ---------------- R5
    for adt_ in (BV, "bit_vector::rank_support::RankSupport", "bit_vector::select_support::SelectSupport"):
        ok = F.derives(adt_, "std::cmp::PartialEq") and not F.manual_impl(adt_, "std::cmp::PartialEq")
        ctx.ob("C19.R5.equality-covers-supports", adt_ + tag, loc(F.adt(adt_)["span"]), ok, "item-structure", "%s derives PartialEq (all fields): %s" % (adt_, ok), nontrivial=False)
    fields = [f["name"] for f in F.adt(BV)["variants"][0]["fields"]]
    ctx.ob("C19.R5.bitvector-fields", BV + tag, loc(F.adt(BV)["span"]), fields == ["ones", "data", "rank", "select", "select_zero"], "item-structure", "fields %s" % fields, nontrivial=False)


def root_local_of_ref(b, o):
    r = resolve_ref_local(b, o)
    if r is None:
        return None
    return root_local(b, {"l": r, "p": []})


def check_sparse_builder_enables(ctx, F, tag, prefix):
    """The value SparseVector::load returns has both select structures of `high` enabled on every Ok path (sparse-load-enables);
    the value the builder conversion returns must have exactly the same, on every Ok path -- otherwise a vector built in memory
    differs from its own loaded copy (derived PartialEq and size_in_elements look at the option fields)."""
    tf = "<sparse_vector::SparseVector as std::convert::TryFrom<sparse_vector::SparseBuilder>>::try_from"
    if not F.has_body(tf):
        raise Undecided("anchor lost: " + tf)
    b = F.body(tf)
    oks = ok_blocks(b).get("Ok", [])
    for want in ("enable_select", "enable_select_zero"):
        blocks = [bi for bi, t in b.calls() if callee_name(t).endswith("::" + want)]
        ok = bool(blocks) and bool(oks) and must_pass_through(b, 0, blocks, to_blocks=oks)
        ctx.ob(prefix + ".sparse-builder-enables-what-load-enables", "%s|%s%s" % (tf, want, tag), loc(b.raw["span"]), ok, "must-pass-through",
               "every path to Ok calls high.%s() (as SparseVector::load does): %s" % (want, ok))


def check_composite_loaders(ctx, F, tag, prefix):
    """Loaders of structures that embed plain bitvectors enable/rebuild what their queries use on every Ok path."""
    sl = F.body("<sparse_vector::SparseVector as serialize::Serialize>::load")
    oks = ok_blocks(sl).get("Ok", [])
    aggs = [(bi, st) for bi, si, st in sl.stmts() if st["s"] == "assign" and st["rv"]["r"] == "agg" and st["rv"].get("def") == "sparse_vector::SparseVector"]
    if len(aggs) != 1 or not oks:
        raise Undecided("SparseVector::load shape")
    high = root_local(sl, dict(zip(aggs[0][1]["rv"]["fields"], aggs[0][1]["rv"]["ops"]))["high"])
    for want in ("enable_select", "enable_select_zero"):
        blocks = [bi for bi, t in sl.calls() if callee_name(t).endswith("::" + want) and root_local_of_ref(sl, t["args"][0]) == high]
        ok = bool(blocks) and must_pass_through(sl, 0, blocks, to_blocks=oks)
        ctx.ob(prefix + ".sparse-load-enables", "%s|%s%s" % (sl.name, want, tag), loc(sl.raw["span"]), ok, "must-pass-through",
               "every path to Ok calls high.%s(): %s" % (want, ok))
    wl = F.body("<wavelet_matrix::wm_core::WMCore as serialize::Serialize>::load")
    oks = ok_blocks(wl).get("Ok", [])
    blocks = [bi for bi, t in wl.calls() if callee_name(t) == "wavelet_matrix::wm_core::WMCore::init_support"]
    ctx.ob(prefix + ".wm-core-load-enables", wl.name + tag, loc(wl.raw["span"]), bool(blocks) and bool(oks) and must_pass_through(wl, 0, blocks, to_blocks=oks), "must-pass-through",
           "every path to Ok calls init_support(): %s" % bool(blocks))
    ib = F.body("wavelet_matrix::wm_core::WMCore::init_support")
    called = {callee_name(t).split("::")[-1] for _, t in ib.calls()}
    loop = ib.loop_blocks()
    inloop = {callee_name(t).split("::")[-1] for bi, t in ib.calls() if bi in loop}
    need = {"enable_rank", "enable_select", "enable_select_zero"}
    # each enable is reached on every iteration: from the Some arm of the iterator's next() the loop head is not reachable without it
    heads = [bi for bi, t in ib.calls() if callee_written(t) == "std::iter::Iterator::next" and bi in loop]
    every = len(heads) == 1
    if every:
        h = heads[0]
        sw = ib.blocks[ib.blocks[h]["term"]["target"]]["term"]
        some = [d for v, d in sw.get("targets", []) if int(v) == 1]
        every = len(some) == 1
        for want in need:
            cb = [bi for bi, t in ib.calls() if callee_name(t).split("::")[-1] == want]
            if every and h in ib.reach_from(some, avoid=cb):
                every = False
    ctx.ob(prefix + ".init-support-enables-all", ib.name + tag, loc(ib.raw["span"]), every and need <= inloop and any(self_path(x) == ["levels"] for _, t in ib.calls() for x in subterms(ib.term_of_operand(t["args"][0])) if t["args"]),
           "call-set", "init_support enables %s for every level of self.levels" % sorted(inloop & (need | {"enable_pred_succ"})))
    for fn in [n for n in F.bodies if n.startswith("<wavelet_matrix::wm_core::WMCore as std::convert::From<std::vec::Vec<") and n.endswith(">::from")]:
        b = F.body(fn)
        blocks = [bi for bi, t in b.calls() if callee_name(t) == "wavelet_matrix::wm_core::WMCore::init_support"]
        ctx.ob(prefix + ".wm-core-from-enables", fn + tag, loc(b.raw["span"]), bool(blocks) and must_pass_through(b, 0, blocks), "must-pass-through", "From<Vec<_>> calls init_support on every path", nontrivial=False)
        ctx.count("wm-core-from-impls" + tag)
    ctx.floor("wm-core-from-impls" + tag, 5)
    rl = F.body("<rl_vector::RLVector as serialize::Serialize>::load")
    aggs = [(bi, st) for bi, si, st in rl.stmts() if st["s"] == "assign" and st["rv"]["r"] == "agg" and st["rv"].get("def") == "rl_vector::RLVector"]
    ok = len(aggs) == 1
    detail = ""
    if ok:
        ops = dict(zip(aggs[0][1]["rv"]["fields"], aggs[0][1]["rv"]["ops"]))
        for f in ("rank_index", "select_index", "select_zero_index"):
            t = core(rl.term_of_operand(ops[f]))
            good = t[0] == "call" and t[1].startswith("rl_vector::index::SampleIndex::new")
            ok = ok and good
            detail += "%s<-%s; " % (f, tstr(t)[:50])
    ctx.ob(prefix + ".rl-load-rebuilds-indexes", rl.name + tag, loc(rl.raw["span"]), ok, "term-provenance", detail)



def abstract_quantity(F, t, env, depth=0):
    """Evaluates a term over a bitvector into the abstract domain {LEN, ONES, ('sub', a, b)}; env maps terms to symbols. None if unknown."""
    t = core(t)
    if depth > 8:
        return None
    for k, v in env:
        if core(k) == t:
            return v
    if t[0] == "bin" and t[1] == "Sub":
        a, b = abstract_quantity(F, t[2], env, depth + 1), abstract_quantity(F, t[3], env, depth + 1)
        return ("sub", a, b) if a is not None and b is not None else None
    if t[0] == "call" and len(t[2]) == 1:
        written = t[4] if len(t) > 4 else t[1]
        meth = written.split("::")[-1]
        # resolve through crate bodies whose single argument is the bitvector
        name = t[1]
        if meth == "len" and ("BitVec" in written or "BitVec" in name):
            return "LEN" if abstract_is_parent(t[2][0], env) else None
        if meth == "count_ones" and ("BitVec" in written or "BitVec" in name):
            return "ONES" if abstract_is_parent(t[2][0], env) else None
        if F.has_body(name):
            cb = F.body(name)
            inner_env = [(("param", 0, cb.local_name(1)), "PARENT")]
            if abstract_is_parent(t[2][0], env):
                return abstract_quantity(F, cb.term_of_local(0), inner_env, depth + 1)
    return None


def abstract_is_parent(t, env):
    t = core(t)
    return any(core(k) == t and v == "PARENT" for k, v in env)


def check_partial_unit_counts(ctx, F, tag, prefix="C19.R2"):
    """SelectSupport::load accepts a structure only if superblocks() == long_superblocks() + short_superblocks().  A long superblock
    holds one entry per set bit and the last one may hold fewer than SUPERBLOCK_SIZE entries (the builder pushes `limit.0 - start.0`
    of them), so the number of long superblocks is the entry count divided by SUPERBLOCK_SIZE *rounded up*; a short superblock always
    holds exactly BLOCKS_IN_SUPERBLOCK entries.  Reported only when the count is positively a truncating division of the entry count
    (any rounding-up form is accepted)."""
    name = "bit_vector::select_support::SelectSupport::<T>::long_superblocks"
    b = F.body(name)
    t = core(b.term_of_local(0))
    trunc = t[0] == "bin" and t[1] == "Div" and core(t[2])[0] == "call" and core(t[2])[1].endswith("::len") and self_path(core(t[2])[2][0]) == ["long"] and \
        core(t[3])[0] == "const"
    sb = F.body("bit_vector::select_support::SelectSupport::<T>::new")
    def borrows_field(body, o, field):
        q = operand_place(o)
        if q is None or q["p"]:
            return False
        for (bi, si, kind, rv) in body.defs().get(q["l"], []):
            if kind == "assign" and rv["r"] == "ref" and any(isinstance(e, dict) and e.get("name") == field for e in rv["p"]["p"]):
                return True
        return False
    pushes = [bi for bi, tt in sb.calls() if callee_name(tt).endswith("Push>::push") and borrows_field(sb, tt["args"][0], "long")]
    data_dependent = any(bi in sb.loop_blocks() for bi in pushes)
    sem = ""
    if not trunc and data_dependent:
        # any other spelling: compared with ceil(entries / SUPERBLOCK_SIZE) over the residues of the entry count (A13)
        import residues
        S = F.const("bit_vector::select_support::SelectSupport::<T>::SUPERBLOCK_SIZE") if hasattr(F, "const") else None
        try:
            S = int(S)
        except Exception:
            S = None
        if S:
            r_, sem = residues.agrees(F, b.term_of_local(0), lambda x: x[0] == "call" and x[1].endswith("::len") and self_path(core(x[2][0])) == ["long"],
                                      lambda N: ("bin", "Div", ("bin", "Add", N, ("const", S - 1)), ("const", S)))
            trunc = r_ is False
    ctx.ob(prefix + ".partial-unit-count-rounds-up", name + tag, loc(b.raw["span"]), not (trunc and data_dependent), "formula+builder-shape",
           "long_superblocks() = %s; the builder pushes a data-dependent number of `long` entries per superblock (loop): %s; truncating division: %s %s" % (
               tstr(t)[:80], data_dependent, trunc, sem))


def check_support_sample_counts(ctx, F, tag, prefix="C19.R2"):
    """What `RankSupport::new` returns has one sample per block on every path: BitVector::load accepts a rank support only with
    ceil(len / BLOCK_SIZE) blocks, so a constructor path that returns fewer (an early return with an empty vector for a special
    case) writes files the library cannot read back.  Per aggregate: the samples are the vector the block loop pushes into, or a
    vector created with the block count (`vec![x; blocks]`); an empty vector is accepted only behind a test that there are no blocks."""
    rb = F.body("bit_vector::rank_support::RankSupport::new")
    aggs = [(bi, st) for bi, si, st in rb.stmts() if st["s"] == "assign" and st["rv"]["r"] == "agg" and st["rv"].get("def") == "bit_vector::rank_support::RankSupport"]
    if not aggs:
        raise Undecided("anchor lost: RankSupport::new builds no RankSupport")
    import c06
    from facts import resolve_ref_local
    pushed = set()
    for bi, t in rb.calls():
        if callee_name(t).startswith("std::vec::Vec::<") and callee_name(t).endswith("::push") and bi in rb.loop_blocks():
            pushed.add(resolve_ref_local(rb, t["args"][0]))
            pushed.add(c06.root_local(rb, t["args"][0]))
    from pat import fold_consts
    for k, (bi, st) in enumerate(aggs):
        ops = dict(zip(st["rv"]["fields"], st["rv"]["ops"]))
        sv = ops.get("samples")
        t = core(rb.term_of_operand(sv))
        root = c06.root_local(rb, sv)
        verdict, how = None, "samples = %s" % tstr(t)[:70]
        direct = operand_place(sv)
        if root in pushed or (direct is not None and not direct["p"] and direct["l"] in pushed):
            verdict, how = True, "the vector the block loop pushes into"
        elif t[0] == "call" and t[1].startswith("std::vec::from_elem") and len(t[2]) == 2:
            n = core(t[2][1])
            is_blocks = any(x[0] == "const" and len(x) > 2 and x[2].endswith("::BLOCK_SIZE") for x in subterms(n)) or n[0] == "var"
            verdict, how = (True if is_blocks else None), "vec![_; %s]" % tstr(n)[:50]
        elif t[0] == "call" and t[1].startswith("std::vec::Vec::<") and t[1].split("::")[-1] in ("new",):
            fs = facts_at(rb, bi)
            from guards import fact_zero
            def about_len(x):
                return any(isinstance(y, tuple) and y and y[0] == "call" and y[1].split("::")[-1] in ("len", "is_empty") for y in subterms(x))
            empty_ok = any(f[0] == "cmp" and f[1] == "Eq" and strip_casts(f[3])[:2] == ("const", 0) and about_len(f[2]) for f in fs) or \
                any(f[0] == "bool" and f[2] is True and isinstance(f[1], tuple) and f[1][0] == "call" and f[1][1].split("::")[-1] == "is_empty" for f in fs)
            # some other test of the length (a word / block count computed from it, ..) cannot be read here: undecided; a path that
            # never looks at the length at all is the defect
            other_len_test = any(f[0] in ("cmp", "bool") and any(about_len(x) for x in f[1:] if isinstance(x, tuple)) for f in fs) or \
                any(f[0] == "cmp" and any(isinstance(x, tuple) and strip_casts(x)[0] == "var" for x in f[2:4]) for f in fs)
            verdict = True if empty_ok else (None if other_len_test else False)
            how = "an empty vector%s" % ("" if empty_ok else " on a path that is not restricted to vectors of length 0")
        ctx.ob(prefix + ".rank-samples-per-block", "bit_vector::rank_support::RankSupport::new|#%d%s" % (k, tag), loc(st["sp"]), verdict, "value-provenance", how, positive=verdict is False)


def check_validation_formulas(ctx, F, tag):
    """The block/superblock counts BitVector::load validates against are the counts the builders produce, for each support kind."""
    lb = F.body("<bit_vector::BitVector as serialize::Serialize>::load")
    L = serfmt.load_seq(lb)
    if len(L) < 2 or L[0]["payload"] is None or L[1]["payload"] is None:
        raise Undecided("BitVector::load shape")
    ones_t = lb.term_of_local(L[0]["payload"])
    data_t = lb.term_of_local(L[1]["payload"])
    env = [(ones_t, "ONES")]
    # data.len() -> LEN
    def loader_quantity(t):
        t = core(t)
        if t == core(ones_t):
            return "ONES"
        if t[0] == "call" and t[1] == "raw_vector::RawVector::len" and core(t[2][0]) == core(data_t):
            return "LEN"
        if t[0] == "bin" and t[1] == "Sub":
            a, b = loader_quantity(t[2]), loader_quantity(t[3])
            return ("sub", a, b) if a is not None and b is not None else None
        return None
    # builders
    expected = {}
    rb = F.body("bit_vector::rank_support::RankSupport::new")
    sb = F.body("bit_vector::select_support::SelectSupport::<T>::new")
    def builder_count(b, constname):
        """The (quantity, divisor) of the first ceil-division by the named size constant in the builder: (q + C - 1) / C."""
        for bi, si, st in b.stmts():
            if st["s"] == "assign" and st["rv"]["r"] == "bin" and st["rv"]["op"] == "Div":
                t = core(b.term_of_rvalue(st["rv"]))
                env_ = {}
                if m(Bin("Div", Bin("Sub", Bin("Add", Bind("q"), Bind("c")), Const(1)), Bind("c2")), t, env_) and core(env_["c"]) == core(env_["c2"]) and \
                        core(env_["c"])[0] == "const" and len(core(env_["c"])) > 2 and core(env_["c"])[2].endswith(constname):
                    return env_["q"], env_["c"]
                # or through the helper: bits::div_round_up(q, C)
        for bi, t_ in b.calls():
            if callee_name(t_) == "bits::div_round_up":
                c_ = core(b.term_of_operand(t_["args"][1]))
                if c_[0] == "const" and len(c_) > 2 and c_[2].endswith(constname):
                    return b.term_of_operand(t_["args"][0]), c_
        return None, None
    def builder_count_by_residues(b, constname, varname, what):
        """The same count written another way (`len / C + usize::from(len % C != 0)`, a shift, ..): the local of that name as a
        function of the one length-like call it contains, compared with ceil(N / C) over residues (A13)."""
        import residues
        ls = [l for l in range(len(b.locals)) if b.local_name(l) == varname]
        cs = [n for n in F.consts if n.endswith(constname) and n.startswith(b.name.rsplit("::", 1)[0].replace("::<T>", ""))] or [n for n in F.consts if n.endswith(constname)]
        if len(ls) != 1 or not cs:
            return None, None
        C = F.const(cs[0])
        t = b.term_of_local(ls[0])
        qs = [x for x in subterms(t) if x[0] == "call" and x[1].split("::")[-1] in ("len", "count_ones")]
        if not qs:
            return None, None
        q0 = core(qs[0])
        r_, why = residues.agrees(F, t, lambda x: core(x) == q0, lambda N: ("call", "usize::div_ceil", (N, ("const", C)), (), "usize::div_ceil"))
        if r_ is False:
            ctx.ob("C19.R2.builder-count-formula", b.name + tag, loc(b.raw["span"]), False, "abstract-interpretation(residues)",
                   "%s = %s against ceil(N / %d): %s" % (what, tstr(t)[:80], C, why), positive=True)
        if r_:
            return qs[0], ("const", C, cs[0])
        return None, None
    q, c = builder_count(rb, "::BLOCK_SIZE")
    if q is None:
        q, c = builder_count_by_residues(rb, "::BLOCK_SIZE", "blocks", "number of rank blocks")
    if q is None:
        raise Undecided("RankSupport::new: block count formula not recognised")
    expected["rank"] = (abstract_quantity(F, q, [(("param", 0, rb.local_name(1)), "PARENT")]), core(c)[1])
    q, c = builder_count(sb, "::SUPERBLOCK_SIZE")
    if q is None:
        q, c = builder_count_by_residues(sb, "::SUPERBLOCK_SIZE", "superblocks", "number of select superblocks")
    if q is None:
        raise Undecided("SelectSupport::new: superblock count formula not recognised")
    for trans, key in (("bit_vector::Identity", "select"), ("bit_vector::Complement", "select_zero")):
        co = F.body("<%s as bit_vector::Transformation>::count_ones" % trans)
        expected[key] = (abstract_quantity(F, co.term_of_local(0), [(("param", 0, co.local_name(1)), "PARENT")]), core(c)[1])
    # loader validations
    dru = F.body("bits::div_round_up")
    okdru = m(Bin("Div", Bin("Sub", Bin("Add", Param(0), Param(1)), Const(1)), Param(1)), dru.term_of_local(0))
    ctx.ob("C19.R2.div-round-up-formula", "bits::div_round_up" + tag, loc(dru.raw["span"]), okdru, "formula", "div_round_up(v, n) = %s (the builders' (v + n - 1) / n)" % tstr(dru.term_of_local(0)), nontrivial=False)
    found = {}
    from guards import edge_facts
    # the comparisons the loader branches on: directly (`if a != b`), or computed into a flag first (`opt.is_some_and(|v| a != b)`)
    tests = [(u, v, f) for u, v, f in edge_facts(lb)]
    for bi, si, st in lb.stmts():
        if st["s"] == "assign" and st["rv"]["r"] == "bin" and st["rv"]["op"] == "Ne" and not st["lhs"]["p"]:
            tt = lb.term_of_rvalue(st["rv"])
            tests.append((bi, bi, ("cmp", "Ne", tt[2], tt[3])))
    for u, v, f in tests:
        if f[0] == "cmp" and f[1] == "Ne":
            for x, y in ((f[2], f[3]), (f[3], f[2])):
                x0, y0 = core(x), core(y)
                if x0[0] == "call" and x0[1].split("::")[-1] in ("blocks", "superblocks") and y0[0] == "call" and y0[1] == "bits::div_round_up":
                    # which loaded option is it?
                    which = None
                    for k, fld in enumerate(OPTION_FIELDS):
                        pl_ = L[2 + k]["payload"] if len(L) > 2 + k else None
                        if pl_ is not None and any(core(z) == core(lb.term_of_local(pl_)) for z in subterms(x0)):
                            which = fld
                    cst = core(y0[2][1])
                    found[which] = (loader_quantity(y0[2][0]), cst[1] if cst[0] == "const" else None, loc(lb.blocks[u]["term"]["sp"]), v)
    for fld in OPTION_FIELDS:
        exp = expected[fld]
        got = found.get(fld)
        ok = got is not None and got[0] == exp[0] and got[1] == exp[1] and exp[0] is not None
        ctx.ob("C19.R2.validation-matches-builder", "%s%s" % (fld, tag), got[2] if got else loc(lb.raw["span"]), ok, "sibling-agreement",
               "load accepts %s support only with ceil(%s / %s) blocks; the builder produces ceil(%s / %s)" % (
                   fld, got[0] if got else "?", got[1] if got else "?", exp[0], exp[1]))
