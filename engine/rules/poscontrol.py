"""Positive controls for rules whose expected count on /repo is zero: the same detection code is run on the tiny crate
controls/pos (analysed by the same driver) and must match there, so that a rule cannot pass vacuously forever."""
import os

from facts import Facts, run_driver, Undecided, VERIF

POS = os.path.join(VERIF, "controls", "pos")
_cache = {}


def facts():
    if "f" not in _cache:
        _cache["f"] = Facts(run_driver("native", repo=POS, crate="poscontrol"))
        _cache["f"].no_inline = True      # the baseline function table describes simple-sds, not the control crate
    return _cache["f"]


class Scratch:
    """Collects obligations without touching the real context."""
    def __init__(self):
        self.obs = []
        self.counts = {}

    def ob(self, rule, key, where, ok, how="", detail="", nontrivial=True, positive=False):
        self.obs.append((rule, key, bool(ok)))
        return bool(ok)

    def site(self, key):
        pass

    def site_known(self, key):
        return True

    def exempt(self, *a):
        pass

    def note(self, *a):
        pass

    def count(self, name, n=1):
        self.counts[name] = self.counts.get(name, 0) + n

    def floor(self, *a):
        pass


def run(ctx, prop):
    F = facts()
    if prop == "C14":
        import c14
        sc = Scratch()
        c14.check_config(sc, F, "", views=False)
        partial = [o for o in sc.obs if o[0] == "C14.R2.no-partial-io" and not o[2]]
        dropped = [o for o in sc.obs if o[0] == "C14.R1.result-consumed" and not o[2] and "dropped_result" in o[1]]
        ctx.ob("C14.positive-control.partial-io", "controls/pos", "controls/pos/src/lib.rs", bool(partial), "positive-control",
               "the no-partial-io rule fires on Read::read / Write::write in the control crate: %s" % bool(partial), nontrivial=False)
        unfl = [o for o in sc.obs if o[0] == "C14.R2.buffered-writer-flushed" and not o[2]]
        ctx.ob("C14.positive-control.unflushed-bufwriter", "controls/pos", "controls/pos/src/lib.rs", bool(unfl), "positive-control",
               "the buffered-writer rule fires on the BufWriter dropped without flush in the control crate: %s" % bool(unfl), nontrivial=False)
        eda = c14.error_discarding_adaptors(F)
        ctx.ob("C14.positive-control.error-discarding-adaptor", "controls/pos", "controls/pos/src/lib.rs", any("load_all" in h[0] for h in eda) and any("write_quietly" in h[0] for h in eda),
               "positive-control", "the adaptor rule fires on flat_map over io::Result and on io::Result::ok() in the control crate: %s" % [h[:2] for h in eda][:3], nontrivial=False)
        ctx.ob("C14.positive-control.dropped-result", "controls/pos", "controls/pos/src/lib.rs", bool(dropped), "positive-control",
               "the result-consumed rule fires on `let _ = w.write_all(..)` in the control crate: %s" % bool(dropped), nontrivial=False)
    elif prop == "C07":
        import c07
        hits = c07.byte_order_calls(F)
        hits = [h for h in hits if h[0] != "reversed_bytes"] if not any(h[0] == "reversed_bytes" for h in hits) else []
        ctx.ob("C07.positive-control.byte-order", "controls/pos", "controls/pos/src/lib.rs", bool(hits), "positive-control",
               "the byte-order-conversion scan finds %s in the control crate" % hits, nontrivial=False)
    elif prop == "C08":
        import c08
        sc = Scratch()
        c08._width_cache[id(F)] = {"ok": False}
        c08.ledger(sc, F, "")
        bad = [o for o in sc.obs if o[0] == "C08.R1.unsafe-site-discharged" and not o[2] and o[1].startswith("unguarded|")]
        ctx.ob("C08.positive-control.unguarded-unsafe", "controls/pos", "controls/pos/src/lib.rs", bool(bad), "positive-control",
               "the ledger reports the unguarded get_unchecked in the control crate: %s" % bool(bad), nontrivial=False)
    elif prop == "C17":
        import c17
        hits = c17.narrow_complement_masks(F)
        ctx.ob("C17.positive-control.narrow-mask", "controls/pos", "controls/pos/src/lib.rs", any("narrow_mask" in h[0] for h in hits), "positive-control",
               "the mask-width rule fires on `n & !(u64::BITS - 1) as usize` in the control crate: %s" % hits, nontrivial=False)
    elif prop == "C10":
        import c10
        hits = c10.consumed_then_handed_on(F)
        ctx.ob("C10.positive-control.iterator-past-rejected-item", "controls/pos", "controls/pos/src/lib.rs", any("scan_and_hand_on" in h[0] for h in hits), "positive-control",
               "the rule fires on the scan loop of the control crate that returns its iterator after a rejecting break: %s" % hits, nontrivial=False)


def run_widths(ctx, prop):
    """Positive controls of the width rules W1/W2/W4/W5 (zero-count rules registered for every property)."""
    F = facts()
    if True:
        import widths
        w1, w2 = widths.scan(F)
        ctx.ob("%s.positive-control.lossy-narrowing" % prop, "controls/pos", "controls/pos/src/lib.rs", any("narrow_len" in h[0] for h in w1) and any("narrow_sum" in h[0] for h in w2),
               "positive-control", "the width rules fire on `len as u32 as u64` and `(a + 1) as usize` in the control crate: %s / %s" % (w1[:2], w2[:2]), nontrivial=False)
        w4 = widths.advisory_scan(F)
        ctx.ob("%s.positive-control.advisory-quantity" % prop, "controls/pos", "controls/pos/src/lib.rs", any("trust_hint" in h[0] for h in w4) and any("by_capacity" in h[0] for h in w4),
               "positive-control", "the advisory-quantity rule fires on `vec![false; size_hint().0]` and on a branch on capacity() in the control crate: %s" % [h[:2] for h in w4][:3], nontrivial=False)
        w6 = widths.lossy_adaptor_scan(F)
        ctx.ob("%s.positive-control.take-while-on-borrowed-iterator" % prop, "controls/pos", "controls/pos/src/lib.rs", any("groups_below" in h[0] and h[3] is True for h in w6),
               "positive-control", "the lossy-adaptor rule fires on `iter.by_ref().take_while(..)` in a loop in the control crate: %s" % [h[:2] for h in w6][:2], nontrivial=False)
        w5, _ = widths.shift_scan(F)
        ctx.ob("%s.positive-control.shift-by-width" % prop, "controls/pos", "controls/pos/src/lib.rs", any("shift_by_width" in h[0] for h in w5),
               "positive-control", "the shift-count rule fires on `1u64 << w.min(64)` in the control crate: %s" % [h[:2] for h in w5][:2], nontrivial=False)
