"""Fact loading, MIR pretty printing, CFG utilities and term reconstruction (A1).

All rules work on the JSON written by engine/mirfacts for one build configuration.
"""
import json
import os
import subprocess
import shutil
import tempfile
import time

VERIF = os.path.dirname(os.path.dirname(os.path.dirname(os.path.abspath(__file__))))
REPO = os.environ.get("VERIF_REPO", "/repo")
DRIVER = os.path.join(VERIF, "engine", "mirfacts", "target", "release", "mirfacts")

CONFIGS = {
    # name: (rustflags, description)
    "native": "-Zmir-opt-level=0 -Awarnings -C target-cpu=native",
    "portable": "-Zmir-opt-level=0 -Awarnings -C target-feature=-bmi2",
    "native-rel": "-Zmir-opt-level=0 -Awarnings -C target-cpu=native -C debug-assertions=off -C overflow-checks=off",
    "portable-rel": "-Zmir-opt-level=0 -Awarnings -C target-feature=-bmi2 -C debug-assertions=off -C overflow-checks=off",
}


class Undecided(Exception):
    """An anchor the rule needs is missing; the run is undecided (exit 2), never a violation."""


def nightly_sysroot():
    return subprocess.check_output(["rustc", "+nightly", "--print", "sysroot"], text=True).strip()


def ensure_driver():
    src = os.path.join(VERIF, "engine", "mirfacts", "src", "main.rs")
    if not os.path.exists(DRIVER) or os.path.getmtime(src) > os.path.getmtime(DRIVER):
        subprocess.check_call(
            ["cargo", "build", "--release", "--offline"],
            cwd=os.path.join(VERIF, "engine", "mirfacts"),
            env=dict(os.environ, CARGO_NET_OFFLINE="true"),
        )
    return DRIVER


def run_driver(config="native", repo=None, crate="simple_sds", extra_args=("--lib",)):
    """Runs the driver on `repo` (default /repo) in a fresh target dir; returns parsed facts."""
    repo = repo or REPO
    ensure_driver()
    tmp = tempfile.mkdtemp(prefix="mirfacts-")
    try:
        out = os.path.join(tmp, "facts.json")
        env = dict(os.environ)
        env.update(
            LD_LIBRARY_PATH=os.path.join(nightly_sysroot(), "lib"),
            RUSTFLAGS=CONFIGS[config],
            RUSTC_WORKSPACE_WRAPPER=DRIVER,
            MIRFACTS_OUT=out,
            MIRFACTS_CRATE=crate,
            CARGO_TARGET_DIR=os.path.join(tmp, "tgt"),
            CARGO_NET_OFFLINE="true",
        )
        env.pop("RUSTC_WRAPPER", None)
        t0 = time.time()
        p = subprocess.run(
            ["cargo", "+nightly", "check", "--offline", "--quiet"] + list(extra_args),
            cwd=repo, env=env, stdout=subprocess.PIPE, stderr=subprocess.STDOUT, text=True,
        )
        if p.returncode != 0 or not os.path.exists(out):
            raise Undecided("driver did not produce facts for config %s (exit %s):\n%s" % (config, p.returncode, p.stdout[-4000:]))
        with open(out) as f:
            data = json.load(f)
        data["_config"] = config
        data["_driver_wall_s"] = round(time.time() - t0, 2)
        return data
    finally:
        shutil.rmtree(tmp, ignore_errors=True)


# ---------------------------------------------------------------------------------------
# Pretty printing


def pl(p):
    s = "_%d" % p["l"]
    for e in p["p"]:
        if e == "deref":
            s = "(*%s)" % s
        elif isinstance(e, dict):
            if "f" in e:
                s = "%s.%s" % (s, e.get("name", e["f"]))
            elif "idx" in e:
                s = "%s[_%d]" % (s, e["idx"])
            elif "cidx" in e:
                s = "%s[%s%d]" % (s, "-" if e["from_end"] else "", e["cidx"])
            elif "down" in e:
                s = "(%s as %s)" % (s, e.get("name") or e["down"])
            elif "sub_from" in e:
                s = "%s[%d..%s%d]" % (s, e["sub_from"], "-" if e["from_end"] else "", e["sub_to"])
            else:
                s = "%s.?%s" % (s, e)
        else:
            s = "%s.<%s>" % (s, e)
    return s


def opnd(o):
    if "c" in o:
        return pl(o["c"])
    if "m" in o:
        return "move " + pl(o["m"])
    if "k" in o:
        k = o["k"]
        if "fn" in k:
            return "fn " + k["fn"]
        if k.get("v") is not None:
            n = "const %s" % k["v"]
            if "def" in k and "promoted" not in k:
                n += "{%s}" % k["def"]
            return n
        if "promoted" in k:
            return "promoted[%s]%s" % (k["promoted"], k.get("promoted_refs"))
        if "def" in k:
            return "const {%s}" % k["def"]
        return "const <%s>" % k.get("dbg", "?")
    return "<%s>" % o


def rval(r):
    k = r["r"]
    if k == "use":
        return opnd(r["o"])
    if k == "ref":
        return "&%s%s" % ("mut " if r["mut"] else "", pl(r["p"]))
    if k == "rawptr":
        return "&raw %s %s" % ("mut" if r["mut"] else "const", pl(r["p"]))
    if k == "cast":
        return "%s as %s (%s)" % (opnd(r["o"]), r["ty"], r["kind"])
    if k == "bin":
        return "%s(%s, %s)" % (r["op"], opnd(r["a"]), opnd(r["b"]))
    if k == "un":
        return "%s(%s)" % (r["op"], opnd(r["o"]))
    if k == "discr":
        return "discriminant(%s)" % pl(r["p"])
    if k == "agg":
        name = r.get("def", r["agg"])
        if r["agg"] == "adt":
            name = "%s::%s" % (r["def"], r["vname"])
            return "%s{%s}" % (name, ", ".join("%s: %s" % (f, opnd(o)) for f, o in zip(r["fields"], r["ops"])))
        return "%s(%s)" % (name, ", ".join(opnd(o) for o in r["ops"]))
    if k == "repeat":
        return "[%s; %s]" % (opnd(r["o"]), r["n"])
    return "<%s>" % r


def term_str(t):
    k = t["t"]
    if k == "goto":
        return "goto -> bb%d" % t["target"]
    if k == "switch":
        return "switchInt(%s) -> [%s, otherwise: bb%d]" % (
            opnd(t["discr"]), ", ".join("%s: bb%d" % (v, b) for v, b in t["targets"]), t["otherwise"])
    if k == "call":
        c = t["callee"]
        name = c.get("inst") or c.get("indirect")
        res = c.get("res", {}).get("inst")
        tgt = "bb%d" % t["target"] if t["target"] is not None else "!"
        return "%s = %s(%s) -> %s%s" % (pl(t["dest"]), name, ", ".join(opnd(a) for a in t["args"]), tgt,
                                          ("   [res: %s]" % res) if res and res != name else "")
    if k == "assert":
        return "assert(%s%s, %s(%s)) -> bb%d" % ("" if t["expected"] else "!", opnd(t["cond"]), t["kind"],
                                                  ", ".join(opnd(a) for a in t["ops"]), t["target"])
    if k == "drop":
        return "drop(%s) -> bb%d" % (pl(t["place"]), t["target"])
    return k


def print_body(b, out=None):
    lines = []
    m = b["mir"]
    lines.append("fn %s  [%s]  args=%d" % (b["def"], b["span"], m["arg_count"]))
    for i, l in enumerate(m["locals"]):
        lines.append("    let %s_%d: %s%s" % ("mut " if l["mut"] else "", i, l["ty"]["s"], ("  // " + l["name"]) if l["name"] else ""))
    for i, blk in enumerate(m["blocks"]):
        lines.append("  bb%d%s:" % (i, " (cleanup)" if blk["cleanup"] else ""))
        for st in blk["stmts"]:
            if st["s"] == "assign":
                lines.append("    %s = %s" % (pl(st["lhs"]), rval(st["rv"])))
            elif st["s"] == "setdiscr":
                lines.append("    discriminant(%s) = %d" % (pl(st["lhs"]), st["variant"]))
            else:
                lines.append("    %s" % st.get("dbg"))
        lines.append("    %s    // %s" % (term_str(blk["term"]), blk["term"]["sp"].split("/")[-1]))
    text = "\n".join(lines)
    if out is None:
        print(text)
    return text


# ---------------------------------------------------------------------------------------
# Fact database


class Facts:
    def __init__(self, data):
        import renames
        if not data.get("_renames_applied"):
            data["_renames_applied"] = True
            renames.apply_fields(data)      # ... and so is a private field
            renames.apply_consts(data)      # ... or a private constant
            renames.apply(data)             # a function that only changed its name is read under the name the rules know
            renames.apply_statics(data)     # ... or a private static (after the functions: its users are compared by name)
        self.data = data
        self.config = data.get("_config")
        self.bodies = {}
        for b in data["bodies"]:
            self.bodies.setdefault(b["def"], []).append(b)
        self.fns = {}
        for f in data["fns"]:
            self.fns.setdefault(f["def"], []).append(f)
        self.adts = {a["def"]: a for a in data["adts"]}
        self.traits = {t["def"]: t for t in data["traits"]}
        self.consts = {}
        for c in data["consts"]:
            self.consts.setdefault(c["def"], []).append(c)
        self.statics = {s["def"]: s for s in data["statics"]}
        self.impls = data["impls"]

    def body(self, def_path, span_file=None):
        bs = self.bodies.get(def_path)
        if not bs:
            raise Undecided("anchor lost: no MIR body for %s" % def_path)
        if len(bs) > 1:
            raise Undecided("ambiguous anchor: %d bodies named %s" % (len(bs), def_path))
        if not hasattr(self, "_body_cache"):
            self._body_cache = {}
        if def_path not in self._body_cache:
            import inline
            self._body_cache[def_path] = Body(inline.inline_raw(self, bs[0])[0], self)
        return self._body_cache[def_path]

    def has_body(self, def_path):
        return def_path in self.bodies

    def all_bodies(self):
        if not hasattr(self, "_all_bodies"):
            if not hasattr(self, "_body_cache"):
                self._body_cache = {}
            out = []
            import inline
            hidden = inline.absorbed(self)
            for raw in self.data["bodies"]:
                if raw["def"] in hidden:
                    continue        # a helper unknown to the rules: analysed where it is called (inlined there)
                if len(self.bodies.get(raw["def"], [])) == 1:
                    if raw["def"] not in self._body_cache:
                        self._body_cache[raw["def"]] = Body(inline.inline_raw(self, raw)[0], self)
                    out.append(self._body_cache[raw["def"]])
                else:
                    out.append(Body(raw, self))
            self._all_bodies = out
        return iter(self._all_bodies)

    def fn(self, def_path):
        fs = self.fns.get(def_path)
        if not fs:
            raise Undecided("anchor lost: no fn item %s" % def_path)
        return fs[0]

    def const(self, def_path):
        cs = self.consts.get(def_path)
        if not cs:
            raise Undecided("anchor lost: no const %s" % def_path)
        if cs[0]["value"] is None:
            raise Undecided("const %s could not be evaluated" % def_path)
        v = cs[0]["value"]
        return conv_int(v)

    def impls_of(self, trait):
        return [i for i in self.impls if i.get("trait") == trait]

    def adt(self, def_path):
        a = self.adts.get(def_path)
        if a is None:
            raise Undecided("anchor lost: no ADT %s" % def_path)
        return a

    def derives(self, adt_def, trait):
        for i in self.impls:
            if i.get("trait") == trait and i["derived"] and i["self_ty"].get("def") == adt_def:
                return True
        return False

    def manual_impl(self, adt_def, trait):
        for i in self.impls:
            if i.get("trait") == trait and not i["derived"] and i["self_ty"].get("def") == adt_def:
                return True
        return False


def conv_int(v):
    if isinstance(v, list):
        return [conv_int(x) for x in v]
    if isinstance(v, str):
        return int(v)
    return v


def loc(sp):
    """file:line from a driver span string 'file:l:c-l:c', file made relative to the repo."""
    f, l = sp.split(":")[0], sp.split(":")[1]
    return "%s:%s" % (f, l)


# ---------------------------------------------------------------------------------------
# Body wrapper: CFG, dominators, defs, terms


class Body:
    def __init__(self, raw, facts):
        self.raw = raw
        self.facts = facts
        self.name = raw["def"]
        self.mir = raw["mir"]
        self.blocks = self.mir["blocks"]
        self.locals = self.mir["locals"]
        self.nargs = self.mir["arg_count"]
        self.n = len(self.blocks)
        self._succ = None
        self._pred = None
        self._dom = None
        self._defs = None

    # --- CFG (unwind edges ignored; cleanup blocks ignored)
    def succ(self, b):
        if self._succ is None:
            self._succ = [self._compute_succ(i) for i in range(self.n)]
        return self._succ[b]

    def _compute_succ(self, i):
        t = self.blocks[i]["term"]
        k = t["t"]
        if k == "goto":
            return [t["target"]]
        if k == "switch":
            out = []
            for _, b in t["targets"]:
                if b not in out:
                    out.append(b)
            if t["otherwise"] not in out:
                out.append(t["otherwise"])
            return out
        if k in ("call", "assert", "drop"):
            return [t["target"]] if t.get("target") is not None else []
        return []

    def pred(self, b):
        if self._pred is None:
            self._pred = [[] for _ in range(self.n)]
            for i in range(self.n):
                if self.blocks[i]["cleanup"]:
                    continue
                for s in self.succ(i):
                    self._pred[s].append(i)
        return self._pred[b]

    def reachable(self):
        seen = {0}
        st = [0]
        while st:
            x = st.pop()
            for s in self.succ(x):
                if s not in seen:
                    seen.add(s)
                    st.append(s)
        return seen

    def dominators(self):
        """dom[b] = set of blocks dominating b (including b), over reachable non-cleanup blocks."""
        if self._dom is not None:
            return self._dom
        reach = self.reachable()
        order = sorted(reach)
        dom = {b: set(order) for b in order}
        dom[0] = {0}
        changed = True
        while changed:
            changed = False
            for b in order:
                if b == 0:
                    continue
                ps = [p for p in self.pred(b) if p in reach]
                if not ps:
                    continue
                new = set.intersection(*[dom[p] for p in ps]) | {b}
                if new != dom[b]:
                    dom[b] = new
                    changed = True
        self._dom = dom
        return dom

    def dominates(self, a, b):
        d = self.dominators()
        return b in d and a in d[b]

    def return_blocks(self):
        return [i for i in self.reachable() if self.blocks[i]["term"]["t"] == "return"]

    def reach_from(self, start_blocks, avoid=()):
        """Blocks reachable from start_blocks (inclusive) without entering `avoid` blocks."""
        avoid = set(avoid)
        seen = set()
        st = [b for b in start_blocks if b not in avoid]
        seen.update(st)
        while st:
            x = st.pop()
            for s in self.succ(x):
                if s not in seen and s not in avoid:
                    seen.add(s)
                    st.append(s)
        return seen

    def can_reach(self, targets):
        """Set of blocks from which some block in `targets` is reachable (inclusive)."""
        targets = set(targets)
        seen = set(targets)
        st = list(targets)
        while st:
            x = st.pop()
            for p in self.pred(x):
                if p not in seen:
                    seen.add(p)
                    st.append(p)
        return seen

    def loop_blocks(self):
        """Blocks that lie on a cycle."""
        reach = self.reachable()
        res = set()
        for b in reach:
            # b is on a cycle if b reachable from one of its successors
            seen = set()
            st = list(self.succ(b))
            while st:
                x = st.pop()
                if x == b:
                    res.add(b)
                    break
                if x in seen:
                    continue
                seen.add(x)
                st.extend(self.succ(x))
        return res

    # --- definitions
    def defs(self):
        """local -> list of (block, stmt_index or 'term', kind, payload) for whole-local assignments."""
        if self._defs is not None:
            return self._defs
        d = {}
        reach = self.reachable()
        for bi in sorted(reach):
            blk = self.blocks[bi]
            for si, st in enumerate(blk["stmts"]):
                if st["s"] == "assign":
                    lhs = st["lhs"]
                    if not lhs["p"]:
                        d.setdefault(lhs["l"], []).append((bi, si, "assign", st["rv"]))
                    elif lhs["p"][0] != "deref":
                        # a store through a dereference writes the pointee, not the local
                        d.setdefault(lhs["l"], []).append((bi, si, "partial", st))
                elif st["s"] == "setdiscr":
                    if not st["lhs"]["p"] or st["lhs"]["p"][0] != "deref":
                        d.setdefault(st["lhs"]["l"], []).append((bi, si, "partial", st))
            t = blk["term"]
            if t["t"] == "call":
                dest = t["dest"]
                if not dest["p"]:
                    d.setdefault(dest["l"], []).append((bi, "term", "call", t))
                elif dest["p"][0] != "deref":
                    d.setdefault(dest["l"], []).append((bi, "term", "partial", t))
        self._defs = d
        return d

    def local_name(self, l):
        return self.locals[l]["name"]

    def local_ty(self, l):
        return self.locals[l]["ty"]["s"]

    def calls(self):
        """Yields (block index, terminator) for every reachable call."""
        for bi in sorted(self.reachable()):
            t = self.blocks[bi]["term"]
            if t["t"] == "call":
                yield bi, t

    def stmts(self):
        for bi in sorted(self.reachable()):
            for si, st in enumerate(self.blocks[bi]["stmts"]):
                yield bi, si, st

    # --- terms (A1)
    def term_of_operand(self, o, depth=0, at=None):
        if "c" in o:
            return self.term_of_place(o["c"], depth, at)
        if "m" in o:
            return self.term_of_place(o["m"], depth, at)
        if "k" in o:
            k = o["k"]
            if "fn" in k:
                return ("fn", k["fn"])
            if "static" in k:
                return ("ref", ("static", k["static"]))
            if "bytes" in k:
                return ("ref", ("bytes", tuple(k["bytes"])))
            if "promoted" in k:
                refs = k.get("promoted_refs") or []
                if len(refs) == 1:
                    return ("constref", refs[0])
                # `&0usize`, `&SOME_SCALAR + ..`: a promoted temporary holding one literal is a reference to that literal
                raws = self.facts.bodies.get(k.get("def")) or []
                proms = (raws[0].get("promoted") or []) if len(raws) == 1 else []
                if not refs and k["promoted"] < len(proms) and depth < 30:
                    pm = proms[k["promoted"]]
                    sts = [st for blk in pm["blocks"] for st in blk["stmts"] if st["s"] == "assign"]
                    calls = [blk for blk in pm["blocks"] if blk["term"]["t"] == "call"]
                    if len(sts) == 2 and not calls and sts[0]["rv"]["r"] == "use" and "k" in sts[0]["rv"]["o"] and not sts[0]["lhs"]["p"] and \
                            sts[1]["rv"]["r"] == "ref" and sts[1]["rv"]["p"] == {"l": sts[0]["lhs"]["l"], "p": []} and sts[1]["lhs"] == {"l": 0, "p": []}:
                        return ("ref", self.term_of_operand(sts[0]["rv"]["o"], depth + 1, at))
                return ("promoted", k["def"], k["promoted"], tuple(k.get("promoted_dbg", [])))
            if k.get("v") is not None:
                v = conv_int(k["v"])
                if "def" in k:
                    return ("const", v, k["def"])
                return ("const", v)
            if "def" in k:
                return ("namedconst", k["def"])
            if k.get("zst"):
                return ("zst", k["ty"])
            return ("constdbg", k.get("dbg"), k["ty"])
        return ("unknown", str(o))

    def term_of_place(self, p, depth=0, at=None):
        base = self.term_of_local(p["l"], depth, at)
        for e in p["p"]:
            if e == "deref":
                base = strip_ref(base)
            elif isinstance(e, dict) and "f" in e:
                base = proj_field(base, e)
            elif isinstance(e, dict) and "idx" in e:
                base = ("index", base, self.term_of_local(e["idx"], depth + 1, at))
            elif isinstance(e, dict) and "cidx" in e:
                base = ("index", base, ("const", e["cidx"]))
            elif isinstance(e, dict) and "down" in e:
                vname = e.get("name") or e["down"]
                base = self.select_variant(base, vname, depth)
                base = ("downcast", base, vname) if not (isinstance(base, tuple) and base and base[0] == "adt" and base[2] == vname) else base
            else:
                base = ("proj", base, json.dumps(e, sort_keys=True))
        return base

    def variant_defs(self, l, vnames):
        """Definitions of local l that build one of the variants `vnames`, provided every definition of l builds a known variant
        (enum aggregates only, possibly through plain copies of such locals): [(block, rvalue)] or None."""
        ds = self.defs().get(l, [])
        if not ds or any(d[2] not in ("assign", "call") for d in ds):
            return None
        hit = []
        for (bi, si, kind, rv) in ds:
            if kind == "call":
                # `?` in an inlined helper: from_residual builds the Err / None of the enclosing function's return type
                if rv["callee"].get("def") == "std::ops::FromResidual::from_residual" and not (set(vnames) & {"Err", "None"}):
                    continue
                return None
            if rv["r"] == "agg" and rv.get("agg") == "adt" and rv.get("vname"):
                if rv["vname"] in vnames:
                    hit.append((bi, rv))
            elif rv["r"] == "use":
                q = operand_place(rv["o"])
                if q is None or q["p"] or q["l"] == l:
                    return None
                sub = self.variant_defs(q["l"], vnames)
                if sub is None:
                    return None
                hit.extend(sub)
            else:
                return None
        return hit

    def select_variant(self, base, vname, depth=0):
        """Reading `(x as V)` is only meaningful when x holds variant V: if x is a local all of whose definitions build known
        variants and exactly one builds V, the read sees that aggregate. `(Try::branch(x) as Continue)` is `(x as Ok | Some)`."""
        if not (isinstance(base, tuple) and base):
            return base
        want = (vname,)
        t = base
        if t[0] == "call" and t[1].endswith("::branch") and "Try" in t[1] and len(t[2]) == 1 and vname == "Continue":
            inner = t[2][0]
            if isinstance(inner, tuple) and inner and inner[0] == "var":
                hit = self.variant_defs(inner[1], ("Ok", "Some"))
                if hit is not None and len(hit) == 1:
                    rv = hit[0][1]
                    if len(rv["ops"]) == 1:
                        # Continue(payload): present it as the aggregate the projection `.0` resolves against
                        return ("adt", "std::ops::ControlFlow", "Continue", ("0",), (self.term_of_operand(rv["ops"][0], depth + 1),))
            return base
        if t[0] == "var":
            hit = self.variant_defs(t[1], want)
            if hit is not None and len(hit) == 1:
                return self.term_of_rvalue(hit[0][1], depth + 1)
        return base

    def term_of_local(self, l, depth=0, at=None):
        if depth > 40:
            return ("deep", l)
        if 1 <= l <= self.nargs:
            ds = self.defs().get(l, [])
            if not [d for d in ds if d[2] != "partial"]:
                return ("param", l - 1, self.local_name(l))
            return ("var", l, self.local_name(l))
        ds = self.defs().get(l, [])
        whole = [d for d in ds if d[2] in ("assign", "call")]
        partial = [d for d in ds if d[2] == "partial"]
        if len(whole) == 1 and not partial:
            bi, si, kind, payload = whole[0]
            if kind == "assign":
                return self.term_of_rvalue(payload, depth + 1, at)
            else:
                return self.term_of_call(payload, depth + 1, at)
        if len(whole) == 0 and partial:
            # built field by field (tuples/structs assigned piecewise)
            return ("var", l, self.local_name(l))
        return ("var", l, self.local_name(l))

    def root_defs(self, l, limit=16):
        """Root assignments (block, rvalue) of a local, following whole-local copies; None if some definition is a call result,
        a parameter or a partial store."""
        out, todo, seen = [], [l], set()
        while todo:
            l0 = todo.pop()
            if l0 in seen:
                continue
            seen.add(l0)
            if len(seen) > limit or 1 <= l0 <= self.nargs:
                return None
            ds = self.defs().get(l0, [])
            if not ds:
                return None
            for (bi, si, kind, rv) in ds:
                if kind != "assign":
                    return None
                q = (rv["o"].get("m") or rv["o"].get("c")) if rv["r"] == "use" else None
                if q is not None and not q["p"]:
                    todo.append(q["l"])
                else:
                    out.append((bi, rv))        # (a read of a field or element is a root of unknown value)
        return out

    def stored_values(self, bi, st):
        """The (block, rvalue) pairs a store statement can write: the statement's own rvalue, or -- for `*p = move tmp` with tmp
        assigned in several arms (`*p = if c { a } else { b }`) -- the root assignments of tmp."""
        rv = st["rv"]
        if rv["r"] == "use":
            q = rv["o"].get("m") or rv["o"].get("c")
            if q is not None and not q["p"]:
                roots = self.root_defs(q["l"])
                if roots:
                    return roots
        return [(bi, rv)]

    def term_of_call(self, t, depth=0, at=None):
        c = t["callee"]
        name = c.get("res", {}).get("def") if c.get("res", {}).get("is_item") else None
        name = name or c.get("def") or ("indirect:" + c.get("indirect", "?"))
        args = tuple(self.term_of_operand(a, depth + 1, at) for a in t["args"])
        return ("call", name, args, tuple(c.get("args", [])), c.get("def") or name)

    def term_of_rvalue(self, r, depth=0, at=None):
        k = r["r"]
        if k == "use":
            return self.term_of_operand(r["o"], depth, at)
        if k in ("ref", "rawptr"):
            inner = self.term_of_place(r["p"], depth, at)
            if isinstance(inner, tuple) and inner[0] == "deref":
                return inner[1]          # &*x == x (reborrow)
            return ("ref", inner)
        if k == "cast":
            inner = self.term_of_operand(r["o"], depth, at)
            if r["kind"] in ("IntToInt",):
                return ("cast", inner, r["ty"])
            if r["kind"].startswith("PointerCoercion"):
                return inner if "Unsize" in r["kind"] else ("cast", inner, r["ty"])
            return ("cast", inner, r["ty"])
        if k == "bin":
            op = r["op"]
            a = self.term_of_operand(r["a"], depth, at)
            b = self.term_of_operand(r["b"], depth, at)
            return ("bin", op, a, b)
        if k == "un":
            return ("un", r["op"], self.term_of_operand(r["o"], depth, at))
        if k == "discr":
            return ("discr", self.term_of_place(r["p"], depth, at))
        if k == "agg":
            ops = tuple(self.term_of_operand(o, depth + 1, at) for o in r["ops"])
            if r["agg"] == "adt":
                return ("adt", r["def"], r["vname"], tuple(r["fields"]), ops)
            if r["agg"] == "closure":
                return ("closure", ops, r.get("def", "?"))
            return (r["agg"], ops)
        if k == "repeat":
            return ("repeat", self.term_of_operand(r["o"], depth, at), r["n"])
        return ("rv", json.dumps(r, sort_keys=True)[:80])


def strip_ref(t):
    if isinstance(t, tuple) and t and t[0] == "ref":
        return t[1]
    return ("deref", t)


CHECKED_OPS = {"checked_sub": "Sub", "checked_add": "Add", "checked_mul": "Mul"}


def proj_field(base, e):
    name = str(e.get("name", e["f"]))
    # field of a checked-arithmetic pair
    if isinstance(base, tuple) and base[0] == "bin" and base[1].endswith("WithOverflow"):
        if e["f"] == 0:
            return ("bin", base[1][: -len("WithOverflow")], base[2], base[3])
        return ("overflowflag", base)
    if isinstance(base, tuple) and base[0] in ("tuple", "closure") and isinstance(e["f"], int) and e["f"] < len(base[1]):
        return base[1][e["f"]]
    if isinstance(base, tuple) and base[0] == "adt" and name in base[3]:
        return base[4][base[3].index(name)]
    # the payload of `a.checked_sub(b)` is a - b (likewise add / mul): where the Some arm is taken the two spellings agree
    if isinstance(base, tuple) and base[0] == "downcast" and base[2] == "Some" and name == "0":
        c = base[1]
        if isinstance(c, tuple) and c and c[0] == "call" and c[1].startswith("core::num::<impl ") and len(c[2]) == 2 and \
                c[1].split("::")[-1] in CHECKED_OPS:
            return ("bin", CHECKED_OPS[c[1].split("::")[-1]], c[2][0], c[2][1])
    # the payload of `slice.get(i)` is a reference to slice[i] (the bounds-checked spelling of the same read)
    if isinstance(base, tuple) and base[0] == "downcast" and base[2] == "Some" and name == "0":
        c = base[1]
        if isinstance(c, tuple) and c and c[0] == "call" and c[1] == "core::slice::<impl [T]>::get" and len(c[2]) == 2 and \
                len(c[3]) == 2 and c[3][1] == "usize":
            return ("ref", ("index", strip_ref(c[2][0]), c[2][1]))
    return ("field", base, name)


def tstr(t):
    """Compact human-readable rendering of a term."""
    if not isinstance(t, tuple):
        return str(t)
    if not t:
        return "()"
    k = t[0]
    if not isinstance(k, str):
        return "(%s)" % ", ".join(tstr(a) for a in t)
    if k == "param":
        return t[2] or ("arg%d" % t[1])
    if k == "var":
        return "%s@_%d" % (t[2] or "tmp", t[1])
    if k == "const":
        if len(t) > 2:
            return "%s{%s}" % (t[1], t[2].split("::")[-1])
        return str(t[1])
    if k == "namedconst" or k == "constref":
        return t[1]
    if k == "field":
        return "%s.%s" % (tstr(t[1]), t[2])
    if k == "ref":
        return "&" + tstr(t[1])
    if k == "deref":
        return "*" + tstr(t[1])
    if k == "bin":
        return "%s(%s, %s)" % (t[1], tstr(t[2]), tstr(t[3]))
    if k == "un":
        return "%s(%s)" % (t[1], tstr(t[2]))
    if k == "cast":
        return "(%s as %s)" % (tstr(t[1]), t[2])
    if k == "call":
        return "%s(%s)" % (t[1], ", ".join(tstr(a) for a in t[2]))
    if k == "adt":
        return "%s::%s{%s}" % (t[1], t[2], ", ".join("%s: %s" % (f, tstr(o)) for f, o in zip(t[3], t[4])))
    if k in ("tuple", "array", "closure"):
        return "%s(%s)" % (k, ", ".join(tstr(a) for a in t[1]))
    if k == "index":
        return "%s[%s]" % (tstr(t[1]), tstr(t[2]))
    if k == "downcast":
        return "(%s as %s)" % (tstr(t[1]), t[2])
    if k == "fn":
        return "fn " + t[1]
    return "%s(%s)" % (k, ", ".join(tstr(a) for a in t[1:]))


def subterms(t):
    """All sub-terms of a term (terms are tuples whose first element is the kind string)."""
    if not isinstance(t, tuple) or not t:
        return
    if not isinstance(t[0], str):
        for x in t:
            yield from subterms(x)
        return
    yield t
    k = t[0]
    if k == "call":
        for x in t[2]:
            yield from subterms(x)
    elif k == "adt":
        for x in t[4]:
            yield from subterms(x)
    elif k in ("bytes", "static", "fn", "const", "namedconst", "constref", "param", "var", "zst", "constdbg", "promoted"):
        return
    else:
        for x in t[1:]:
            if isinstance(x, tuple):
                yield from subterms(x)


if __name__ == "__main__":
    import sys
    path = sys.argv[1]
    pat = sys.argv[2] if len(sys.argv) > 2 else None
    data = json.load(open(path))
    for b in data["bodies"]:
        if pat is None or pat in b["def"]:
            print_body(b)
            print()


# ---------------------------------------------------------------------------------------
# Use enumeration helpers


def operand_place(o):
    return o.get("c") or o.get("m")


def rvalue_reads(r):
    """Places read and operands used by an rvalue: list of ('op', operand) / ('place', place)."""
    k = r["r"]
    if k in ("use", "cast", "un", "repeat"):
        return [("op", r["o"])]
    if k in ("ref", "rawptr", "discr"):
        return [("place", r["p"])]
    if k == "bin":
        return [("op", r["a"]), ("op", r["b"])]
    if k == "agg":
        return [("op", o) for o in r["ops"]]
    return []


def place_locals(p):
    out = [p["l"]]
    for e in p["p"]:
        if isinstance(e, dict) and "idx" in e:
            out.append(e["idx"])
    return out


def reads_of_stmt(st):
    """Locals read by a statement (including the base of a projected lhs)."""
    out = []
    if st["s"] == "assign":
        for kind, x in rvalue_reads(st["rv"]):
            p = operand_place(x) if kind == "op" else x
            if p:
                out.extend(place_locals(p))
        if st["lhs"]["p"]:
            out.extend(place_locals(st["lhs"]))
    return out


def reads_of_term(t):
    out = []
    k = t["t"]
    if k == "call":
        for a in t["args"]:
            p = operand_place(a)
            if p:
                out.extend(place_locals(p))
        if t["dest"]["p"]:
            out.extend(place_locals(t["dest"]))
    elif k == "switch":
        p = operand_place(t["discr"])
        if p:
            out.extend(place_locals(p))
    elif k == "assert":
        for o in [t["cond"]] + t["ops"]:
            p = operand_place(o)
            if p:
                out.extend(place_locals(p))
    elif k == "drop":
        out.extend(place_locals(t["place"]))
    return out


def callee_name(t):
    """Resolved def path of a call terminator (the impl item if resolution succeeded)."""
    c = t["callee"]
    r = c.get("res")
    if r and r.get("is_item"):
        return r["def"]
    return c.get("def") or ("indirect:" + c.get("indirect", "?"))


def callee_written(t):
    return t["callee"].get("def") or ("indirect:" + t["callee"].get("indirect", "?"))


def resolve_ref_local(b, o, limit=12):
    """If operand `o` is (a copy/reborrow of) `&[mut] _k` for a plain local _k, returns k, else None."""
    p = operand_place(o)
    while p is not None and limit > 0:
        limit -= 1
        if p["p"] and p["p"] != ["deref"]:
            return None
        l = p["l"]
        ds = [d for d in b.defs().get(l, []) if d[2] in ("assign", "call")]
        if len(ds) != 1 or ds[0][2] != "assign" or len(b.defs().get(l, [])) != 1:
            return None
        rv = ds[0][3]
        if rv["r"] in ("ref", "rawptr"):
            q = rv["p"]
            if not q["p"]:
                return q["l"]
            if q["p"] == ["deref"]:
                p = {"l": q["l"], "p": []}
                continue
            return None
        if rv["r"] == "use":
            p = operand_place(rv["o"])
            continue
        return None
    return None
