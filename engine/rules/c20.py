"""C20 -- temporary file names are unique within a process under concurrent use.

Complete static argument (DESIGN.md section 4, C20):
 R1 the counter is a non-mut static atomic, used only in temp_file_name, only through one
    fetch_add with a non-zero constant, executed exactly once per call;
 R2 the fetch_add result and the caller's name part are arguments of the format template
    whose String is the single push onto the returned buffer;
 R3 the template makes the counter uniquely decodable (digit-only, delimited by non-digits).
"""
from pat import core
from facts import Undecided, loc, subterms, tstr, reads_of_stmt, reads_of_term, callee_name, operand_place, resolve_ref_local

COUNTER = "serialize::TEMP_FILE_COUNTER"
FUNC = "serialize::temp_file_name"

META = {
    "level": "proof",
    "explanation": "All uses of the static counter in the crate are enumerated from MIR constants that point at it; the single "
                   "fetch_add call is shown to be executed exactly once per call (dominates every return, not on a cycle), its "
                   "result and the name_part parameter are resolved through the fmt::Arguments template and argument array into "
                   "the String that is the only push onto the returned PathBuf; the template bytes are decoded and the counter "
                   "placeholder is shown uniquely decodable. Every obligation must be discharged; the argument is complete modulo "
                   "the trusted base.",
    "trusted_base": [
        "Atomic::fetch_add is an atomic read-modify-write: two calls never return the same value before 2^64 calls",
        "Display for unsigned integers is injective and emits decimal digits only; default format options add no padding",
        "std::fmt::format renders the template pieces and arguments in order; PathBuf::push appends a relative component",
        "rustc's MIR and constant evaluation faithfully represent the source",
    ],
    "assumptions": ["fewer than 2^64 temp_file_name calls per process"],
}

UINTS = {"u8", "u16", "u32", "u64", "u128", "usize"}


def decode_template(bs):
    """Decodes core::fmt template bytes into [('lit', str) | ('ph', {opts})]. Raises on unknown shape."""
    out = []
    i = 0
    n = len(bs)
    while i < n:
        b = bs[i]
        if b == 0 and i == n - 1:
            return out
        if b & 0xC0 == 0xC0:
            flags = b & 0x3F
            i += 1
            opts = {"raw": b}
            if flags & 1:
                opts["flags"] = int.from_bytes(bytes(bs[i:i + 4]), "little"); i += 4
            if flags & 2:
                opts["width"] = int.from_bytes(bytes(bs[i:i + 2]), "little"); i += 2
            if flags & 4:
                opts["precision"] = int.from_bytes(bytes(bs[i:i + 2]), "little"); i += 2
            if flags & 8:
                opts["arg_index"] = int.from_bytes(bytes(bs[i:i + 2]), "little"); i += 2
            out.append(("ph", opts))
        elif b == 0x80:
            ln = int.from_bytes(bytes(bs[i + 1:i + 3]), "little")
            out.append(("lit", bytes(bs[i + 3:i + 3 + ln]).decode("utf-8")))
            i += 3 + ln
        elif b < 0x80:
            out.append(("lit", bytes(bs[i + 1:i + 1 + b]).decode("utf-8")))
            i += 1 + b
        else:
            raise Undecided("unknown fmt template byte %#x" % b)
    raise Undecided("fmt template without terminator")


def is_counter_ref(t):
    while isinstance(t, tuple) and t and t[0] in ("ref", "deref"):
        t = t[1]
    return t == ("static", COUNTER)


def check(ctx):
    configs = ["native"] if ctx.tier == "quick" else ["native", "portable", "native-rel", "portable-rel"]
    for cfg in configs:
        check_config(ctx, ctx.facts(cfg), cfg)


def check_callers_pass_name_verbatim(ctx, F, tag):
    """"The returned path contains the caller's name part": the library's own callers of temp_file_name (the `serialize::test`
    helper, which hands the path back when asked to keep the file) pass the name they were given, not something computed from it."""
    for b in F.all_bodies():
        if "::tests::" in b.name or b.name == FUNC or b.name.startswith("internal::"):
            continue
        for bi, t in b.calls():
            if callee_name(t) != FUNC:
                continue
            a = core(b.term_of_operand(t["args"][0]))
            verbatim = a[0] in ("param", "const", "bytes", "constref", "promoted") or (a[0] == "ref" and core(a[1])[0] in ("const", "bytes", "static"))
            ctx.ob("C20.R2.caller-passes-name-verbatim", b.name + tag, loc(t["sp"]), verbatim, "term-shape",
                   "temp_file_name(%s): the name part is the caller's own parameter or a literal: %s" % (tstr(a)[:60], verbatim))


def positive_identifications(ctx, F, tag):
    """Two shapes that break the property outright, recognised before the complete argument is attempted (which would only lose its
    anchors on them): the number in the name drawn from thread-local state, and the caller's name part rewritten after insertion."""
    if not F.has_body(FUNC):
        return False
    b = F.body(FUNC)
    where = loc(b.raw["span"])
    found = False
    tls = [(bi, t) for bi, t in b.calls() if callee_name(t).startswith("std::thread::LocalKey::<") and callee_name(t).split("::")[-1] in ("with", "try_with", "get", "set", "replace", "take")]
    rmw = [(bi, t) for bi, t in b.calls() if callee_name(t).split("::")[-1].startswith("fetch_") and "atomic" in callee_name(t)]
    tid = [(bi, t) for bi, t in b.calls() if callee_name(t) in ("std::thread::current", "std::thread::Thread::id")]
    # ... unless a process-wide atomic feeds the thread-local state itself (a per-thread tag drawn once from a global counter in the
    # thread-local's initialiser): then the scheme may well be unique, and the complete argument below simply does not apply
    feeders = []
    for nm in F.bodies:          # (every body, also the helpers the normaliser hides: a thread-local's initialiser is one)
        if nm != FUNC and nm.startswith("serialize::") and len(F.bodies[nm]) == 1:
            for blk in F.bodies[nm][0]["mir"]["blocks"]:
                tt = blk["term"]
                if tt["t"] == "call" and callee_name(tt).split("::")[-1].startswith("fetch_") and "atomic" in callee_name(tt):
                    feeders.append(nm)
    if tls and not rmw and not tid and not feeders:
        ctx.ob("C20.R1.counter-is-process-wide", FUNC + tag, loc(tls[0][1]["sp"]), False, "value-provenance",
               "the number in the name is drawn from thread-local state (%s) and no process-wide atomic read-modify-write or ThreadId enters the name: "
               "two threads -- or a thread that inherits an exited thread's storage -- can draw the same number" % callee_name(tls[0][1]).split("<")[0], positive=True)
        found = True
    for bi, t in b.calls():
        cn = callee_name(t)
        if cn.split("::")[-1] in ("replace", "replacen", "replace_range") and (cn.startswith("std::str::") or cn.startswith("alloc::str::") or "str>::" in cn or "String" in cn or "str::<impl str>" in cn):
            recv = b.term_of_operand(t["args"][0])
            if any(x[0] == "param" and x[1] == 0 for x in subterms(recv) if isinstance(x, tuple) and x):
                ctx.ob("C20.R2.name-part-verbatim", "%s#%d%s" % (FUNC, bi, tag), loc(t["sp"]), False, "value-provenance",
                       "text that already contains the caller's name part is passed through %s: a name part containing the pattern is rewritten, so the returned path "
                       "no longer contains it" % cn.split("::")[-1], positive=True)
                found = True
    return found


def check_config(ctx, F, cfg):
    check_callers_pass_name_verbatim(ctx, F, "" if cfg == "native" else "@" + cfg)
    if positive_identifications(ctx, F, "" if cfg == "native" else "@" + cfg):
        return
    st = F.statics.get(COUNTER)
    if st is None:
        raise Undecided("anchor lost: static %s" % COUNTER)
    where = loc(st["span"])
    tag = "" if cfg == "native" else "@" + cfg
    ty = st["ty"]
    is_atomic = ty.get("def") in ("std::sync::atomic::Atomic",) and ty.get("args") and ty["args"][0] in UINTS
    wide = bool(ty.get("args")) and ty["args"][0] in ("usize", "u64", "u128")
    ctx.ob("C20.R1.counter-cannot-wrap", COUNTER + tag, where, wide, "item-structure",
           "counter type %s: fetch_add wraps silently, so the counter must be at least 64 bits wide for its values to be distinct within a process" % ty["s"])
    ctx.ob("C20.R1.static-atomic", COUNTER + tag, where, (not st["mut"]) and is_atomic, "item-structure",
           "static %s: mut=%s type=%s; must be a non-mut atomic unsigned integer" % (COUNTER, st["mut"], ty["s"]))

    # who may access: every MIR constant pointing at the static, crate-wide
    users = {}
    for b in F.all_bodies():
        for bi, si, s in b.stmts():
            if s["s"] == "assign":
                for t in subterms(b.term_of_rvalue(s["rv"])):
                    if t == ("static", COUNTER):
                        users.setdefault(b.name, []).append((bi, si))
        for bi, t in b.calls():
            for a in t["args"]:
                for x in subterms(b.term_of_operand(a)):
                    if x == ("static", COUNTER):
                        users.setdefault(b.name, []).append((bi, "term"))
    ctx.count("bodies-scanned-for-counter-uses" + tag, len(F.data["bodies"]))
    ctx.ob("C20.R1.who-may-access", COUNTER + tag, where, set(users.keys()) == {FUNC}, "who-may-access",
           "functions whose MIR refers to the counter: %s (must be exactly %s)" % (sorted(users.keys()), FUNC))
    if FUNC not in users:
        raise Undecided("anchor lost: %s does not use the counter" % FUNC)

    b = F.body(FUNC)
    # locals that hold (a reference to) the static
    holds = set()
    changed = True
    while changed:
        changed = False
        for l in range(len(b.locals)):
            if l in holds:
                continue
            t = b.term_of_local(l)
            while isinstance(t, tuple) and t[0] in ("ref", "deref"):
                t = t[1]
            if t == ("static", COUNTER):
                holds.add(l)
                changed = True
    # every read of such a local is a copy into another holder or arg 0 of fetch_add
    rmw_calls = []
    bad_uses = []
    for bi, si, s in b.stmts():
        rd = [l for l in reads_of_stmt(s) if l in holds]
        if rd:
            lhs = s["lhs"]
            if not (s["s"] == "assign" and not lhs["p"] and lhs["l"] in holds):
                bad_uses.append("bb%d[%s]" % (bi, si))
    for bi, t in b.calls():
        rd = [l for l in reads_of_term(t) if l in holds]
        # direct constant argument
        direct = any(is_counter_ref(b.term_of_operand(a)) for a in t["args"])
        if rd or direct:
            name = callee_name(t)
            a0 = b.term_of_operand(t["args"][0]) if t["args"] else None
            if name.endswith("::fetch_add") and "atomic" in name and a0 is not None and \
                    is_counter_ref(a0) and \
                    not any(is_counter_ref(b.term_of_operand(a)) for a in t["args"][1:]):
                rmw_calls.append((bi, t))
            else:
                bad_uses.append("call %s at bb%d" % (name, bi))
    fwhere = loc(b.raw["span"])
    ctx.ob("C20.R1.only-rmw", FUNC + tag, fwhere, not bad_uses and len(rmw_calls) == 1, "use-enumeration",
           "uses of the counter other than one atomic fetch_add: %s; fetch_add call sites: %d" % (bad_uses, len(rmw_calls)))
    if len(rmw_calls) != 1:
        return
    bi, call = rmw_calls[0]
    cwhere = loc(call["sp"])
    inc = b.term_of_operand(call["args"][1])
    ctx.ob("C20.R1.nonzero-increment", FUNC + tag, cwhere, inc[0] == "const" and isinstance(inc[1], int) and inc[1] != 0,
           "constant", "fetch_add increment term: %s (must be a non-zero constant)" % tstr(inc))
    rets = b.return_blocks()
    once = all(b.dominates(bi, r) for r in rets) and bi not in b.loop_blocks() and len(rets) >= 1
    ctx.ob("C20.R1.exactly-once", FUNC + tag, cwhere, once, "dominance",
           "fetch_add block bb%d dominates all %d return blocks and is not on a cycle" % (bi, len(rets)))
    dest = call["dest"]
    if dest["p"]:
        raise Undecided("fetch_add result stored into a projection")
    count_local = dest["l"]
    # the value that goes into the name is the value the atomic read-modify-write returned: the local receiving it (and every
    # local it is copied into) is never assigned again -- a later `count += 1` makes two calls able to reach the same number
    carried = {count_local}
    redefined = []
    changed = True
    while changed:
        changed = False
        for bj, sj, st in b.stmts():
            if st["s"] == "assign" and not st["lhs"]["p"] and st["rv"]["r"] in ("use", "cast"):
                q = operand_place(st["rv"]["o"])
                if q is not None and not q["p"] and q["l"] in carried and st["lhs"]["l"] not in carried:
                    carried.add(st["lhs"]["l"])
                    changed = True
    for l in sorted(carried):
        ds = b.defs().get(l, [])
        extra = [d for d in ds if not (d[2] == "call" and l == count_local and d[0] == bi) and
                 not (d[2] == "assign" and d[3]["r"] in ("use", "cast") and (operand_place(d[3]["o"]) or {}).get("l") in carried)]
        if extra:
            redefined.append("_%d (%s) at %s" % (l, b.local_name(l), [loc(b.blocks[d[0]]["term"]["sp"]) if d[1] == "term" else loc(b.blocks[d[0]]["stmts"][d[1]]["sp"]) for d in extra][:2]))
    ctx.ob("C20.R1.counter-value-unmodified", FUNC + tag, cwhere, not redefined, "def-enumeration",
           "locals holding the fetch_add result that are assigned again: %s" % redefined)
    if redefined:
        return

    # R2/R3: find Arguments::new, its template and argument array
    fmt_calls = [(i, t) for i, t in b.calls() if callee_name(t).startswith("std::fmt::Arguments::<'_>::new") or
                 callee_name(t) == "std::fmt::Arguments::new" or callee_name(t).startswith("core::fmt::Arguments")]
    fmt_calls = [(i, t) for i, t in b.calls() if callee_name(t).split("::<")[0] in ("std::fmt::Arguments", "core::fmt::Arguments")
                 or callee_name(t) in ("std::fmt::Arguments::new", "core::fmt::Arguments::new")] or fmt_calls
    if len(fmt_calls) != 1:
        raise Undecided("expected exactly one fmt::Arguments::new call in %s, found %d" % (FUNC, len(fmt_calls)))
    fbi, fcall = fmt_calls[0]
    tmpl = b.term_of_operand(fcall["args"][0])
    bs = None
    for x in subterms(tmpl):
        if x[0] == "bytes":
            bs = x[1]
    if bs is None:
        raise Undecided("format template bytes not found: %s" % tstr(tmpl))
    parts = decode_template(list(bs))
    argarr = b.term_of_operand(fcall["args"][1])
    arr = None
    for x in subterms(argarr):
        if x[0] == "array":
            arr = x[1]
            break
    if arr is None:
        raise Undecided("format argument array not found: %s" % tstr(argarr))
    # classify each argument
    args = []
    for a in arr:
        if a[0] != "call":
            raise Undecided("format argument is not an Argument::new_* call: %s" % tstr(a))
        name = a[1]
        kind = name.split("::")[-1]
        gen = a[3][-1] if a[3] else "?"
        src = a[2][0]
        what = "other"
        core_t = src
        while isinstance(core_t, tuple) and core_t and core_t[0] in ("ref", "deref"):
            core_t = core_t[1]
        if core_t[0] == "param" and core_t[1] == 0:
            what = "name_part"
        elif core_t[0] == "var" and core_t[1] == count_local:
            what = "counter"
        elif core_t[0] == "call" and core_t[1] == "std::process::id":
            what = "pid"
        elif core_t[0] == "call" and core_t[1].endswith("::fetch_add") and core_t[2] and is_counter_ref(core_t[2][0]):
            # the counter local is assigned once by the call -> its term is the call itself
            what = "counter"
        args.append({"fmt": kind, "ty": gen, "what": what})
    # bind placeholders to arguments
    seq = []
    nxt = 0
    for kind, v in parts:
        if kind == "lit":
            seq.append(("lit", v))
        else:
            idx = v.get("arg_index", nxt)
            nxt = idx + 1
            if idx >= len(args):
                raise Undecided("placeholder index out of range")
            seq.append(("ph", args[idx], v))
    phs = [x for x in seq if x[0] == "ph"]
    ci = [i for i, x in enumerate(seq) if x[0] == "ph" and x[1]["what"] == "counter"]
    ni = [i for i, x in enumerate(seq) if x[0] == "ph" and x[1]["what"] == "name_part"]
    rendered = "".join(("{%s}" % x[1]["what"]) if x[0] == "ph" else x[1] for x in seq)
    ctx.note("temp_file_name template%s: %s" % (tag, rendered))
    ctx.ob("C20.R2.counter-in-name", FUNC + tag, loc(fcall["sp"]), len(ci) >= 1, "term-provenance",
           "template %r binds the fetch_add result to a placeholder" % rendered)
    ctx.ob("C20.R2.name-part-in-name", FUNC + tag, loc(fcall["sp"]),
           len(ni) >= 1 and all(seq[i][1]["fmt"] == "new_display" and set(seq[i][2].keys()) == {"raw"} for i in ni), "term-provenance",
           "template %r displays the name_part parameter with default options" % rendered)

    def digit_only(x):
        return x[0] == "ph" and x[1]["fmt"] == "new_display" and x[1]["ty"] in UINTS and set(x[2].keys()) == {"raw"}

    def nodigit_lit(x):
        return x[0] == "lit" and len(x[1]) > 0 and not x[1][0].isdigit() and not x[1][-1].isdigit()

    ok3 = False
    why = "counter placeholder missing"
    if ci:
        c = ci[0]
        cnt_ok = digit_only(seq[c])
        # decodable from the right: everything after c alternates literal/digit-only placeholders, literals delimit
        right = cnt_ok
        j = c + 1
        while right and j < len(seq):
            if seq[j][0] == "ph":
                right = digit_only(seq[j]) and seq[j - 1][0] == "lit"
            else:
                last = j == len(seq) - 1
                right = (not seq[j][1][0].isdigit()) and (last or not seq[j][1][-1].isdigit()) if seq[j][1] else False
            j += 1
        right = right and (c == 0 or (seq[c - 1][0] == "lit" and seq[c - 1][1] and not seq[c - 1][1][-1].isdigit()))
        left = cnt_ok
        j = c - 1
        while left and j >= 0:
            if seq[j][0] == "ph":
                left = digit_only(seq[j]) and seq[j + 1][0] == "lit"
            else:
                first = j == 0
                left = (not seq[j][1][-1].isdigit()) and (first or not seq[j][1][0].isdigit()) if seq[j][1] else False
            j -= 1
        left = left and (c == len(seq) - 1 or (seq[c + 1][0] == "lit" and seq[c + 1][1] and not seq[c + 1][1][0].isdigit()))
        ok3 = right or left
        why = "counter digit-only=%s, decodable-from-right=%s, decodable-from-left=%s" % (cnt_ok, right, left)
    ctx.ob("C20.R3.counter-decodable", FUNC + tag, loc(fcall["sp"]), ok3, "template-decoding",
           "template %r: %s" % (rendered, why))

    # the formatted String is the single push on the returned buffer
    fdest = fcall["dest"]["l"]
    flows = {fdest}
    changed = True
    while changed:
        changed = False
        for bi2, si, s in b.stmts():
            if s["s"] == "assign" and not s["lhs"]["p"] and s["lhs"]["l"] not in flows:
                if any(l in flows for l in reads_of_stmt(s)):
                    flows.add(s["lhs"]["l"]); changed = True
        for bi2, t in b.calls():
            nm = callee_name(t)
            if nm in ("std::fmt::format", "alloc::fmt::format", "std::hint::must_use", "core::hint::must_use") and not t["dest"]["p"]:
                if any(l in flows for l in reads_of_term(t)) and t["dest"]["l"] not in flows:
                    flows.add(t["dest"]["l"]); changed = True
    ret_t = b.term_of_local(0)
    # the returned local: _0 = move buf
    buf = None
    ds = [d for d in b.defs().get(0, []) if d[2] == "assign"]
    if len(ds) == 1 and ds[0][3]["r"] == "use" and operand_place(ds[0][3]["o"]) and not operand_place(ds[0][3]["o"])["p"]:
        buf = operand_place(ds[0][3]["o"])["l"]
    if buf is None:
        raise Undecided("returned value is not a moved local buffer: %s" % tstr(ret_t))
    mut_calls = []
    for bi2, t in b.calls():
        for ai, a in enumerate(t["args"]):
            if resolve_ref_local(b, a) == buf:
                mut_calls.append((bi2, t, ai))
    pushes = [(i, t, ai) for i, t, ai in mut_calls if callee_name(t).startswith("std::path::PathBuf::push") and ai == 0]
    ok_push = len(mut_calls) == 1 and len(pushes) == 1
    detail = "calls borrowing the returned buffer: %s" % [callee_name(t) for _, t, _ in mut_calls]
    if ok_push:
        pi, pt, _ = pushes[0]
        a1 = operand_place(pt["args"][1])
        ok_push = a1 is not None and a1["l"] in flows and all(b.dominates(pi, r) for r in rets) and pi not in b.loop_blocks() \
            and b.dominates(fbi, pi) and b.dominates(bi, fbi)
        detail += "; push argument is the formatted string: %s; fetch_add -> format -> push dominate the return" % (a1 is not None and a1["l"] in flows)
    ctx.ob("C20.R2.single-push-of-formatted-name", FUNC + tag, fwhere, ok_push, "dataflow+dominance", detail)
    # the formatted String reaches push unmodified: nothing borrows it mutably or stores into it on the way
    tampered = []
    for bi2, t in b.calls():
        for a in t["args"]:
            r = resolve_ref_local(b, a)
            if r is not None and r in flows and r != buf:
                q = operand_place(a)
                if q is not None and b.local_ty(q["l"]).startswith("&mut"):
                    tampered.append(callee_name(t))
    for bi2, si, s_ in b.stmts():
        if s_["s"] == "assign" and s_["lhs"]["p"] and s_["lhs"]["l"] in flows:
            tampered.append("store into the formatted string")
    ctx.ob("C20.R2.name-not-modified-after-format", FUNC + tag, fwhere, not tampered, "use-enumeration",
           "mutable uses of the formatted name between format! and push: %s" % tampered)
    ctx.count("counter-use-sites" + tag, len(users.get(FUNC, [])))
    ctx.floor("counter-use-sites" + tag, 1)
    check_single_numbering(ctx, F, tag, bytes(bs))


def check_single_numbering(ctx, F, tag, template):
    """"No two calls in one process receive the same path" is carried by ONE numbering. A second function that also names files by
    process id and a number drawn from a different static counter numbers independently: when it renders them through the same
    template, the two functions hand out the same file name as soon as both counters pass the same value (refuted); with another
    template whether the names can coincide depends on the text around them (undecided). No such function on the pinned tree."""
    n = 0
    for b in F.all_bodies():
        if "::tests::" in b.name or b.name == FUNC or b.name.startswith("internal::"):
            continue
        n += 1
        calls = list(b.calls())
        if not any(callee_name(t) == "std::process::id" for _, t in calls):
            continue
        other = []
        for bi, t in calls:
            nm = callee_name(t)
            if nm.split("::")[-1].startswith("fetch_") and "atomic" in nm and t["args"]:
                a0 = b.term_of_operand(t["args"][0])
                st = [x[1] for x in subterms(a0) if isinstance(x, tuple) and x and x[0] == "static"]
                if st and st[0] != COUNTER:
                    other.append((t, st[0]))
        if not other:
            continue
        same = False
        for bi, t in calls:
            if callee_name(t).split("::<")[0] in ("std::fmt::Arguments", "core::fmt::Arguments") and t["args"]:
                for x in subterms(b.term_of_operand(t["args"][0])):
                    if x[0] == "bytes" and bytes(x[1]) == template:
                        same = True
        t, st = other[0]
        ctx.ob("C20.R1.single-numbering", b.name + tag, loc(t["sp"]), False if same else None, "who-may-number",
               "%s names by process id and a number drawn from %s, not from %s%s" % (
                   b.name, st, COUNTER, ": through the template of temp_file_name -- equal counter values give equal file names" if same else
                   "; whether its names can coincide with those of temp_file_name depends on the text around them"), positive=same)
    ctx.count("bodies-scanned-for-second-numbering" + tag, n)
