"""Tiny term pattern matcher used by the structural rules."""


class Bind:
    def __init__(self, name):
        self.name = name


class _Any:
    pass


ANY = _Any()


class Call:
    """Matches ('call', name, args, ...) where name == self.name or self.name(name) is true; args matched loosely (refs/casts stripped)."""
    def __init__(self, name, *args):
        self.name = name
        self.args = args


class Bin:
    def __init__(self, op, a, b, commutative=None):
        self.op = op
        self.a = a
        self.b = b
        self.comm = commutative if commutative is not None else op in ("Add", "Mul", "BitAnd", "BitOr", "BitXor", "Eq", "Ne")


class Const:
    def __init__(self, value=None, name=None):
        self.value = value
        self.name = name


class Param:
    def __init__(self, index):
        self.index = index


class Or:
    """Matches if any alternative matches."""
    def __init__(self, *alts):
        self.alts = alts


class SelfField:
    """field path of *self, e.g. SelfField('len')"""
    def __init__(self, *path):
        self.path = list(path)


def core(t):
    while isinstance(t, tuple) and t and t[0] in ("ref", "deref", "cast"):
        t = t[1]
    return t


def fold_consts(t):
    """The term with operations on two literal operands evaluated (`64 - 1` -> 63): spelling `(n + (W - 1)) / W` for
    `(n + W - 1) / W` changes when the addition overflows, not what a formula rule is about."""
    if not isinstance(t, tuple) or not t:
        return t
    if t[0] == "bin":
        a, b = fold_consts(t[2]), fold_consts(t[3])
        ca, cb = core(a), core(b)
        if ca[0] == "const" and cb[0] == "const" and isinstance(ca[1], int) and isinstance(cb[1], int):
            x, y = ca[1], cb[1]
            try:
                v = {"Add": x + y, "Sub": x - y, "Mul": x * y, "Div": x // y if y else None, "Shl": x << y if 0 <= y < 128 else None,
                     "Shr": x >> y if 0 <= y < 128 else None, "BitAnd": x & y, "BitOr": x | y}.get(t[1])
            except Exception:
                v = None
            if v is not None and v >= 0:
                return ("const", v)
        return ("bin", t[1], a, b)
    if t[0] in ("cast", "ref", "deref"):
        return (t[0], fold_consts(t[1])) + t[2:]
    if t[0] == "call":
        return (t[0], t[1], tuple(fold_consts(x) for x in t[2])) + t[3:]
    return t


def self_path(t):
    path = []
    while isinstance(t, tuple) and t:
        if t[0] in ("ref", "deref", "cast"):
            t = t[1]
        elif t[0] == "field":
            path.append(t[2])
            t = t[1]
        else:
            break
    if isinstance(t, tuple) and t and t[0] == "param" and t[1] == 0:
        return list(reversed(path))
    return None


def m(p, t, env=None):
    if env is None:
        env = {}
    if p is ANY:
        return True
    if isinstance(p, Bind):
        t = core(t)
        if p.name in env:
            return core(env[p.name]) == t
        env[p.name] = t
        return True
    if isinstance(p, Or):
        for a in p.alts:
            e = dict(env)
            if m(a, t, e):
                env.update(e)
                return True
        return False
    t = core(t)
    if isinstance(p, Call):
        if not (isinstance(t, tuple) and t and t[0] == "call"):
            return False
        names = (t[1], t[4] if len(t) > 4 else t[1])
        if callable(p.name):
            if not any(p.name(n) for n in names):
                return False
        elif p.name not in names:
            return False
        if len(p.args) != len(t[2]):
            return False
        return all(m(pa, ta, env) for pa, ta in zip(p.args, t[2]))
    if isinstance(p, Bin):
        if not (isinstance(t, tuple) and t and t[0] == "bin" and t[1] == p.op):
            return False
        e1 = dict(env)
        if m(p.a, t[2], e1) and m(p.b, t[3], e1):
            env.update(e1)
            return True
        if p.comm:
            e2 = dict(env)
            if m(p.a, t[3], e2) and m(p.b, t[2], e2):
                env.update(e2)
                return True
        return False
    if isinstance(p, Const):
        if not (isinstance(t, tuple) and t and t[0] == "const"):
            return False
        if p.value is not None and t[1] != p.value:
            return False
        if p.name is not None and (len(t) < 3 or t[2] != p.name):
            return False
        return True
    if isinstance(p, Param):
        return isinstance(t, tuple) and t and t[0] == "param" and t[1] == p.index
    if isinstance(p, SelfField):
        return self_path(t) == p.path
    if isinstance(p, tuple):
        if not isinstance(t, tuple) or len(p) != len(t):
            return False
        return all(m(pp, tt, env) if not isinstance(pp, (str, int)) or isinstance(pp, bool) else pp == tt for pp, tt in zip(p, t))
    return p == t
