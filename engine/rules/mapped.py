"""Memory-mapped views: guard-before-touch (C13.R1 / C14.R4 / C08.R6) and the formulas C13.R2-R3 compare."""
from facts import Undecided, loc, tstr, callee_name, callee_written, subterms, operand_place
from guards import facts_at, strip_casts, edge_facts

TRAIT = "serialize::MemoryMapped"
ASREF = "<serialize::MemoryMap as std::convert::AsRef<[u64]>>::as_ref"
MAPLEN = "serialize::MemoryMap::len"
FLOOR_VIEWS = 6


def desat(t):
    """saturating_add(x, c) < L <= usize::MAX implies no saturation happened, so for upper-bound reasoning it is x + c."""
    t = strip_casts(t)
    if t[0] == "call" and t[1].endswith("::saturating_add") and "core::num::" in t[1] and len(t[2]) == 2:
        return ("bin", "Add", t[2][0], t[2][1])
    return t


def lin(t):
    """(base, constant) decomposition of `base + c`."""
    t = desat(t)
    if t[0] == "const" and isinstance(t[1], int):
        return None, t[1]
    if t[0] == "bin" and t[1] == "Add":
        for x, y in ((t[2], t[3]), (t[3], t[2])):
            y = strip_casts(y)
            if y[0] == "const" and isinstance(y[1], int):
                b, c = lin(x)
                return b, c + y[1]
    return t, 0


def add_leaves(t):
    """Leaves of a tree of Adds."""
    t = desat(t)
    if t[0] == "bin" and t[1] == "Add":
        return add_leaves(t[2]) + add_leaves(t[3])
    return [t]


def is_map_len(t):
    t = strip_casts(t)
    return t[0] == "call" and t[1] == MAPLEN and len(t[2]) == 1 and core_param(t[2][0]) == 0


def core_param(t):
    while isinstance(t, tuple) and t and t[0] in ("ref", "deref"):
        t = t[1]
    if t[0] == "param":
        return t[1]
    return None


def is_map_slice(t):
    """Term denotes the map's element slice: as_ref(map) possibly re-borrowed."""
    while isinstance(t, tuple) and t and t[0] in ("ref", "deref"):
        t = t[1]
    return t[0] == "call" and t[1] == ASREF and core_param(t[2][0]) == 0


def bounded_by_len(facts, idx, strict=True):
    """Is `idx < map.len()` (strict) / `idx <= map.len()` implied by a dominating comparison against map.len()?
    Accepts a fact on idx itself or on idx + (non-negative terms): unsigned addition is monotone (overflow is asserted in
    debug builds and needs dishonest header values in release builds -- stated assumption)."""
    il = add_leaves(idx)
    ib, ic = lin(idx)
    for f in facts:
        if f[0] != "cmp":
            continue
        op, a, b = f[1], f[2], f[3]
        # normalise to  S < L  or  S <= L
        if op in ("Gt", "Ge"):
            op, a, b = {"Gt": "Lt", "Ge": "Le"}[op], b, a
        if op not in ("Lt", "Le") or not is_map_len(b):
            continue
        if strict and op == "Le":
            # S <= L gives idx < L only if S = idx + positive constant
            sb, sc = lin(a)
            if sb == ib and sc > ic:
                return True, f
            # or S has idx's leaves plus a constant >= 1
            sl = add_leaves(a)
            if multiset_contains(sl, il) and extra_const(sl, il) >= 1:
                return True, f
            continue
        sl = add_leaves(a)
        sb, sc = lin(a)
        if (sb == ib and sc >= ic) or multiset_contains(sl, il):
            return True, f
        # integers: S < L gives S + 1 <= L (the tail `[offset + 1 ..]` right behind `offset < map.len()`)
        if not strict and op == "Lt" and sb == ib and sc + 1 >= ic:
            return True, f
    return False, None


def multiset_contains(big, small):
    big = list(big)
    for x in small:
        x0 = strip_casts(x)
        if x0[0] == "const":
            continue
        if x0 in big:
            big.remove(x0)
        else:
            return False
    # constants: sum of constants in small <= sum of constants in big
    cs = sum(strip_casts(x)[1] for x in small if strip_casts(x)[0] == "const")
    cb = sum(x[1] for x in big if x[0] == "const" and isinstance(x[1], int))
    return cs <= cb


def extra_const(big, small):
    cs = sum(strip_casts(x)[1] for x in small if strip_casts(x)[0] == "const")
    cb = sum(x[1] for x in big if x[0] == "const" and isinstance(x[1], int))
    return cb - cs


def views(F):
    out = []
    for im in F.impls_of(TRAIT):
        new = [i for i in im["items"] if i["name"] == "new"]
        if not new:
            continue
        out.append((im, F.body(new[0]["def"])))
    return out


def refusing_edges(b):
    """Edges (u, v) whose target block only leads to `_0 = Err(Error::new(UnexpectedEof, ..))`: returns {v: kind}."""
    res = {}
    for bi in sorted(b.reachable()):
        kinds = [st["rv"]["vname"] for st in b.blocks[bi]["stmts"]
                 if st["s"] == "assign" and st["rv"]["r"] == "agg" and st["rv"].get("def") == "std::io::ErrorKind"]
        if kinds:
            res[bi] = kinds[0]
    return res


SLICE_GET = "core::slice::<impl [T]>::get"


def view_facts(b, block):
    """facts_at plus what a successful bounds-checked read implies: `as_ref(map).get(i)` is Some only if i < map.len() (the
    slice as_ref hands out has exactly map.len() elements: obligation map-slice-length)."""
    fs = list(facts_at(b, block))
    for f in list(fs):
        if f[0] != "discr" or f[2] != 1:
            continue
        x = f[1]
        while isinstance(x, tuple) and x and x[0] in ("discr", "ref", "deref"):
            x = x[1]
        if isinstance(x, tuple) and x and x[0] == "call" and x[1] == SLICE_GET and len(x[2]) == 2 and is_map_slice(x[2][0]):
            i = strip_casts(x[2][1])
            if i[0] == "adt" and i[1] == "std::ops::RangeFrom" and len(i[4]) == 1:
                # `slice.get(i..)` is Some only if i <= map.len()
                fs.append(("cmp", "Le", i[4][0], ("call", MAPLEN, (("param", 0, b.local_name(1)),), (), MAPLEN)))
            elif i[0] != "adt":
                fs.append(("cmp", "Lt", x[2][1], ("call", MAPLEN, (("param", 0, b.local_name(1)),), (), MAPLEN)))
    # the length test of a slice pattern over the tail: len(map_slice[s..]) >= c  is  s + c <= map.len()
    for f in list(fs):
        if f[0] != "cmp":
            continue
        op, a, c = f[1], f[2], f[3]
        if op in ("Le", "Lt"):
            op, a, c = {"Le": "Ge", "Lt": "Gt"}[op], c, a
        a0, c0 = strip_casts(a), strip_casts(c)
        if op in ("Ge", "Gt", "Eq") and a0[0] == "un" and a0[1] == "PtrMetadata" and c0[0] == "const" and isinstance(c0[1], int):
            s0 = subslice_start(a0[2])
            if s0 is not None:
                need = c0[1] + (1 if op == "Gt" else 0)
                fs.append(("cmp", "Le", ("bin", "Add", s0, ("const", need)), ("call", MAPLEN, (("param", 0, b.local_name(1)),), (), MAPLEN)))
    # the same bound stated in bytes: `n <= 8 * (map.len() - offset - c)` is `offset + c + bytes_to_words(n) <= map.len()`
    from guards import linear
    for f in list(fs):
        if f[0] != "cmp":
            continue
        op, a, c = f[1], f[2], f[3]
        if op in ("Ge", "Gt"):
            op, a, c = {"Ge": "Le", "Gt": "Lt"}[op], c, a
        if op not in ("Le", "Lt"):
            continue
        c0 = strip_casts(c)
        words = None
        if c0[0] == "call" and c0[1] == "bits::words_to_bytes" and len(c0[2]) == 1:
            words = c0[2][0]
        elif c0[0] == "bin" and c0[1] == "Mul":
            for x, y in ((c0[2], c0[3]), (c0[3], c0[2])):
                if strip_casts(y) [:2] == ("const", 8):
                    words = x
        elif c0[0] == "bin" and c0[1] == "Shl" and strip_casts(c0[3])[:2] == ("const", 3):
            words = c0[2]
        if words is None:
            continue
        lin = linear(words)
        mlen = [k for k in lin if isinstance(k, tuple) and k and k[0] == "call" and is_map_len(k)]
        if len(mlen) != 1 or lin.get(mlen[0]) != 1 or lin.get(("param", 1), 0) != -1 or any(k not in (mlen[0], ("param", 1), ()) for k in lin):
            continue
        cst = -lin.get((), 0)
        if cst < 0:
            continue
        lhs = ("bin", "Add", ("bin", "Add", ("param", 1, b.local_name(2)), ("const", cst)), ("call", "bits::bytes_to_words", (strip_casts(a),), (), "bits::bytes_to_words"))
        fs.append(("cmp", "Le", lhs, mlen[0]))
    return fs


def subslice_start(t):
    """t is (the pointee of) the Some payload of `map_slice.get(s..)`: returns s."""
    x = t
    for _ in range(6):
        while isinstance(x, tuple) and x and x[0] in ("deref", "ref", "cast"):
            x = x[1]
        if isinstance(x, tuple) and x and x[0] in ("field", "downcast"):
            x = x[1]
        else:
            break
    if isinstance(x, tuple) and x and x[0] == "call" and x[1] == SLICE_GET and len(x[2]) == 2 and is_map_slice(x[2][0]):
        r = strip_casts(x[2][1])
        if r[0] == "adt" and r[1] == "std::ops::RangeFrom" and len(r[4]) == 1:
            return r[4][0]
    return None


def analyse_view(b):
    """Touch sites of a view constructor with the facts that dominate them."""
    sites = []
    for bi, si, st in b.stmts():
        if st["s"] != "assign":
            continue
        rv = st["rv"]
        places = []
        if rv["r"] == "use":
            p = operand_place(rv["o"])
            if p:
                places.append(p)
        elif rv["r"] in ("ref", "rawptr"):
            places.append(rv["p"])
        elif rv["r"] == "cast":
            p = operand_place(rv["o"])
            if p:
                places.append(p)
        elif rv["r"] == "agg":
            for o in rv["ops"]:
                p = operand_place(o)
                if p:
                    places.append(p)
        for p in places:
            for k, e in enumerate(p["p"]):
                if isinstance(e, dict) and "idx" in e:
                    base = b.term_of_place({"l": p["l"], "p": p["p"][:k]})
                    if is_map_slice(base):
                        sites.append({"kind": "index", "block": bi, "idx": b.term_of_local(e["idx"]), "sp": st["sp"]})
                elif isinstance(e, dict) and "cidx" in e and not e.get("from_end"):
                    # an element of a slice pattern over the tail of the map: `let Some(&[a, b, ..]) = slice.get(offset..)`
                    s0 = subslice_start(b.term_of_place({"l": p["l"], "p": p["p"][:k]}))
                    if s0 is not None:
                        sites.append({"kind": "index", "block": bi, "idx": ("bin", "Add", s0, ("const", e["cidx"])) if e["cidx"] else s0, "sp": st["sp"]})
    # an element read used directly as a `match` scrutinee
    for bi in sorted(b.reachable()):
        t = b.blocks[bi]["term"]
        if t["t"] == "switch":
            p = operand_place(t["discr"])
            if p:
                for k, e in enumerate(p["p"]):
                    if isinstance(e, dict) and "idx" in e:
                        base = b.term_of_place({"l": p["l"], "p": p["p"][:k]})
                        if is_map_slice(base):
                            sites.append({"kind": "index", "block": bi, "idx": b.term_of_local(e["idx"]), "sp": t["sp"]})
    for bi, t in b.calls():
        name = callee_name(t)
        w = callee_written(t)
        if w == "std::ops::Index::index" and is_map_slice(b.term_of_operand(t["args"][0])):
            rng = b.term_of_operand(t["args"][1])
            if rng[0] == "adt" and rng[1] == "std::ops::RangeFrom":
                sites.append({"kind": "range_from", "block": bi, "idx": rng[4][0], "sp": t["sp"]})
            else:
                sites.append({"kind": "range_other", "block": bi, "idx": rng, "sp": t["sp"]})
        if name == SLICE_GET and len(t["args"]) == 2 and is_map_slice(b.term_of_operand(t["args"][0])) and (t["callee"].get("args") or ["", ""])[-1] == "usize":
            sites.append({"kind": "get", "block": bi, "idx": b.term_of_operand(t["args"][1]), "sp": t["sp"]})
        if name.startswith("std::slice::from_raw_parts"):
            sites.append({"kind": "from_raw_parts", "block": bi, "ptr": b.term_of_operand(t["args"][0]),
                          "count": b.term_of_operand(t["args"][1]), "sp": t["sp"], "elem": (t["callee"].get("args") or ["?", "?"])[-1]})
    return sites


MODELLED_SLICE_CALLS = ("get", "as_ptr", "as_mut_ptr", "len", "is_empty", "iter", "index")


def unmodelled_slice_calls(b):
    """Slice / split APIs in a view constructor that the touch-site model does not read (`split_first`, `split_at`, `first`,
    `chunks`, ..): the header and the payload are then reached through values the rules cannot tie to the map, and a failing
    obligation of that view is "cannot establish", not "refuted"."""
    out = []
    for bi, t in b.calls():
        n = callee_name(t)
        if (n.startswith("core::slice::<impl [") or n.startswith("std::slice::<impl [")) and n.split("::")[-1].split("<")[0] not in MODELLED_SLICE_CALLS:
            out.append(n.split("::")[-1])
    return sorted(set(out))


class Softened:
    """Obligation sink for one view: failures become undecided when the constructor uses slice APIs outside the model."""
    def __init__(self, ctx, unmodelled):
        self._ctx, self._un = ctx, unmodelled

    def ob(self, rule, key, where, ok, how="", detail="", nontrivial=True, positive=False):
        if ok is False and self._un and not positive:
            return self._ctx.ob(rule, key, where, None, how, (detail or "") + " [the constructor uses %s, outside the touch-site model]" % ", ".join(self._un), nontrivial, False)
        return self._ctx.ob(rule, key, where, ok, how, detail, nontrivial, positive)

    def __getattr__(self, a):
        return getattr(self._ctx, a)


def check_views(ctx, F, tag, prefix):
    vs = views(F)
    # the element slice of a map has exactly map.len() elements (what makes a bound against map.len() a bound on the slice)
    if F.has_body(ASREF) and F.has_body(MAPLEN):
        ab, lb = F.body(ASREF), F.body(MAPLEN)
        frp = [t for _, t in ab.calls() if callee_name(t).startswith(("std::slice::from_raw_parts", "std::ptr::slice_from_raw_parts"))]
        from pat import self_path
        oka = len(frp) == 1 and self_path(ab.term_of_operand(frp[0]["args"][1])) == ["len"] and self_path(lb.term_of_local(0)) == ["len"]
        ctx.ob(prefix + ".map-slice-length", ASREF + tag, loc(ab.raw["span"]), oka, "term-shape",
               "as_ref(map) = from_raw_parts(ptr, self.len) and map.len() = self.len: %s" % oka, nontrivial=False)
    ctx.count("mapped-view-impls" + tag, len(vs))
    ctx0 = ctx
    for im, b in vs:
        name = im["self_ty"].get("def", im["self_ty"]["s"])
        ctx = Softened(ctx0, unmodelled_slice_calls(b))
        refuse = refusing_edges(b)
        sites = analyse_view(b)
        ctx.count("mapped-touch-sites" + tag, len(sites))
        # the `offset` parameter must not enter checked arithmetic before it is bounded
        for bi in sorted(b.reachable()):
            t = b.blocks[bi]["term"]
            if t["t"] == "assert" and t["kind"].startswith("Overflow("):
                ops = [b.term_of_operand(o) for o in t["ops"]]
                if any(core_param(x) == 1 or (strip_casts(x)[0] == "param" and strip_casts(x)[1] == 1) for x in ops):
                    # (offset <= map.len() is enough here: a map has at most isize::MAX / 8 elements, so offset + c cannot wrap)
                    ok, f = bounded_by_len(view_facts(b, bi), ("param", 1, b.local_name(2)), strict=False)
                    ctx.ob(prefix + ".offset-bounded-before-arithmetic", "%s|%s%s" % (name, t["kind"], tag), loc(t["sp"]), ok, "guard-dominance",
                           "`%s` on the caller-supplied offset %s" % (t["kind"], "is dominated by offset < map.len()" if ok else
                           "is NOT dominated by a comparison of offset with map.len(): offset = usize::MAX panics (debug) or wraps past the guard (release) instead of returning an error"))
        for s in sites:
            facts = view_facts(b, s["block"])
            if s["kind"] == "get":
                ctx.ob(prefix + ".guard-before-index", "%s|get[%s]%s" % (name, tstr(s["idx"]), tag), loc(s["sp"]), True, "checked-read",
                       "map slice read through slice::get(%s): bounds-checked by the callee, None is handled by the caller's match" % tstr(s["idx"]), nontrivial=False)
            elif s["kind"] == "index":
                ok, f = bounded_by_len(facts, s["idx"], strict=True)
                key = "%s|index[%s]%s" % (name, tstr(s["idx"]), tag)
                ctx.ob(prefix + ".guard-before-index", key, loc(s["sp"]), ok, "guard-dominance",
                       "map slice read at [%s] %s" % (tstr(s["idx"]), ("dominated by " + tstr(("bin", f[1], f[2], f[3]))) if ok else "has no dominating bound against map.len()"))
            elif s["kind"] == "range_from":
                ok, f = bounded_by_len(facts, s["idx"], strict=False)
                key = "%s|range[%s..]%s" % (name, tstr(s["idx"]), tag)
                ctx.ob(prefix + ".guard-before-subslice", key, loc(s["sp"]), ok, "guard-dominance",
                       "map sub-slice [%s..] %s" % (tstr(s["idx"]), ("dominated by " + tstr(("bin", f[1], f[2], f[3]))) if ok else "has no dominating bound against map.len()"))
            elif s["kind"] == "range_other":
                ctx.ob(prefix + ".guard-before-subslice", "%s|range%s" % (name, tag), loc(s["sp"]), None, "guard-dominance", "unrecognised range form %s" % tstr(s["idx"]))
            else:
                # from_raw_parts(p, n): a dominating fact  offset + k + f(n) <= map.len()  whose sum mentions n
                n = strip_casts(s["count"])
                ok = False
                why = "no dominating `offset + .. + f(%s) <= map.len()` fact" % tstr(n)
                for f in facts:
                    if f[0] != "cmp":
                        continue
                    op, a, c = f[1], f[2], f[3]
                    if op in ("Gt", "Ge"):
                        op, a, c = {"Gt": "Lt", "Ge": "Le"}[op], c, a
                    if op in ("Lt", "Le") and is_map_len(c):
                        leaves = add_leaves(a)
                        has_off = any(strip_casts(x)[0] == "param" and strip_casts(x)[1] == 1 for x in leaves)
                        has_n = any(n in list(subterms(x)) for x in leaves if strip_casts(x)[0] != "param")
                        if has_off and has_n:
                            ok = True
                            why = "dominated by " + tstr(("bin", f[1], f[2], f[3]))
                            s["guard"] = a
                key = "%s|from_raw_parts%s" % (name, tag)
                ctx.ob(prefix + ".guard-before-carve", key, loc(s["sp"]), ok, "guard-dominance", "from_raw_parts(.., %s): %s" % (tstr(n), why))
                # pointer derives from the map slice
                pok = any(is_map_slice(x) for x in subterms(s["ptr"]))
                ctx.ob(prefix + ".carve-from-map", key, loc(s["sp"]), pok, "term-provenance", "pointer term %s derives from the map's slice" % tstr(s["ptr"])[:160])
        # every guard against map.len() refuses with UnexpectedEof
        for u, v, f in edge_facts(b):
            if f[0] == "cmp" and (is_map_len(f[2]) or is_map_len(f[3])) and v in refuse:
                ctx.ob(prefix + ".refuses-with-unexpected-eof", "%s|bb%d%s" % (name, 0, tag) if False else "%s|%s%s" % (name, tstr(("bin", f[1], f[2], f[3]))[:80], tag),
                       loc(b.blocks[u]["term"]["sp"]), refuse[v] == "UnexpectedEof", "error-kind", "refusing edge builds ErrorKind::%s" % refuse[v], nontrivial=False)
    ctx.floor("mapped-view-impls" + tag, FLOOR_VIEWS)
