"""A8 -- sibling / twin agreement at the level of effects.

Two bodies are compared after a normalisation that removes what a behaviour-preserving clean-up changes:
  * single-assignment locals (temporaries and `let` bindings alike) are inlined into terms (A1), so introducing, inlining or
    renaming a local, or moving a pure computation, changes nothing;
  * blocks that only jump are collapsed, so `if c { return x }` and `if c { x } else { .. }` have the same graph;
  * a block is summarised by the multiset of its stores to *state* (reassigned locals, memory behind references, the return
    place) with the stored terms, plus its terminator with operand terms -- the order of independent statements is ignored;
  * `cmp::min(a, b)` / `a.min(b)` and `max` are the same callee.
The walk builds a bijection on blocks and on reassigned locals; terms must be equal modulo that bijection and a per-pair
substitution on names (`word` <-> `word_unchecked`, Identity <-> Complement, ...). The first divergence is reported.
"""
from facts import subterms, tstr, callee_name

ALIASES = {"std::cmp::Ord::min": "std::cmp::min", "std::cmp::Ord::max": "std::cmp::max", "core::cmp::Ord::min": "std::cmp::min",
           "core::cmp::Ord::max": "std::cmp::max", "core::cmp::min": "std::cmp::min", "core::cmp::max": "std::cmp::max"}


class Diverge(Exception):
    pass


class Side:
    def __init__(self, b):
        self.b = b
        self.multi = set()
        for l, ds in b.defs().items():
            whole = [d for d in ds if d[2] in ("assign", "call")]
            if len(whole) != 1 or len(ds) != len(whole):
                self.multi.add(l)
        self.multi.add(0)
        self.reach = b.reachable()
        self._skip = {}

    def is_state_store(self, st):
        if st["s"] == "setdiscr":
            return True
        lhs = st["lhs"]
        if lhs["p"]:
            return True
        return lhs["l"] in self.multi

    def resolve(self, blk):
        """Follows blocks that contain no state store and end in a plain goto."""
        seen = set()
        while blk not in seen:
            seen.add(blk)
            B = self.b.blocks[blk]
            if B["term"]["t"] == "goto" and not any(self.is_state_store(st) for st in B["stmts"]):
                blk = B["term"]["target"]
            else:
                break
        return blk

    def summary(self, blk):
        B = self.b.blocks[blk]
        stores = []
        for st in B["stmts"]:
            if self.is_state_store(st):
                if st["s"] == "setdiscr":
                    stores.append((self.b.term_of_place(st["lhs"]), ("setdiscr", st["variant"])))
                else:
                    lhs = st["lhs"]
                    if lhs["p"]:
                        place = self.b.term_of_place(lhs)
                    else:
                        place = ("var", lhs["l"], self.b.local_name(lhs["l"]))
                    stores.append((place, self.b.term_of_rvalue(st["rv"])))
        return stores, B["term"]


class Walker:
    def __init__(self, A, B, subst, types=True):
        self.A, self.B = Side(A), Side(B)
        self.subst = subst
        self.types = types
        self.lmap = {0: 0}
        self.lrev = {0: 0}
        self.bmap = {}
        self.brev = {}
        self.steps = 0
        for i in range(1, A.nargs + 1):
            self.lmap[i] = i
            self.lrev[i] = i

    def canon(self, s):
        if not isinstance(s, str):
            return s
        for a, b in self.subst:
            s = s.replace(a, b)
        return ALIASES.get(s, s)

    def bind_local(self, la, lb, ctx):
        if la in self.lmap:
            if self.lmap[la] != lb:
                raise Diverge("%s: state local _%d of the first twin corresponds to _%d, not _%d" % (ctx, la, self.lmap[la], lb))
            return
        if lb in self.lrev:
            raise Diverge("%s: state local _%d of the second twin already corresponds to _%d" % (ctx, lb, self.lrev[lb]))
        self.lmap[la] = lb
        self.lrev[lb] = la

    def term_eq(self, ta, tb, ctx):
        if isinstance(ta, tuple) != isinstance(tb, tuple):
            raise Diverge("%s: %s vs %s" % (ctx, tstr(ta)[:120] if isinstance(ta, tuple) else ta, tstr(tb)[:120] if isinstance(tb, tuple) else tb))
        if not isinstance(ta, tuple):
            if self.canon(ta) != self.canon(tb):
                raise Diverge("%s: %r vs %r" % (ctx, ta, tb))
            return
        if not ta or not tb:
            if ta != tb:
                raise Diverge("%s: %s vs %s" % (ctx, ta, tb))
            return
        ka, kb = ta[0], tb[0]
        if not isinstance(ka, str):
            if len(ta) != len(tb):
                raise Diverge("%s: arity %d vs %d" % (ctx, len(ta), len(tb)))
            for x, y in zip(ta, tb):
                self.term_eq(x, y, ctx)
            return
        if ka != kb:
            raise Diverge("%s: %s vs %s" % (ctx, tstr(ta)[:120], tstr(tb)[:120]))
        if ka == "var":
            self.bind_local(ta[1], tb[1], ctx)
            return
        if ka == "param":
            if ta[1] != tb[1]:
                raise Diverge("%s: parameter %d vs %d" % (ctx, ta[1], tb[1]))
            return
        if ka == "call":
            na, nb = self.canon(ta[1]), self.canon(tb[1])
            wa, wb = self.canon(ta[4] if len(ta) > 4 else ta[1]), self.canon(tb[4] if len(tb) > 4 else tb[1])
            if na != nb and wa != wb:
                # two spellings of one quantity (`Complement::count_ones(self)` / `self.count_zeros()`): compare what the calls
                # return, expanded through straight-line crate functions
                from guards import canon as expand
                F = self.A.b.facts

                def names(t):
                    if isinstance(t, str):
                        return self.canon(t)
                    if isinstance(t, tuple):
                        return tuple(names(x) for x in t)
                    return t
                def rev(t):
                    # the substitution read backwards: the first twin renamed into the second twin's vocabulary
                    if isinstance(t, str):
                        for a_, b_ in self.subst:
                            if b_ in t and a_ not in t:
                                t = t.replace(b_, a_)
                        return t
                    if isinstance(t, tuple):
                        return tuple(rev(x) for x in t)
                    return t
                has_var = lambda t: any(isinstance(x, tuple) and x and x[0] == "var" for x in subterms(t))
                ca, cb = expand(F, names(ta)), expand(F, names(tb))
                if ca == cb and not has_var(ca):
                    return
                ca, cb = expand(F, rev(ta)), expand(F, tb)
                if ca == cb and not has_var(ca):
                    return
                raise Diverge("%s: callees differ: %s vs %s" % (ctx, ta[1], tb[1]))
            if len(ta[2]) != len(tb[2]):
                raise Diverge("%s: %s vs %s" % (ctx, tstr(ta)[:120], tstr(tb)[:120]))
            for x, y in zip(ta[2], tb[2]):
                self.term_eq(x, y, ctx)
            if self.types and [self.canon(x) for x in ta[3]] != [self.canon(x) for x in tb[3]]:
                raise Diverge("%s: generic arguments of %s differ: %s vs %s" % (ctx, ta[1], ta[3], tb[3]))
            return
        if ka in ("promoted",):
            if [self.canon(x) for x in ta[3]] != [self.canon(x) for x in tb[3]]:
                raise Diverge("%s: constants differ: %s vs %s" % (ctx, ta[3], tb[3]))
            return
        if ka == "closure":
            self.term_eq(ta[1], tb[1], ctx)      # captured values; the closure bodies are compared where they are called
            return
        if ka == "cast" and not self.types:
            self.term_eq(ta[1], tb[1], ctx)
            return
        if ka == "zst" or ka == "constdbg":
            if self.types and self.canon(str(ta[1:])) != self.canon(str(tb[1:])):
                raise Diverge("%s: %s vs %s" % (ctx, ta, tb))
            return
        if len(ta) != len(tb):
            raise Diverge("%s: %s vs %s" % (ctx, tstr(ta)[:120], tstr(tb)[:120]))
        for x, y in zip(ta[1:], tb[1:]):
            if isinstance(x, tuple) or isinstance(y, tuple):
                self.term_eq(x, y, ctx)
            elif self.canon(x) != self.canon(y):
                raise Diverge("%s: %s vs %s" % (ctx, tstr(ta)[:120], tstr(tb)[:120]))

    def block(self, ba, bb, ctx):
        ba, bb = self.A.resolve(ba), self.B.resolve(bb)
        if ba in self.bmap:
            if self.bmap[ba] != bb:
                raise Diverge("%s: control flow differs (bb%d corresponds to bb%d, not bb%d)" % (ctx, ba, self.bmap[ba], bb))
            return None
        if bb in self.brev:
            raise Diverge("%s: control flow differs (bb%d of the second twin already corresponds to bb%d)" % (ctx, bb, self.brev[bb]))
        self.bmap[ba] = bb
        self.brev[bb] = ba
        return ba, bb

    def operand(self, side, o):
        return side.b.term_of_operand(o)

    def walk(self):
        if self.A.b.nargs != self.B.b.nargs:
            raise Diverge("argument counts differ")
        start = self.block(0, 0, "entry")
        stack = [start]
        while stack:
            ba, bb = stack.pop()
            ctx = "bb%d/bb%d" % (ba, bb)
            sa, ta = self.A.summary(ba)
            sb, tb = self.B.summary(bb)
            if len(sa) != len(sb):
                raise Diverge("%s: %d vs %d state stores: %s | %s" % (ctx, len(sa), len(sb), [tstr(p)[:40] + " := " + tstr(v)[:60] for p, v in sa],
                                                                      [tstr(p)[:40] + " := " + tstr(v)[:60] for p, v in sb]))
            # match stores irrespective of order: greedy matching on equal terms
            remaining = list(sb)
            for pa, va in sa:
                ok = False
                last = None
                for k, (pb, vb) in enumerate(remaining):
                    snap = (dict(self.lmap), dict(self.lrev))
                    try:
                        self.term_eq(pa, pb, ctx)
                        self.term_eq(va, vb, ctx)
                        remaining.pop(k)
                        ok = True
                        break
                    except Diverge as d:
                        self.lmap, self.lrev = snap
                        last = d
                self.steps += 1
                if not ok:
                    raise Diverge("%s: store `%s := %s` of the first twin has no counterpart (%s)" % (ctx, tstr(pa)[:60], tstr(va)[:100], last))
            self.steps += 1
            k = ta["t"]
            c2 = "%s terminators" % ctx
            if k != tb["t"]:
                raise Diverge("%s: %s vs %s" % (c2, k, tb["t"]))
            succ = []
            if k == "goto":
                succ.append((ta["target"], tb["target"]))
            elif k == "switch":
                self.term_eq(self.operand(self.A, ta["discr"]), self.operand(self.B, tb["discr"]), c2 + " (branch condition)")
                va = sorted((str(v), d) for v, d in ta["targets"])
                vb = sorted((str(v), d) for v, d in tb["targets"])
                if [v for v, _ in va] != [v for v, _ in vb]:
                    raise Diverge("%s: switch values differ" % c2)
                succ.extend((x[1], y[1]) for x, y in zip(va, vb))
                succ.append((ta["otherwise"], tb["otherwise"]))
            elif k == "call":
                self.term_eq(self.A.b.term_of_call(ta), self.B.b.term_of_call(tb), c2 + " (call)")
                da, db = ta["dest"], tb["dest"]
                if da["p"] or db["p"] or da["l"] in self.A.multi or db["l"] in self.B.multi:
                    if da["p"] or db["p"]:
                        self.term_eq(self.A.b.term_of_place(da), self.B.b.term_of_place(db), c2 + " (call destination)")
                    else:
                        if (da["l"] in self.A.multi) != (db["l"] in self.B.multi):
                            raise Diverge("%s: call destination is state in one twin only" % c2)
                        self.bind_local(da["l"], db["l"], c2)
                if (ta["target"] is None) != (tb["target"] is None):
                    raise Diverge("%s: one call diverges" % c2)
                if ta["target"] is not None:
                    succ.append((ta["target"], tb["target"]))
            elif k == "assert":
                if ta["kind"] != tb["kind"] or ta["expected"] != tb["expected"]:
                    raise Diverge("%s: assertions differ: %s vs %s" % (c2, ta["kind"], tb["kind"]))
                for x, y in zip(ta["ops"], tb["ops"]):
                    self.term_eq(self.operand(self.A, x), self.operand(self.B, y), c2 + " (assert operands)")
                succ.append((ta["target"], tb["target"]))
            elif k == "drop":
                succ.append((ta["target"], tb["target"]))
            for x, y in succ:
                r = self.block(x, y, c2)
                if r is not None:
                    stack.append(r)
        return self.steps


def shape(b):
    """Coarse structure of a body: number of reachable blocks and how many terminators of each kind (calls counted, not named)."""
    kinds = {}
    for bi in b.reachable():
        blk = b.blocks[bi]
        if blk.get("cleanup"):
            continue
        k = blk["term"]["t"]
        if k == "assert":
            continue          # overflow / bounds assertions come and go with the arithmetic; they are not structure
        kinds[k] = kinds.get(k, 0) + 1
    return tuple(sorted(kinds.items()))


def compare(A, B, subst, types=True):
    """Returns (True, steps), (False, message) -- the twins run in parallel and differ at a named point -- or (None, message): the
    twins are structured differently (one of them was restructured), so a statement-by-statement comparison says nothing."""
    w = Walker(A, B, subst, types)
    try:
        return True, w.walk()
    except Diverge as d:
        if shape(A) != shape(B):
            return None, "the twins are structured differently (%s vs %s): not comparable statement by statement; first difference met: %s" % (
                dict(shape(A)), dict(shape(B)), str(d)[:160])
        return False, str(d)
