"""A8 -- sibling / twin agreement: two MIR bodies must be isomorphic modulo a small substitution (callee, field and type names).

The walk starts at the entry blocks and builds a bijection on locals and blocks on the fly. Statements must be equal modulo the
bijection and the substitution; the first divergence is reported with the two statements. Immune to renames of locals, comments
and formatting; sensitive to reordering independent statements inside one twin (accepted, see DESIGN.md C01).
"""
from facts import pl, rval, term_str, opnd


class Diverge(Exception):
    pass


class Walker:
    def __init__(self, A, B, subst, types=True):
        self.A, self.B = A, B
        self.types = types
        self.subst = subst            # list of (from, to) applied to strings of B
        self.lmap = {}                # local of A -> local of B
        self.lrev = {}
        self.bmap = {}
        self.brev = {}
        self.steps = 0

    def canon(self, s):
        if not isinstance(s, str):
            return s
        for a, b in self.subst:
            s = s.replace(a, b)
        return s

    def local(self, la, lb, ctx):
        if la in self.lmap:
            if self.lmap[la] != lb:
                raise Diverge("%s: local _%d of the first twin corresponds to _%d, not _%d" % (ctx, la, self.lmap[la], lb))
            return
        if lb in self.lrev:
            raise Diverge("%s: local _%d of the second twin already corresponds to _%d" % (ctx, lb, self.lrev[lb]))
        ta = self.A.locals[la]["ty"]["s"]
        tb = self.canon(self.B.locals[lb]["ty"]["s"])
        if self.types and self.canon(ta) != tb:
            raise Diverge("%s: local types differ: %s vs %s" % (ctx, ta, self.B.locals[lb]["ty"]["s"]))
        self.lmap[la] = lb
        self.lrev[lb] = la

    def place(self, pa, pb, ctx):
        self.local(pa["l"], pb["l"], ctx)
        if len(pa["p"]) != len(pb["p"]):
            raise Diverge("%s: projections differ: %s vs %s" % (ctx, pl(pa), pl(pb)))
        for ea, eb in zip(pa["p"], pb["p"]):
            if isinstance(ea, dict) and isinstance(eb, dict):
                if "idx" in ea and "idx" in eb:
                    self.local(ea["idx"], eb["idx"], ctx)
                    continue
                ka = {k: self.canon(v) for k, v in ea.items() if k not in ("ty", "adt")}
                kb = {k: self.canon(v) for k, v in eb.items() if k not in ("ty", "adt")}
                # field index may differ when the substitution renames the field; names must agree after substitution
                if "name" in ka and "name" in kb:
                    ka.pop("f", None); kb.pop("f", None)
                if ka != kb:
                    raise Diverge("%s: projections differ: %s vs %s" % (ctx, pl(pa), pl(pb)))
            elif ea != eb:
                raise Diverge("%s: projections differ: %s vs %s" % (ctx, pl(pa), pl(pb)))

    def operand(self, oa, ob, ctx):
        for k in ("c", "m"):
            if k in oa or k in ob:
                if k not in oa or k not in ob:
                    raise Diverge("%s: operand kinds differ: %s vs %s" % (ctx, opnd(oa), opnd(ob)))
                return self.place(oa[k], ob[k], ctx)
        ka, kb = oa.get("k"), ob.get("k")
        if ka is None or kb is None:
            if oa != ob:
                raise Diverge("%s: operands differ" % ctx)
            return
        for key in ("fn", "v", "def", "static", "promoted_dbg", "bytes"):
            va, vb = ka.get(key), kb.get(key)
            if key == "def" and ("promoted" in ka or "promoted" in kb):
                continue    # promoted constants are named after the enclosing function
            if isinstance(va, list):
                va = [self.canon(x) for x in va]
                vb = [self.canon(x) for x in (vb or [])]
            if self.canon(va) != self.canon(vb):
                raise Diverge("%s: constants differ: %s vs %s" % (ctx, opnd(oa), opnd(ob)))
        fa = [self.canon(x) for x in ka.get("fn_args", [])]
        fb = [self.canon(x) for x in kb.get("fn_args", [])]
        if self.types and fa != fb:
            raise Diverge("%s: generic arguments differ: %s vs %s" % (ctx, ka.get("fn_args"), kb.get("fn_args")))

    def rvalue(self, ra, rb, ctx):
        if ra["r"] != rb["r"]:
            raise Diverge("%s: %s vs %s" % (ctx, rval(ra), rval(rb)))
        k = ra["r"]
        if k in ("use", "un", "repeat"):
            if k == "un" and ra["op"] != rb["op"]:
                raise Diverge("%s: %s vs %s" % (ctx, rval(ra), rval(rb)))
            self.operand(ra["o"], rb["o"], ctx)
        elif k in ("ref", "rawptr"):
            if ra["mut"] != rb["mut"]:
                raise Diverge("%s: %s vs %s" % (ctx, rval(ra), rval(rb)))
            self.place(ra["p"], rb["p"], ctx)
        elif k == "discr":
            self.place(ra["p"], rb["p"], ctx)
        elif k == "cast":
            if ra["kind"] != rb["kind"] or (self.types and self.canon(ra["ty"]) != self.canon(rb["ty"])):
                raise Diverge("%s: %s vs %s" % (ctx, rval(ra), rval(rb)))
            self.operand(ra["o"], rb["o"], ctx)
        elif k == "bin":
            if ra["op"] != rb["op"]:
                raise Diverge("%s: %s vs %s" % (ctx, rval(ra), rval(rb)))
            self.operand(ra["a"], rb["a"], ctx)
            self.operand(ra["b"], rb["b"], ctx)
        elif k == "agg":
            for key in ("agg", "def", "vname"):
                if self.canon(ra.get(key)) != self.canon(rb.get(key)):
                    raise Diverge("%s: %s vs %s" % (ctx, rval(ra), rval(rb)))
            if len(ra["ops"]) != len(rb["ops"]):
                raise Diverge("%s: %s vs %s" % (ctx, rval(ra), rval(rb)))
            for x, y in zip(ra["ops"], rb["ops"]):
                self.operand(x, y, ctx)

    def block(self, ba, bb, ctx):
        if ba in self.bmap:
            if self.bmap[ba] != bb:
                raise Diverge("%s: control flow differs: bb%d of the first twin corresponds to bb%d, not bb%d" % (ctx, ba, self.bmap[ba], bb))
            return False
        if bb in self.brev:
            raise Diverge("%s: control flow differs: bb%d of the second twin already corresponds to bb%d" % (ctx, bb, self.brev[bb]))
        self.bmap[ba] = bb
        self.brev[bb] = ba
        return True

    def walk(self):
        if self.A.nargs != self.B.nargs:
            raise Diverge("argument counts differ")
        for i in range(self.A.nargs + 1):
            self.local(i, i, "signature")
        stack = [(0, 0)]
        self.block(0, 0, "entry")
        while stack:
            ba, bb = stack.pop()
            A, B = self.A.blocks[ba], self.B.blocks[bb]
            ctx = "bb%d/bb%d" % (ba, bb)
            if len(A["stmts"]) != len(B["stmts"]):
                sa = [stmt_str(s) for s in A["stmts"]]
                sb = [stmt_str(s) for s in B["stmts"]]
                k = 0
                while k < min(len(sa), len(sb)):
                    k += 1
                raise Diverge("%s: %d vs %d statements; first twin: %s | second twin: %s" % (ctx, len(sa), len(sb), sa[-3:], sb[-3:]))
            for sa, sb in zip(A["stmts"], B["stmts"]):
                self.steps += 1
                c2 = "%s `%s` vs `%s`" % (ctx, stmt_str(sa), stmt_str(sb))
                if sa["s"] != sb["s"]:
                    raise Diverge(c2)
                if sa["s"] == "assign":
                    self.rvalue(sa["rv"], sb["rv"], c2)
                    self.place(sa["lhs"], sb["lhs"], c2)
                elif sa["s"] == "setdiscr":
                    self.place(sa["lhs"], sb["lhs"], c2)
                    if sa["variant"] != sb["variant"]:
                        raise Diverge(c2)
            ta, tb = A["term"], B["term"]
            self.steps += 1
            c2 = "%s `%s` vs `%s`" % (ctx, term_str(ta), term_str(tb))
            if ta["t"] != tb["t"]:
                raise Diverge(c2)
            k = ta["t"]
            succ = []
            if k == "goto":
                succ.append((ta["target"], tb["target"]))
            elif k == "switch":
                self.operand(ta["discr"], tb["discr"], c2)
                if [v for v, _ in ta["targets"]] != [v for v, _ in tb["targets"]]:
                    raise Diverge(c2)
                succ.extend((x[1], y[1]) for x, y in zip(ta["targets"], tb["targets"]))
                succ.append((ta["otherwise"], tb["otherwise"]))
            elif k == "call":
                ca, cb = ta["callee"], tb["callee"]
                na = ca.get("res", {}).get("def") if ca.get("res", {}).get("is_item") else ca.get("def")
                nb = cb.get("res", {}).get("def") if cb.get("res", {}).get("is_item") else cb.get("def")
                if self.canon(na or ca.get("indirect")) != self.canon(nb or cb.get("indirect")):
                    raise Diverge("%s: callees differ: %s vs %s" % (ctx, na, nb))
                if self.types and [self.canon(x) for x in ca.get("args", [])] != [self.canon(x) for x in cb.get("args", [])]:
                    raise Diverge("%s: generic arguments of %s differ: %s vs %s" % (ctx, na, ca.get("args"), cb.get("args")))
                if len(ta["args"]) != len(tb["args"]):
                    raise Diverge(c2)
                for x, y in zip(ta["args"], tb["args"]):
                    self.operand(x, y, c2)
                self.place(ta["dest"], tb["dest"], c2)
                if (ta["target"] is None) != (tb["target"] is None):
                    raise Diverge(c2)
                if ta["target"] is not None:
                    succ.append((ta["target"], tb["target"]))
            elif k == "assert":
                if ta["kind"] != tb["kind"] or ta["expected"] != tb["expected"]:
                    raise Diverge(c2)
                self.operand(ta["cond"], tb["cond"], c2)
                for x, y in zip(ta["ops"], tb["ops"]):
                    self.operand(x, y, c2)
                succ.append((ta["target"], tb["target"]))
            elif k == "drop":
                self.place(ta["place"], tb["place"], c2)
                succ.append((ta["target"], tb["target"]))
            for x, y in succ:
                if self.block(x, y, c2):
                    stack.append((x, y))
        return self.steps


def stmt_str(st):
    if st["s"] == "assign":
        return "%s = %s" % (pl(st["lhs"]), rval(st["rv"]))
    return st["s"]


def compare(A, B, subst, types=True):
    """Returns (True, steps) or (False, message)."""
    w = Walker(A, B, subst, types)
    try:
        steps = w.walk()
        return True, steps
    except Diverge as d:
        return False, str(d)
