// mirfacts: a rustc_private driver that dumps the type-checked program of one crate
// (MIR bodies with resolved callees, item structure, evaluated constants) as JSON.
// Used as RUSTC_WORKSPACE_WRAPPER under `cargo +nightly check`; it performs no analysis
// itself -- all rules live in /verif/engine/rules (python).
#![feature(rustc_private)]
#![allow(deprecated)]

extern crate rustc_abi;
extern crate rustc_ast;
extern crate rustc_data_structures;
extern crate rustc_driver;
extern crate rustc_hir;
extern crate rustc_interface;
extern crate rustc_middle;
extern crate rustc_session;
extern crate rustc_span;

use rustc_driver::Compilation;
use rustc_hir::def::DefKind;
use rustc_hir::def_id::{DefId, LOCAL_CRATE};
use rustc_middle::mir::{
    self, AggregateKind, BasicBlock, Body, Const, ConstValue, Operand, Place, PlaceElem, Rvalue,
    StatementKind, TerminatorKind,
};
use rustc_middle::ty::{self, Ty, TyCtxt, TypeVisitableExt};
use rustc_span::Span;

mod json;
use json::J;

struct Cb;

impl rustc_driver::Callbacks for Cb {
    fn after_analysis<'tcx>(
        &mut self,
        _c: &rustc_interface::interface::Compiler,
        tcx: TyCtxt<'tcx>,
    ) -> Compilation {
        let want = std::env::var("MIRFACTS_CRATE").unwrap_or_else(|_| "simple_sds".to_string());
        let name = tcx.crate_name(LOCAL_CRATE).to_string();
        if name == want {
            if let Ok(out) = std::env::var("MIRFACTS_OUT") {
                let j = rustc_middle::ty::print::with_no_trimmed_paths!(dump(tcx));
                let mut s = String::new();
                j.write(&mut s);
                std::fs::write(&out, s).expect("mirfacts: cannot write output");
            }
        }
        Compilation::Continue
    }
}

fn main() {
    let mut args: Vec<String> = std::env::args().collect();
    // RUSTC_WORKSPACE_WRAPPER: argv[1] is the path of the real rustc.
    if args.len() > 1 && (args[1].ends_with("rustc") || args[1].contains("/rustc")) {
        args.remove(1);
    }
    rustc_driver::run_compiler(&args, &mut Cb);
}

//---------------------------------------------------------------------------------------

fn s(x: impl Into<String>) -> J {
    J::Str(x.into())
}

fn obj(v: Vec<(&str, J)>) -> J {
    J::Obj(v.into_iter().map(|(k, v)| (k.to_string(), v)).collect())
}

fn span_str(tcx: TyCtxt<'_>, sp: Span) -> String {
    let sp = sp.source_callsite();
    let sm = tcx.sess.source_map();
    let lo = sm.lookup_char_pos(sp.lo());
    let hi = sm.lookup_char_pos(sp.hi());
    let fname = match &lo.file.name {
        rustc_span::FileName::Real(r) => match r.local_path() {
            Some(p) => p.to_string_lossy().to_string(),
            None => format!("{:?}", lo.file.name),
        },
        other => format!("{:?}", other),
    };
    format!("{}:{}:{}-{}:{}", fname, lo.line, lo.col.0 + 1, hi.line, hi.col.0 + 1)
}

fn def_str(tcx: TyCtxt<'_>, did: DefId) -> String {
    tcx.def_path_str(did)
}

fn ty_str<'tcx>(t: Ty<'tcx>) -> String {
    format!("{}", t)
}

// Structured description of a type, shallow: kind + def path for ADTs.
fn ty_j<'tcx>(tcx: TyCtxt<'tcx>, t: Ty<'tcx>) -> J {
    let mut v = vec![("s", s(ty_str(t)))];
    match t.kind() {
        ty::Adt(adt, args) => {
            v.push(("k", s("adt")));
            v.push(("def", s(def_str(tcx, adt.did()))));
            v.push(("args", J::Arr(args.iter().map(|a| s(format!("{}", a))).collect())));
        }
        ty::Ref(_, inner, m) => {
            v.push(("k", s("ref")));
            v.push(("mut", J::Bool(m.is_mut())));
            v.push(("to", ty_j(tcx, *inner)));
        }
        ty::RawPtr(inner, m) => {
            v.push(("k", s("ptr")));
            v.push(("mut", J::Bool(m.is_mut())));
            v.push(("to", ty_j(tcx, *inner)));
        }
        ty::Tuple(ts) => {
            v.push(("k", s("tuple")));
            v.push(("n", J::Num(ts.len() as i128)));
        }
        ty::Param(_) => v.push(("k", s("param"))),
        ty::FnDef(did, args) => {
            v.push(("k", s("fndef")));
            v.push(("def", s(def_str(tcx, *did))));
            v.push(("args", J::Arr(args.iter().map(|a| s(format!("{}", a))).collect())));
        }
        ty::Closure(did, _) => {
            v.push(("k", s("closure")));
            v.push(("def", s(def_str(tcx, *did))));
        }
        ty::Slice(e) => {
            v.push(("k", s("slice")));
            v.push(("to", ty_j(tcx, *e)));
        }
        ty::Array(e, n) => {
            v.push(("k", s("array")));
            v.push(("to", ty_j(tcx, *e)));
            v.push(("len", s(format!("{}", n))));
        }
        ty::Bool | ty::Char | ty::Int(_) | ty::Uint(_) | ty::Float(_) | ty::Str | ty::Never => {
            v.push(("k", s("prim")))
        }
        ty::Alias(..) => v.push(("k", s("alias"))),
        _ => v.push(("k", s("other"))),
    }
    obj(v)
}

struct Cx<'tcx, 'a> {
    tcx: TyCtxt<'tcx>,
    body: &'a Body<'tcx>,
    def: DefId,
    typing_env: ty::TypingEnv<'tcx>,
}

impl<'tcx, 'a> Cx<'tcx, 'a> {
    fn place(&self, p: &Place<'tcx>) -> J {
        let tcx = self.tcx;
        let mut projs = Vec::new();
        let mut pty = mir::PlaceTy::from_ty(self.body.local_decls[p.local].ty);
        for elem in p.projection.iter() {
            let j = match elem {
                PlaceElem::Deref => s("deref"),
                PlaceElem::Field(f, fty) => {
                    let mut v = vec![("f", J::Num(f.as_usize() as i128)), ("ty", s(ty_str(fty)))];
                    match pty.ty.kind() {
                        ty::Adt(adt, _) => {
                            let vidx = pty.variant_index.unwrap_or(rustc_abi::FIRST_VARIANT);
                            if adt.is_enum() || adt.is_struct() || adt.is_union() {
                                if let Some(var) = adt.variants().get(vidx) {
                                    if let Some(fd) = var.fields.get(f) {
                                        v.push(("name", s(fd.name.to_string())));
                                    }
                                }
                            }
                            v.push(("adt", s(def_str(tcx, adt.did()))));
                        }
                        ty::Closure(cdid, _) => {
                            // upvar
                            if let Some(l) = cdid.as_local() {
                                let caps = tcx.closure_captures(l);
                                if let Some(c) = caps.get(f.as_usize()) {
                                    v.push(("name", s(c.to_string(tcx))));
                                    v.push(("upvar", J::Bool(true)));
                                    v.push(("byref", J::Bool(c.is_by_ref())));
                                }
                            }
                        }
                        ty::Tuple(_) => {
                            v.push(("tuple", J::Bool(true)));
                        }
                        _ => {}
                    }
                    obj(v)
                }
                PlaceElem::Index(l) => obj(vec![("idx", J::Num(l.as_usize() as i128))]),
                PlaceElem::ConstantIndex { offset, min_length, from_end } => obj(vec![
                    ("cidx", J::Num(offset as i128)),
                    ("min", J::Num(min_length as i128)),
                    ("from_end", J::Bool(from_end)),
                ]),
                PlaceElem::Subslice { from, to, from_end } => obj(vec![
                    ("sub_from", J::Num(from as i128)),
                    ("sub_to", J::Num(to as i128)),
                    ("from_end", J::Bool(from_end)),
                ]),
                PlaceElem::Downcast(name, vi) => obj(vec![
                    ("down", J::Num(vi.as_usize() as i128)),
                    ("name", match name { Some(n) => s(n.to_string()), None => J::Null }),
                ]),
                PlaceElem::OpaqueCast(_) => s("opaque"),
                PlaceElem::UnwrapUnsafeBinder(_) => s("unwrap_binder"),
            };
            projs.push(j);
            pty = pty.projection_ty(tcx, elem);
        }
        obj(vec![("l", J::Num(p.local.as_usize() as i128)), ("p", J::Arr(projs))])
    }

    fn scalar_value(&self, c: &Const<'tcx>) -> J {
        let tcx = self.tcx;
        let t = c.ty();
        match t.kind() {
            ty::Bool | ty::Char | ty::Int(_) | ty::Uint(_) => {}
            ty::RawPtr(..) => {}
            _ => return J::Null,
        }
        if let Some(sc) = c.try_eval_scalar_int(tcx, self.typing_env) {
            let size = sc.size();
            let bits = sc.to_bits(size);
            match t.kind() {
                ty::Int(_) => {
                    // sign-extend
                    let nb = size.bits();
                    let v = if nb == 128 {
                        bits as i128
                    } else {
                        let sh = 128 - nb;
                        ((bits << sh) as i128) >> sh
                    };
                    J::Num(v)
                }
                _ => {
                    if bits > i128::MAX as u128 {
                        J::Str(format!("{}", bits))
                    } else {
                        J::Num(bits as i128)
                    }
                }
            }
        } else {
            J::Null
        }
    }

    fn constant(&self, c: &mir::ConstOperand<'tcx>) -> J {
        let tcx = self.tcx;
        let k = c.const_;
        let t = k.ty();
        let mut v = vec![("ty", s(ty_str(t)))];
        match t.kind() {
            ty::FnDef(did, args) => {
                v.push(("fn", s(def_str(tcx, *did))));
                v.push(("fn_args", J::Arr(args.iter().map(|a| s(format!("{}", a))).collect())));
                return obj(v);
            }
            _ => {}
        }
        match k {
            Const::Unevaluated(uv, _) => {
                v.push(("def", s(def_str(tcx, uv.def))));
                v.push(("def_args", J::Arr(uv.args.iter().map(|a| s(format!("{}", a))).collect())));
                if let Some(p) = uv.promoted {
                    v.push(("promoted", J::Num(p.as_usize() as i128)));
                    // names referenced by the promoted body
                    let mut refs = Vec::new();
                    let mut dbg = Vec::new();
                    if let Some(l) = uv.def.as_local() {
                        let proms = tcx.promoted_mir(l.to_def_id());
                        if let Some(pb) = proms.get(p) {
                            for bb in pb.basic_blocks.iter() {
                                for st in bb.statements.iter() {
                                    if let StatementKind::Assign(b) = &st.kind {
                                        collect_const_defs(tcx, &b.1, &mut refs);
                                        dbg.push(s(format!("{:?}", b.1)));
                                    }
                                }
                            }
                        }
                    }
                    v.push(("promoted_refs", J::Arr(refs.into_iter().map(s).collect())));
                    v.push(("promoted_dbg", J::Arr(dbg)));
                }
            }
            Const::Ty(_, ct) => {
                v.push(("tyconst", s(format!("{}", ct))));
            }
            Const::Val(cv, _) => {
                if let ConstValue::ZeroSized = cv {
                    v.push(("zst", J::Bool(true)));
                }
                if let ConstValue::Scalar(rustc_middle::mir::interpret::Scalar::Ptr(ptr, _)) = cv {
                    let (prov, off) = ptr.into_raw_parts();
                    match tcx.global_alloc(prov.alloc_id()) {
                        rustc_middle::mir::interpret::GlobalAlloc::Static(sd) => {
                            v.push(("static", s(def_str(tcx, sd))));
                        }
                        rustc_middle::mir::interpret::GlobalAlloc::Memory(alloc) => {
                            let a = alloc.inner();
                            let len = a.len();
                            let off = off.bytes() as usize;
                            if len <= 4096 && off <= len && a.provenance().ptrs().is_empty() {
                                let bytes = a.inspect_with_uninit_and_ptr_outside_interpreter(off..len);
                                v.push(("bytes", J::Arr(bytes.iter().map(|b| J::Num(*b as i128)).collect())));
                            }
                        }
                        _ => {}
                    }
                }
            }
        }
        v.push(("v", self.scalar_value(&k)));
        v.push(("dbg", s(format!("{}", k))));
        obj(v)
    }

    fn operand(&self, o: &Operand<'tcx>) -> J {
        match o {
            Operand::Copy(p) => obj(vec![("c", self.place(p))]),
            Operand::Move(p) => obj(vec![("m", self.place(p))]),
            Operand::Constant(c) => obj(vec![("k", self.constant(c))]),
            other => obj(vec![("other", s(format!("{:?}", other)))]),
        }
    }

    fn rvalue(&self, r: &Rvalue<'tcx>) -> J {
        let tcx = self.tcx;
        match r {
            Rvalue::Use(o, _) => obj(vec![("r", s("use")), ("o", self.operand(o))]),
            Rvalue::Repeat(o, n) => obj(vec![
                ("r", s("repeat")),
                ("o", self.operand(o)),
                ("n", s(format!("{}", n))),
            ]),
            Rvalue::Ref(_, bk, p) => obj(vec![
                ("r", s("ref")),
                ("mut", J::Bool(matches!(bk, mir::BorrowKind::Mut { .. }))),
                ("p", self.place(p)),
            ]),
            Rvalue::RawPtr(k, p) => obj(vec![
                ("r", s("rawptr")),
                ("mut", J::Bool(matches!(k, mir::RawPtrKind::Mut))),
                ("p", self.place(p)),
            ]),
            Rvalue::ThreadLocalRef(d) => obj(vec![("r", s("tls")), ("def", s(def_str(tcx, *d)))]),
            Rvalue::Cast(k, o, t) => obj(vec![
                ("r", s("cast")),
                ("kind", s(format!("{:?}", k))),
                ("o", self.operand(o)),
                ("ty", s(ty_str(*t))),
            ]),
            Rvalue::BinaryOp(op, b) => obj(vec![
                ("r", s("bin")),
                ("op", s(format!("{:?}", op))),
                ("a", self.operand(&b.0)),
                ("b", self.operand(&b.1)),
            ]),
            Rvalue::UnaryOp(op, o) => obj(vec![
                ("r", s("un")),
                ("op", s(format!("{:?}", op))),
                ("o", self.operand(o)),
            ]),
            Rvalue::Discriminant(p) => obj(vec![("r", s("discr")), ("p", self.place(p))]),
            Rvalue::Aggregate(k, ops) => {
                let mut v = vec![("r", s("agg"))];
                match &**k {
                    AggregateKind::Array(t) => {
                        v.push(("agg", s("array")));
                        v.push(("ty", s(ty_str(*t))));
                    }
                    AggregateKind::Tuple => v.push(("agg", s("tuple"))),
                    AggregateKind::Adt(did, vi, args, _, _) => {
                        v.push(("agg", s("adt")));
                        v.push(("def", s(def_str(tcx, *did))));
                        v.push(("variant", J::Num(vi.as_usize() as i128)));
                        let adt = tcx.adt_def(*did);
                        let var = adt.variant(*vi);
                        v.push(("vname", s(var.name.to_string())));
                        v.push((
                            "fields",
                            J::Arr(var.fields.iter().map(|f| s(f.name.to_string())).collect()),
                        ));
                        v.push(("args", J::Arr(args.iter().map(|a| s(format!("{}", a))).collect())));
                    }
                    AggregateKind::Closure(did, _) => {
                        v.push(("agg", s("closure")));
                        v.push(("def", s(def_str(tcx, *did))));
                    }
                    AggregateKind::RawPtr(t, m) => {
                        v.push(("agg", s("rawptr")));
                        v.push(("ty", s(ty_str(*t))));
                        v.push(("mut", J::Bool(m.is_mut())));
                    }
                    other => {
                        v.push(("agg", s("other")));
                        v.push(("dbg", s(format!("{:?}", other))));
                    }
                }
                v.push(("ops", J::Arr(ops.iter().map(|o| self.operand(o)).collect())));
                obj(v)
            }
            Rvalue::CopyForDeref(p) => obj(vec![("r", s("use")), ("o", obj(vec![("c", self.place(p))]))]),
            Rvalue::WrapUnsafeBinder(o, _) => obj(vec![("r", s("use")), ("o", self.operand(o))]),
        }
    }

    fn callee(&self, func: &Operand<'tcx>) -> J {
        let tcx = self.tcx;
        let fty = func.ty(self.body, tcx);
        match fty.kind() {
            ty::FnDef(did, args) => {
                let mut v = vec![
                    ("def", s(def_str(tcx, *did))),
                    ("inst", s(tcx.def_path_str_with_args(*did, args))),
                    ("args", J::Arr(args.iter().map(|a| s(format!("{}", a))).collect())),
                    ("local", J::Bool(did.is_local())),
                    ("krate", s(tcx.crate_name(did.krate).to_string())),
                ];
                let dk = tcx.def_kind(*did);
                if matches!(dk, DefKind::Fn | DefKind::AssocFn) {
                    let sig = tcx.fn_sig(*did).skip_binder();
                    v.push(("unsafe", J::Bool(sig.safety().is_unsafe())));
                    v.push(("ret", s(ty_str(sig.output().skip_binder()))));
                }
                if let Some(tr) = tcx.trait_of_assoc(*did) {
                    v.push(("trait", s(def_str(tcx, tr))));
                    if args.len() > 0 {
                        if let Some(t0) = args[0].as_type() {
                            v.push(("self_ty", ty_j(tcx, t0)));
                        }
                    }
                }
                if let Some(im) = tcx.impl_of_assoc(*did) {
                    v.push(("impl_self", s(ty_str(tcx.type_of(im).instantiate_identity().skip_norm_wip()))));
                }
                if matches!(dk, DefKind::Fn | DefKind::AssocFn) {
                    if let Ok(Some(inst)) = ty::Instance::try_resolve(tcx, self.typing_env, *did, args) {
                        let rd = inst.def_id();
                        v.push((
                            "res",
                            obj(vec![
                                ("def", s(def_str(tcx, rd))),
                                ("inst", s(tcx.def_path_str_with_args(rd, inst.args))),
                                ("kind", s(format!("{:?}", std::mem::discriminant(&inst.def)))),
                                ("is_item", J::Bool(matches!(inst.def, ty::InstanceKind::Item(_)))),
                                ("local", J::Bool(rd.is_local())),
                            ]),
                        ));
                    }
                }
                obj(v)
            }
            _ => obj(vec![("indirect", s(ty_str(fty)))]),
        }
    }

    fn terminator(&self, t: &mir::Terminator<'tcx>) -> J {
        let tcx = self.tcx;
        let bbj = |b: BasicBlock| J::Num(b.as_usize() as i128);
        let unwind = |u: &mir::UnwindAction| match u {
            mir::UnwindAction::Cleanup(b) => bbj(*b),
            _ => J::Null,
        };
        let mut v = match &t.kind {
            TerminatorKind::Goto { target } => vec![("t", s("goto")), ("target", bbj(*target))],
            TerminatorKind::SwitchInt { discr, targets } => {
                let mut ts = Vec::new();
                for (val, bb) in targets.iter() {
                    ts.push(J::Arr(vec![
                        if val > i128::MAX as u128 { J::Str(format!("{}", val)) } else { J::Num(val as i128) },
                        bbj(bb),
                    ]));
                }
                vec![
                    ("t", s("switch")),
                    ("discr", self.operand(discr)),
                    ("discr_ty", s(ty_str(discr.ty(self.body, tcx)))),
                    ("targets", J::Arr(ts)),
                    ("otherwise", bbj(targets.otherwise())),
                ]
            }
            TerminatorKind::UnwindResume => vec![("t", s("resume"))],
            TerminatorKind::UnwindTerminate(_) => vec![("t", s("terminate"))],
            TerminatorKind::Return => vec![("t", s("return"))],
            TerminatorKind::Unreachable => vec![("t", s("unreachable"))],
            TerminatorKind::Drop { place, target, unwind: u, .. } => vec![
                ("t", s("drop")),
                ("place", self.place(place)),
                ("place_ty", s(ty_str(place.ty(self.body, tcx).ty))),
                ("target", bbj(*target)),
                ("unwind", unwind(u)),
            ],
            TerminatorKind::Call { func, args, destination, target, unwind: u, fn_span, .. } => vec![
                ("t", s("call")),
                ("callee", self.callee(func)),
                ("args", J::Arr(args.iter().map(|a| self.operand(&a.node)).collect())),
                ("arg_tys", J::Arr(args.iter().map(|a| s(ty_str(a.node.ty(self.body, tcx)))).collect())),
                ("dest", self.place(destination)),
                ("dest_ty", s(ty_str(destination.ty(self.body, tcx).ty))),
                ("target", match target { Some(b) => bbj(*b), None => J::Null }),
                ("unwind", unwind(u)),
                ("fn_span", s(span_str(tcx, *fn_span))),
            ],
            TerminatorKind::TailCall { func, args, .. } => vec![
                ("t", s("tailcall")),
                ("callee", self.callee(func)),
                ("args", J::Arr(args.iter().map(|a| self.operand(&a.node)).collect())),
            ],
            TerminatorKind::Assert { cond, expected, msg, target, unwind: u } => {
                let (kind, ops): (String, Vec<J>) = match &**msg {
                    mir::AssertKind::BoundsCheck { len, index } => {
                        ("BoundsCheck".into(), vec![self.operand(len), self.operand(index)])
                    }
                    mir::AssertKind::Overflow(op, a, b) => {
                        (format!("Overflow({:?})", op), vec![self.operand(a), self.operand(b)])
                    }
                    mir::AssertKind::OverflowNeg(a) => ("OverflowNeg".into(), vec![self.operand(a)]),
                    mir::AssertKind::DivisionByZero(a) => ("DivisionByZero".into(), vec![self.operand(a)]),
                    mir::AssertKind::RemainderByZero(a) => ("RemainderByZero".into(), vec![self.operand(a)]),
                    mir::AssertKind::MisalignedPointerDereference { required, found } => (
                        "MisalignedPointerDereference".into(),
                        vec![self.operand(required), self.operand(found)],
                    ),
                    mir::AssertKind::NullPointerDereference => ("NullPointerDereference".into(), vec![]),
                    other => (format!("{:?}", std::mem::discriminant(other)), vec![]),
                };
                vec![
                    ("t", s("assert")),
                    ("cond", self.operand(cond)),
                    ("expected", J::Bool(*expected)),
                    ("kind", s(kind)),
                    ("ops", J::Arr(ops)),
                    ("target", bbj(*target)),
                    ("unwind", unwind(u)),
                ]
            }
            TerminatorKind::FalseEdge { real_target, .. } => vec![("t", s("goto")), ("target", bbj(*real_target))],
            TerminatorKind::FalseUnwind { real_target, .. } => vec![("t", s("goto")), ("target", bbj(*real_target))],
            other => vec![("t", s("other")), ("dbg", s(format!("{:?}", other)))],
        };
        v.push(("sp", s(span_str(tcx, t.source_info.span))));
        v.push(("exp", J::Bool(t.source_info.span.from_expansion())));
        obj(v)
    }

    fn body_j(&self) -> J {
        let tcx = self.tcx;
        let body = self.body;
        let mut names: Vec<Option<String>> = vec![None; body.local_decls.len()];
        for vdi in body.var_debug_info.iter() {
            if let mir::VarDebugInfoContents::Place(p) = &vdi.value {
                if p.projection.is_empty() {
                    names[p.local.as_usize()] = Some(vdi.name.to_string());
                }
            }
        }
        let mut locals = Vec::new();
        for (l, d) in body.local_decls.iter_enumerated() {
            locals.push(obj(vec![
                ("ty", ty_j(tcx, d.ty)),
                ("name", match &names[l.as_usize()] { Some(n) => s(n.clone()), None => J::Null }),
                ("mut", J::Bool(d.mutability.is_mut())),
            ]));
        }
        let mut blocks = Vec::new();
        for (_bb, data) in body.basic_blocks.iter_enumerated() {
            let mut stmts = Vec::new();
            for st in data.statements.iter() {
                let j = match &st.kind {
                    StatementKind::Assign(b) => Some(vec![
                        ("s", s("assign")),
                        ("lhs", self.place(&b.0)),
                        ("rv", self.rvalue(&b.1)),
                    ]),
                    StatementKind::SetDiscriminant { place, variant_index } => Some(vec![
                        ("s", s("setdiscr")),
                        ("lhs", self.place(place)),
                        ("variant", J::Num(variant_index.as_usize() as i128)),
                    ]),
                    StatementKind::Intrinsic(i) => Some(vec![("s", s("intrinsic")), ("dbg", s(format!("{:?}", i)))]),
                    _ => None,
                };
                if let Some(mut v) = j {
                    v.push(("sp", s(span_str(tcx, st.source_info.span))));
                    v.push(("exp", J::Bool(st.source_info.span.from_expansion())));
                    stmts.push(obj(v));
                }
            }
            blocks.push(obj(vec![
                ("stmts", J::Arr(stmts)),
                ("term", self.terminator(data.terminator())),
                ("cleanup", J::Bool(data.is_cleanup)),
            ]));
        }
        obj(vec![
            ("arg_count", J::Num(body.arg_count as i128)),
            ("locals", J::Arr(locals)),
            ("blocks", J::Arr(blocks)),
        ])
    }
}

fn collect_const_defs<'tcx>(tcx: TyCtxt<'tcx>, r: &Rvalue<'tcx>, out: &mut Vec<String>) {
    let mut op = |o: &Operand<'tcx>| {
        if let Operand::Constant(c) = o {
            if let Const::Unevaluated(uv, _) = c.const_ {
                out.push(def_str(tcx, uv.def));
            }
        }
    };
    match r {
        Rvalue::Use(o, _) | Rvalue::Cast(_, o, _) | Rvalue::UnaryOp(_, o) | Rvalue::Repeat(o, _) => op(o),
        Rvalue::BinaryOp(_, b) => {
            op(&b.0);
            op(&b.1)
        }
        Rvalue::Aggregate(_, ops) => {
            for o in ops.iter() {
                op(o)
            }
        }
        _ => {}
    }
}

fn doc_of(tcx: TyCtxt<'_>, did: DefId) -> String {
    let mut out = String::new();
    for a in tcx.get_all_attrs(did).iter() {
        if let Some(d) = a.doc_str() {
            out.push_str(d.as_str());
            out.push('\n');
        }
    }
    out
}

fn vis_str(tcx: TyCtxt<'_>, did: DefId) -> String {
    match tcx.visibility(did) {
        ty::Visibility::Public => "pub".to_string(),
        ty::Visibility::Restricted(m) => format!("restricted({})", def_str(tcx, m)),
    }
}

fn const_value_j<'tcx>(tcx: TyCtxt<'tcx>, did: DefId) -> J {
    // Evaluated value of a const/static whose type is an integer or an array of integers.
    let t = tcx.type_of(did).instantiate_identity().skip_norm_wip();
    let is_array = matches!(t.kind(), ty::Array(..));
    let (elem, count): (Ty<'tcx>, Option<u64>) = match t.kind() {
        ty::Array(e, n) => (*e, n.try_to_target_usize(tcx)),
        _ => (t, None),
    };
    let esize: u64 = match elem.kind() {
        ty::Uint(u) => u.bit_width().unwrap_or(64) / 8,
        ty::Int(i) => i.bit_width().unwrap_or(64) / 8,
        ty::Bool => 1,
        _ => return J::Null,
    };
    let signed = matches!(elem.kind(), ty::Int(_));
    let is_static = matches!(tcx.def_kind(did), DefKind::Static { .. });
    let read = |bytes: &[u8]| -> Vec<J> {
        bytes
            .chunks(esize as usize)
            .map(|c| {
                let mut v: u128 = 0;
                for (i, b) in c.iter().enumerate() {
                    v |= (*b as u128) << (8 * i);
                }
                if signed {
                    let sh = 128 - 8 * esize as u32;
                    J::Num(((v << sh) as i128) >> sh)
                } else if v > i128::MAX as u128 {
                    J::Str(format!("{}", v))
                } else {
                    J::Num(v as i128)
                }
            })
            .collect()
    };
    if is_static {
        return J::Null;
    }
    match tcx.const_eval_poly(did) {
        Ok(ConstValue::Scalar(sc)) => {
            if let Ok(si) = sc.try_to_scalar_int() {
                let bits = si.to_bits(si.size());
                let bytes: Vec<u8> = (0..esize).map(|i| ((bits >> (8 * i)) & 0xff) as u8).collect();
                let v = read(&bytes);
                v.into_iter().next().unwrap_or(J::Null)
            } else {
                J::Null
            }
        }
        Ok(ConstValue::Indirect { alloc_id, offset }) => {
            let alloc = tcx.global_alloc(alloc_id).unwrap_memory();
            let off = offset.bytes() as usize;
            // an array whose length is an unevaluated expression (`[u64; WORD_BITS + 1]`): the allocation is the whole value
            let total = match count {
                Some(n) => (n * esize) as usize,
                None if is_array => alloc.inner().len().saturating_sub(off),
                None => esize as usize,
            };
            let bytes = alloc.inner().inspect_with_uninit_and_ptr_outside_interpreter(off..off + total);
            let v = read(bytes);
            if is_array {
                J::Arr(v)
            } else {
                v.into_iter().next().unwrap_or(J::Null)
            }
        }
        _ => J::Null,
    }
}

fn dump<'tcx>(tcx: TyCtxt<'tcx>) -> J {
    let mut bodies = Vec::new();
    let mut adts = Vec::new();
    let mut impls = Vec::new();
    let mut traits = Vec::new();
    let mut consts = Vec::new();
    let mut statics = Vec::new();
    let mut fns = Vec::new();

    for ldid in tcx.hir_crate_items(()).definitions() {
        let did = ldid.to_def_id();
        let kind = tcx.def_kind(did);
        match kind {
            DefKind::Struct | DefKind::Enum | DefKind::Union => {
                let adt = tcx.adt_def(did);
                let mut variants = Vec::new();
                for var in adt.variants().iter() {
                    let mut fields = Vec::new();
                    for f in var.fields.iter() {
                        fields.push(obj(vec![
                            ("name", s(f.name.to_string())),
                            ("ty", ty_j(tcx, tcx.type_of(f.did).instantiate_identity().skip_norm_wip())),
                            ("vis", s(vis_str(tcx, f.did))),
                        ]));
                    }
                    variants.push(obj(vec![("name", s(var.name.to_string())), ("fields", J::Arr(fields))]));
                }
                adts.push(obj(vec![
                    ("def", s(def_str(tcx, did))),
                    ("kind", s(format!("{:?}", kind))),
                    ("vis", s(vis_str(tcx, did))),
                    ("variants", J::Arr(variants)),
                    ("span", s(span_str(tcx, tcx.def_span(did)))),
                ]));
            }
            DefKind::Trait => {
                let td = tcx.trait_def(did);
                let mut items = Vec::new();
                for it in tcx.associated_items(did).in_definition_order() {
                    let mut v = vec![
                        ("name", s(it.name().to_string())),
                        ("def", s(def_str(tcx, it.def_id))),
                        ("kind", s(format!("{:?}", it.tag()))),
                        ("has_default", J::Bool(it.defaultness(tcx).has_value())),
                    ];
                    if it.is_fn() {
                        let sig = tcx.fn_sig(it.def_id).skip_binder();
                        v.push(("unsafe", J::Bool(sig.safety().is_unsafe())));
                        v.push(("doc", s(doc_of(tcx, it.def_id))));
                    }
                    items.push(obj(v));
                }
                let supers: Vec<J> = tcx
                    .explicit_super_predicates_of(did)
                    .iter_identity_copied()
                    .map(|u| s(format!("{}", u.skip_norm_wip().0)))
                    .collect();
                traits.push(obj(vec![
                    ("def", s(def_str(tcx, did))),
                    ("unsafe", J::Bool(td.safety.is_unsafe())),
                    ("vis", s(vis_str(tcx, did))),
                    ("items", J::Arr(items)),
                    ("supers", J::Arr(supers)),
                    ("span", s(span_str(tcx, tcx.def_span(did)))),
                ]));
            }
            DefKind::Impl { of_trait } => {
                let self_ty = tcx.type_of(did).instantiate_identity().skip_norm_wip();
                let mut v = vec![
                    ("def", s(def_str(tcx, did))),
                    ("self_ty", ty_j(tcx, self_ty)),
                    ("of_trait", J::Bool(of_trait)),
                    ("derived", J::Bool(tcx.is_automatically_derived(did))),
                    ("span", s(span_str(tcx, tcx.def_span(did)))),
                ];
                if of_trait {
                    let tr = tcx.impl_trait_ref(did).instantiate_identity().skip_norm_wip();
                    v.push(("trait", s(def_str(tcx, tr.def_id))));
                    v.push(("trait_ref", s(format!("{}", tr))));
                    v.push(("trait_args", J::Arr(tr.args.iter().map(|a| s(format!("{}", a))).collect())));
                    let header = tcx.impl_trait_header(did);
                    v.push(("unsafe", J::Bool(header.safety.is_unsafe())));
                }
                let mut items = Vec::new();
                for it in tcx.associated_items(did).in_definition_order() {
                    items.push(obj(vec![
                        ("name", s(it.name().to_string())),
                        ("def", s(def_str(tcx, it.def_id))),
                        ("kind", s(format!("{:?}", it.tag()))),
                    ]));
                }
                v.push(("items", J::Arr(items)));
                if !self_ty.has_param() && !self_ty.has_escaping_bound_vars() && !self_ty.has_free_regions() {
                    let env = ty::TypingEnv::fully_monomorphized();
                    if let Ok(layout) = tcx.layout_of(env.as_query_input(self_ty)) {
                        v.push(("size", J::Num(layout.size.bytes() as i128)));
                        v.push(("align", J::Num(layout.align.abi.bytes() as i128)));
                    }
                    v.push(("copy", J::Bool(tcx.type_is_copy_modulo_regions(env, self_ty))));
                    v.push(("needs_drop", J::Bool(self_ty.needs_drop(tcx, env))));
                }
                let preds: Vec<J> = tcx
                    .predicates_of(did)
                    .instantiate_identity(tcx)
                    .predicates
                    .iter()
                    .map(|p| s(format!("{}", p.skip_norm_wip())))
                    .collect();
                v.push(("preds", J::Arr(preds)));
                impls.push(obj(v));
            }
            DefKind::Const { .. } | DefKind::AssocConst { .. } => {
                let t = tcx.type_of(did).instantiate_identity().skip_norm_wip();
                // trait-declared assoc consts without value cannot be evaluated
                let evaluable = match tcx.opt_associated_item(did) {
                    Some(ai) => ai.defaultness(tcx).has_value(),
                    None => true,
                };
                let val = if evaluable { const_value_j(tcx, did) } else { J::Null };
                consts.push(obj(vec![
                    ("def", s(def_str(tcx, did))),
                    ("ty", s(ty_str(t))),
                    ("vis", s(vis_str(tcx, did))),
                    ("value", val),
                    ("span", s(span_str(tcx, tcx.def_span(did)))),
                ]));
            }
            DefKind::Static { mutability, .. } => {
                let t = tcx.type_of(did).instantiate_identity().skip_norm_wip();
                statics.push(obj(vec![
                    ("def", s(def_str(tcx, did))),
                    ("ty", ty_j(tcx, t)),
                    ("mut", J::Bool(mutability.is_mut())),
                    ("vis", s(vis_str(tcx, did))),
                    ("span", s(span_str(tcx, tcx.def_span(did)))),
                ]));
            }
            DefKind::Fn | DefKind::AssocFn => {
                let sig = tcx.fn_sig(did).skip_binder();
                let mut v = vec![
                    ("def", s(def_str(tcx, did))),
                    ("kind", s(format!("{:?}", kind))),
                    ("vis", s(vis_str(tcx, did))),
                    ("unsafe", J::Bool(sig.safety().is_unsafe())),
                    ("sig", s(format!("{}", sig))),
                    ("doc", s(doc_of(tcx, did))),
                    ("span", s(span_str(tcx, tcx.def_span(did)))),
                    ("has_body", J::Bool(tcx.is_mir_available(did))),
                ];
                // generic parameters in the order of the call's generic arguments (parent's first): name + whether it is a lifetime
                {
                    let mut gens = Vec::new();
                    let g = tcx.generics_of(did);
                    let mut stack = vec![g];
                    let mut cur = g;
                    while let Some(p) = cur.parent {
                        cur = tcx.generics_of(p);
                        stack.push(cur);
                    }
                    for gg in stack.iter().rev() {
                        for prm in gg.own_params.iter() {
                            gens.push(obj(vec![
                                ("name", s(prm.name.to_string())),
                                ("lifetime", J::Bool(matches!(prm.kind, ty::GenericParamDefKind::Lifetime))),
                            ]));
                        }
                    }
                    v.push(("generics", J::Arr(gens)));
                }
                if let Some(im) = tcx.impl_of_assoc(did) {
                    v.push(("impl", s(def_str(tcx, im))));
                    v.push(("impl_self", s(ty_str(tcx.type_of(im).instantiate_identity().skip_norm_wip()))));
                    if let Some(tr) = tcx.impl_opt_trait_ref(im) {
                        let tr = tr.instantiate_identity().skip_norm_wip();
                        v.push(("impl_trait", s(def_str(tcx, tr.def_id))));
                        v.push(("impl_trait_ref", s(format!("{}", tr))));
                    }
                }
                if let Some(tr) = tcx.trait_of_assoc(did) {
                    v.push(("trait", s(def_str(tcx, tr))));
                }
                v.push(("name", s(tcx.item_name(did).to_string())));
                fns.push(obj(v));
            }
            _ => {}
        }
    }

    for ldid in tcx.mir_keys(()) {
        let did = ldid.to_def_id();
        let kind = tcx.def_kind(did);
        if !matches!(kind, DefKind::Fn | DefKind::AssocFn | DefKind::Closure) {
            continue;
        }
        let body = tcx.optimized_mir(did);
        let typing_env = ty::TypingEnv::post_analysis(tcx, did);
        let cx = Cx { tcx, body, def: did, typing_env };
        let _ = cx.def;
        let mut v = vec![
            ("def", s(def_str(tcx, did))),
            ("kind", s(format!("{:?}", kind))),
            ("span", s(span_str(tcx, body.span))),
            ("from_expansion", J::Bool(body.span.from_expansion())),
        ];
        if kind == DefKind::Closure {
            let parent = tcx.typeck_root_def_id(did);
            v.push(("parent", s(def_str(tcx, parent))));
            let caps: Vec<J> = tcx
                .closure_captures(*ldid)
                .iter()
                .map(|c| {
                    obj(vec![
                        ("name", s(c.to_string(tcx))),
                        ("byref", J::Bool(c.is_by_ref())),
                    ])
                })
                .collect();
            v.push(("captures", J::Arr(caps)));
        }
        v.push(("mir", cx.body_j()));
        // promoted constants of this body (`&(1..=N)`, `&None`, ...): dumped as bodies of their own so that a rule can read how
        // the constant was built
        let proms = tcx.promoted_mir(did);
        let mut pj = Vec::new();
        for pb in proms.iter() {
            let pcx = Cx { tcx, body: pb, def: did, typing_env };
            pj.push(pcx.body_j());
        }
        v.push(("promoted", J::Arr(pj)));
        bodies.push(obj(v));
    }

    let sess = tcx.sess;
    let feats: Vec<J> = sess.target_features.iter().map(|f| s(f.to_string())).collect();
    obj(vec![
        ("crate", s(tcx.crate_name(LOCAL_CRATE).to_string())),
        ("target", obj(vec![
            ("endian", s(format!("{:?}", tcx.data_layout.endian))),
            ("pointer_bits", J::Num(tcx.data_layout.pointer_size().bits() as i128)),
            ("features", J::Arr(feats)),
            ("overflow_checks", J::Bool(sess.overflow_checks())),
            ("debug_assertions", J::Bool(sess.opts.debug_assertions)),
            ("arch", s(sess.target.arch.to_string())),
        ])),
        ("fns", J::Arr(fns)),
        ("bodies", J::Arr(bodies)),
        ("adts", J::Arr(adts)),
        ("impls", J::Arr(impls)),
        ("traits", J::Arr(traits)),
        ("consts", J::Arr(consts)),
        ("statics", J::Arr(statics)),
    ])
}
