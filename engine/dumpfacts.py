#!/usr/bin/env python3
"""Developer helper: dump facts of /repo (or VERIF_REPO) for a configuration to a file."""
import json, os, sys
sys.path.insert(0, os.path.join(os.path.dirname(os.path.abspath(__file__)), "rules"))
from facts import run_driver
cfg = sys.argv[1] if len(sys.argv) > 1 else "native"
out = sys.argv[2] if len(sys.argv) > 2 else "/tmp/facts_%s.json" % cfg
repo = sys.argv[3] if len(sys.argv) > 3 else None
d = run_driver(cfg, repo=repo)
json.dump(d, open(out, "w"))
print(out, d["_driver_wall_s"], "s")
