//! Positive controls: tiny examples that the zero-count rules must match on every thorough run
//! (a rule that is expected to find nothing in /repo could otherwise pass vacuously forever).
use std::io::{Read, Write};

/// C14.R2: a partial read whose count is ignored.
pub fn partial_read<R: Read>(r: &mut R) -> std::io::Result<[u8; 8]> {
    let mut buf = [0u8; 8];
    r.read(&mut buf)?;
    Ok(buf)
}

/// C14.R2: a partial write whose count is ignored.
pub fn partial_write<W: Write>(w: &mut W, v: u64) -> std::io::Result<()> {
    w.write(&v.to_ne_bytes())?;
    Ok(())
}

/// C14.R1: a dropped Result.
pub fn dropped_result<W: Write>(w: &mut W) {
    let _ = w.write_all(b"x");
}

/// C07.R2: a byte-order conversion on the write path.
pub fn big_endian(v: u64) -> [u8; 8] {
    v.to_be_bytes()
}

/// C08.R1: an unsafe call in a safe function with no guard.
pub fn unguarded(v: &[u64], i: usize) -> u64 {
    unsafe { *v.get_unchecked(i) }
}

/// C14.R2b: a buffered writer that is dropped without flush() (the error of the last write is lost).
pub fn unflushed<W: Write>(w: W, v: u64) -> std::io::Result<()> {
    let mut bw = std::io::BufWriter::new(w);
    bw.write_all(&v.to_ne_bytes())?;
    Ok(())
}

/// C17.R5: an and-mask built by widening the complement of a narrower value (clears the upper 32 bits as well).
pub fn narrow_mask(n: usize) -> usize {
    (n + 63) & !(u64::BITS - 1) as usize
}

/// C10.R7: an iterator returned after a scan that consumed the item it stopped at.
pub fn scan_and_hand_on(v: &[usize], limit: usize) -> (usize, std::slice::Iter<'_, usize>) {
    let mut seen = 0;
    let mut iter = v.iter();
    while let Some(x) = iter.next() {
        if *x <= limit {
            seen += 1;
        } else {
            break;
        }
    }
    (seen, iter)
}

/// W1: a length pushed through a narrower type.
pub fn narrow_len(len: usize) -> u64 {
    len as u32 as u64
}

/// W2: arithmetic in a narrow type, widened afterwards.
pub fn narrow_sum(a: u8) -> usize {
    (a + 1) as usize
}
