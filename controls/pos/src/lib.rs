//! Positive controls: tiny examples that the zero-count rules must match on every thorough run
//! (a rule that is expected to find nothing in /repo could otherwise pass vacuously forever).
use std::io::{Read, Write};

/// C14.R2: a partial read whose count is ignored.
pub fn partial_read<R: Read>(r: &mut R) -> std::io::Result<[u8; 8]> {
    let mut buf = [0u8; 8];
    r.read(&mut buf)?;
    Ok(buf)
}

/// C14.R2: a partial write whose count is ignored.
pub fn partial_write<W: Write>(w: &mut W, v: u64) -> std::io::Result<()> {
    w.write(&v.to_ne_bytes())?;
    Ok(())
}

/// C14.R1: a dropped Result.
pub fn dropped_result<W: Write>(w: &mut W) {
    let _ = w.write_all(b"x");
}

/// C07.R2: a byte-order conversion on the write path (reached from a function of a `serialize` module, as the rule's
/// call-graph restriction requires; `reversed_bytes` below is the same call off that path and must not be reported).
pub fn big_endian(v: u64) -> [u8; 8] {
    v.to_be_bytes()
}

pub mod serialize {
    /// Writes one element -- in the wrong byte order.
    pub fn write_element(v: u64, out: &mut Vec<u8>) {
        out.extend_from_slice(&super::big_endian(v));
    }
}

/// Not on the write path: a bit trick spelled with byte conversions.
pub fn reversed_bytes(v: u64) -> u64 {
    u64::from_le_bytes(v.to_be_bytes())
}

/// C08.R1: an unsafe call in a safe function with no guard.
pub fn unguarded(v: &[u64], i: usize) -> u64 {
    unsafe { *v.get_unchecked(i) }
}

/// C14.R2b: a buffered writer that is dropped without flush() (the error of the last write is lost).
pub fn unflushed<W: Write>(w: W, v: u64) -> std::io::Result<()> {
    let mut bw = std::io::BufWriter::new(w);
    bw.write_all(&v.to_ne_bytes())?;
    Ok(())
}

/// C17.R5: an and-mask built by widening the complement of a narrower value (clears the upper 32 bits as well).
pub fn narrow_mask(n: usize) -> usize {
    (n + 63) & !(u64::BITS - 1) as usize
}

/// C10.R7: an iterator returned after a scan that consumed the item it stopped at.
pub fn scan_and_hand_on(v: &[usize], limit: usize) -> (usize, std::slice::Iter<'_, usize>) {
    let mut seen = 0;
    let mut iter = v.iter();
    while let Some(x) = iter.next() {
        if *x <= limit {
            seen += 1;
        } else {
            break;
        }
    }
    (seen, iter)
}

/// W1: a length pushed through a narrower type.
pub fn narrow_len(len: usize) -> u64 {
    len as u32 as u64
}

/// W2: arithmetic in a narrow type, widened afterwards.
pub fn narrow_sum(a: u8) -> usize {
    (a + 1) as usize
}

/// W4: an advisory quantity (size_hint) used as a length.
pub fn trust_hint<I: Iterator<Item = bool>>(it: I) -> Vec<bool> {
    let (lower, _) = it.size_hint();
    let mut v = vec![false; lower];
    for (i, b) in it.enumerate() {
        v[i] = b;
    }
    v
}

/// W4: a branch on the capacity of a vector.
pub fn by_capacity(v: &Vec<u64>, x: u64) -> u64 {
    if v.capacity() > 4 { x } else { 0 }
}

/// W5: a shift by a width that can be the whole word.
pub fn shift_by_width(w: usize) -> u64 {
    let w = w.min(64);
    (1u64 << w) - 1
}

/// W6: take_while on a borrowed iterator that is used again (the first item of every later group is lost).
pub fn groups_below(v: &[usize], limits: &[usize]) -> Vec<Vec<usize>> {
    let mut iter = v.iter().copied();
    let mut out = Vec::new();
    for &limit in limits {
        out.push(iter.by_ref().take_while(|x| *x < limit).collect());
    }
    out
}

/// C14.R1c: io::Result used as an iterator (an Err yields nothing and is gone), and `.ok()` on an io::Result.
pub fn load_all<R: Read>(r: &mut R, n: usize) -> Vec<[u8; 8]> {
    (0..n).flat_map(|_| { let mut buf = [0u8; 8]; r.read_exact(&mut buf).map(|_| buf) }).collect()
}
pub fn write_quietly<W: Write>(w: &mut W) -> Option<()> {
    w.write_all(b"x").ok()
}
