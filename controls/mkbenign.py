#!/usr/bin/env python3
"""Developer helper: author a behaviour-preserving variant (must NOT be reported).  usage: mkbenign.py <name> <file> <old> <new> [...]"""
import json, os, shutil, subprocess, sys, tempfile
HERE = os.path.dirname(os.path.abspath(__file__))
name = sys.argv[1]; edits = sys.argv[2:]
tmp = tempfile.mkdtemp(prefix="mkbenign-")
try:
    a = os.path.join(tmp, "a"); b = os.path.join(tmp, "b")
    for d in (a, b):
        subprocess.check_call(["rsync", "-a", "--exclude", "target", "--exclude", ".git", "/repo/", d + "/"])
    for i in range(0, len(edits), 3):
        f, old, new = edits[i:i+3]
        p = os.path.join(b, f); s = open(p).read()
        if s.count(old) != 1: sys.exit("edit %d: %r occurs %d times" % (i // 3, old, s.count(old)))
        open(p, "w").write(s.replace(old, new))
    r = subprocess.run(["diff", "-ruN", "a", "b"], cwd=tmp, stdout=subprocess.PIPE, text=True)
    os.makedirs(os.path.join(HERE, "benign"), exist_ok=True)
    open(os.path.join(HERE, "benign", name + ".patch"), "w").write(r.stdout)
finally:
    shutil.rmtree(tmp, ignore_errors=True)
print("wrote benign", name)
