#!/usr/bin/env python3
"""Developer helper: author a seeded variant.
usage: mkpatch.py [--base <benign-variant>] <name> <property> <expected-key-substring> <file> <old> <new> [<file> <old> <new> ...]
Creates controls/patches/<name>.patch and registers it in controls/controls.json.
"""
import json, os, shutil, subprocess, sys, tempfile
HERE = os.path.dirname(os.path.abspath(__file__))
base = None
if sys.argv[1] == "--base":      # start from a behaviour-preserving variant (controls/benign/<x>.patch): the mutant is written in its idiom
    base = os.path.join(HERE, "benign", sys.argv[2] + ".patch")
    del sys.argv[1:3]
name, prop, expect = sys.argv[1:4]
edits = sys.argv[4:]
assert len(edits) % 3 == 0 and edits
tmp = tempfile.mkdtemp(prefix="mkpatch-")
try:
    a = os.path.join(tmp, "a"); b = os.path.join(tmp, "b")
    for d in (a, b):
        subprocess.check_call(["rsync", "-a", "--exclude", "target", "--exclude", ".git", "/repo/", d + "/"])
    if base:
        subprocess.check_call(["patch", "-p1", "-s", "-i", base], cwd=b)
    for i in range(0, len(edits), 3):
        f, old, new = edits[i:i+3]
        p = os.path.join(b, f)
        s = open(p).read()
        if s.count(old) != 1:
            sys.exit("edit %d: %r occurs %d times in %s" % (i // 3, old, s.count(old), f))
        open(p, "w").write(s.replace(old, new))
    r = subprocess.run(["diff", "-ruN", "a", "b"], cwd=tmp, stdout=subprocess.PIPE, text=True)
    patch = r.stdout
    assert patch.strip()
    open(os.path.join(HERE, "patches", name + ".patch"), "w").write(patch)
finally:
    shutil.rmtree(tmp, ignore_errors=True)
reg = os.path.join(HERE, "controls.json")
data = json.load(open(reg)) if os.path.exists(reg) else {}
data[name] = {"property": prop, "expect": expect, "tests_pass_checked": data.get(name, {}).get("tests_pass_checked", False)}
json.dump(data, open(reg, "w"), indent=1, sort_keys=True)
print("wrote", name)
