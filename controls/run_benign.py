#!/usr/bin/env python3
"""Behaviour-preserving variants (controls/benign/*.patch): no check may print a VIOLATION on them. Exit 2 (undecided) is listed."""
import glob, json, os, shutil, subprocess, sys, tempfile
from concurrent.futures import ThreadPoolExecutor
HERE = os.path.dirname(os.path.abspath(__file__)); VERIF = os.path.dirname(HERE)
tests = "--tests" in sys.argv
names = [a for a in sys.argv[1:] if not a.startswith("--")]
def one(pf):
    name = os.path.basename(pf)[:-6]
    tmp = tempfile.mkdtemp(prefix="benign-")
    try:
        d = os.path.join(tmp, "repo")
        subprocess.check_call(["rsync", "-a", "--exclude", "target", "--exclude", ".git", "/repo/", d + "/"])
        p = subprocess.run(["patch", "-p1", "-s", "-i", pf], cwd=d, stdout=subprocess.PIPE, stderr=subprocess.STDOUT, text=True)
        if p.returncode != 0: return name, "skipped (patch no longer applies)", ""
        extra = ""
        if tests:
            env = dict(os.environ, CARGO_TARGET_DIR=os.path.join(tmp, "tgt"))
            t = subprocess.run(["cargo", "test", "--offline", "--lib", "--quiet"], cwd=d, env=env, stdout=subprocess.PIPE, stderr=subprocess.STDOUT, text=True)
            extra = " tests=%s" % ("pass" if t.returncode == 0 else "FAIL")
        c = subprocess.run([os.path.join(VERIF, "check"), "all", "--repo", d], cwd=VERIF, stdout=subprocess.PIPE, stderr=subprocess.STDOUT, text=True)
        viol = [l for l in c.stdout.splitlines() if "violation:" in l or l.startswith("UNDECIDED")]
        st = "FALSE-ALARM" if any("violation:" in l for l in viol) else ("undecided" if viol else "silent")
        return name, st + extra, "\n".join(l[:260] for l in viol[:6])
    finally:
        shutil.rmtree(tmp, ignore_errors=True)
files = sorted(f for f in glob.glob(os.path.join(HERE, "benign", "*.patch")) if not names or os.path.basename(f)[:-6] in names)
bad = 0
with ThreadPoolExecutor(max_workers=6) as ex:
    for name, st, detail in ex.map(one, files):
        print("benign %-40s %s" % (name, st))
        if not st.startswith("silent"):
            bad += 1; print(detail)
print("%d benign variants, %d not silent" % (len(files), bad))
sys.exit(1 if bad else 0)
