#!/usr/bin/env python3
"""Runs seeded variants: each patch is applied to a scratch copy of /repo (outside /repo and /verif),
the property's check is run against the copy, and the report must name the expected instance.
usage: run_controls.py [--prop Cxx] [--names a,b] [--tests]   (--tests also runs the repo's test suite on the variant)
Exit 0 if every selected control is caught (or skipped because the patch no longer applies)."""
import json, os, shutil, subprocess, sys, tempfile
from concurrent.futures import ThreadPoolExecutor
HERE = os.path.dirname(os.path.abspath(__file__))
VERIF = os.path.dirname(HERE)
REPO = os.environ.get("VERIF_REPO", "/repo")


def run_one(name, meta, tests=False, tier="quick"):
    tmp = tempfile.mkdtemp(prefix="ctl-%s-" % name)
    try:
        work = os.path.join(tmp, "repo")
        subprocess.check_call(["rsync", "-a", "--exclude", "target", "--exclude", ".git", REPO + "/", work + "/"])
        p = subprocess.run(["patch", "-p1", "-s", "-i", os.path.join(HERE, "patches", name + ".patch")], cwd=work,
                           stdout=subprocess.PIPE, stderr=subprocess.STDOUT, text=True)
        if p.returncode != 0:
            return name, "skipped", "patch no longer applies: " + p.stdout.strip()[:200]
        res = {}
        if tests:
            env = dict(os.environ, CARGO_TARGET_DIR=os.path.join(tmp, "tgt"), CARGO_NET_OFFLINE="true")
            t = subprocess.run(["cargo", "test", "--offline", "--lib", "--quiet"], cwd=work, env=env,
                               stdout=subprocess.PIPE, stderr=subprocess.STDOUT, text=True)
            res["tests_exit"] = t.returncode
            res["tests_tail"] = t.stdout[-400:]
        props = meta["property"].split(",")
        outs = []
        caught = False
        for prop in props:
            c = subprocess.run([os.path.join(VERIF, "check"), prop, "--repo", work, "--tier", tier], cwd=VERIF,
                               stdout=subprocess.PIPE, stderr=subprocess.STDOUT, text=True)
            outs.append(c.stdout)
            if c.returncode == 1 and "VIOLATION property=%s" % prop in c.stdout and meta["expect"] in c.stdout:
                caught = True
            # a control registered as "undecided": the variant is wrong, but what the rules see of it is only new code they cannot
            # judge -- the honest outcome is exit 2 naming the site, and no VIOLATION line
            if meta.get("undecided") and c.returncode == 2 and "VIOLATION" not in c.stdout and meta["expect"] in c.stdout:
                caught = True
        status = ("caught" if not meta.get("undecided") else "caught (undecided, as registered)") if caught else "MISSED"
        if tests and res.get("tests_exit") != 0 and not meta.get("tests_fail_expected"):
            status += " (tests FAIL on variant)"
        return name, status, "\n".join(outs)[-1500:] if not caught else "", res
    finally:
        shutil.rmtree(tmp, ignore_errors=True)


def main():
    args = sys.argv[1:]
    prop = None; names = None; tests = False; tier = "quick"
    i = 0
    while i < len(args):
        if args[i] == "--prop": prop = args[i+1]; i += 2
        elif args[i] == "--names": names = args[i+1].split(","); i += 2
        elif args[i] == "--tests": tests = True; i += 1
        elif args[i] == "--tier": tier = args[i+1]; i += 2
        else: sys.exit("bad arg " + args[i])
    reg = json.load(open(os.path.join(HERE, "controls.json")))
    sel = {n: m for n, m in reg.items() if (prop is None or prop in m["property"].split(",")) and (names is None or n in names)}
    bad = 0
    with ThreadPoolExecutor(max_workers=int(os.environ.get("CTL_JOBS", "8"))) as ex:
        for r in ex.map(lambda kv: run_one(kv[0], kv[1], tests, tier), sorted(sel.items())):
            name, status, detail = r[0], r[1], r[2]
            print("control %-40s %s" % (name, status))
            if status.startswith("MISSED") or "FAIL" in status:
                bad += 1
                print(detail)
                if len(r) > 3 and r[3].get("tests_tail"): print(r[3]["tests_tail"])
            elif status == "skipped":
                print("   ", detail)
    print("%d controls, %d not caught" % (len(sel), bad))
    return 1 if bad else 0


if __name__ == "__main__":
    sys.exit(main())
