// KF1 (C08.R5): `Serializable` is a safe trait, so this program contains no `unsafe` and still corrupts the heap.
// Copy to <scratch copy>/tests/kf1_demo.rs and run `cargo test --offline --test kf1_demo`: the process aborts with
// "free(): double free detected" (or crashes) when both values are dropped.
#![forbid(unsafe_code)]
use simple_sds::serialize::{Serializable, Serialize};

#[derive(Default)]
struct Owner(Option<Box<u64>>);

impl Serializable for Owner {}

#[test]
fn kf1_safe_code_double_free() {
    let original = Owner(Some(Box::new(42)));
    let mut bytes: Vec<u8> = Vec::new();
    original.serialize(&mut bytes).unwrap();          // writes the Box pointer
    let copy = Owner::load(&mut &bytes[..]).unwrap(); // a second owner of the same allocation
    assert_eq!(**copy.0.as_ref().unwrap(), 42);
    drop(original);
    drop(copy);                                        // double free
}
