// Demonstrations of the defects D1-D9 (DESIGN.md section 5) against the real code.
// Not part of any check: this file documents, with concrete inputs, that the violations the static
// rules report on the pinned tree are genuine. Run it by copying it to <scratch copy>/tests/defects_demo.rs
// and `cargo test --offline --test defects_demo`; every test fails (or aborts) on the pinned tree
// and passes after the corresponding "fix:" commit.
use simple_sds::bit_vector::BitVector;
use simple_sds::ops::*;
use simple_sds::raw_vector::{RawVector, PushRaw};
use simple_sds::rl_vector::{RLBuilder, RLVector};
use simple_sds::serialize::{self, MappingMode, MemoryMap, Serialize};
use simple_sds::wavelet_matrix::WaveletMatrix;
use simple_sds::wavelet_matrix::wm_core::WMCore;
use std::fs;

fn bv200() -> BitVector {
    let mut raw = RawVector::new();
    for i in 0..200 { raw.push_bit(i % 40 == 39 || i == 0); }
    let mut bv = BitVector::from(raw);
    bv.enable_rank(); bv.enable_select(); bv.enable_select_zero();
    bv
}

#[test]
fn d1_one_iter_nth_max() {
    let bv = bv200();
    let mut it = bv.one_iter();
    it.next();
    assert_eq!(it.nth(usize::MAX), None);
    assert_eq!(it.next(), None);
}

#[test]
fn d2_bitvector_predecessor_max() {
    let bv = bv200();
    let a: Vec<_> = bv.predecessor(usize::MAX).collect();
    let b: Vec<_> = bv.predecessor(bv.len() - 1).collect();
    assert_eq!(a, b);
    assert!(!b.is_empty());
}

#[test]
fn d3_vector_index_predecessor_max() {
    let wm = WaveletMatrix::from(vec![1u64, 0, 1, 3, 1]);
    let a: Vec<_> = wm.predecessor(usize::MAX, 1).collect();
    let b: Vec<_> = wm.predecessor(wm.len() - 1, 1).collect();
    assert_eq!(a, b);
    assert!(!b.is_empty());
}

#[test]
fn d4_wavelet_matrix_select_max() {
    let wm = WaveletMatrix::from(vec![1u64, 0, 1, 3, 1]);
    assert_eq!(wm.select(usize::MAX, 3), None);
}

#[test]
fn d5_wm_core_map_up_small_index() {
    let core = WMCore::from(vec![1u64, 0, 1, 3, 1]);
    // index 0 is in the zeros partition of the last level; asking for a value with the low bit set must be None
    assert_eq!(core.map_up_with(0, 1), None);
}

#[test]
fn d6_munmap_whole_mapping() {
    let name = serialize::temp_file_name("d6");
    let v: Vec<u64> = vec![7; 1 << 20]; // 8 MiB + 8 bytes
    serialize::serialize_to(&v, &name).unwrap();
    let fname = name.to_str().unwrap().to_string();
    let map = MemoryMap::new(&name, MappingMode::ReadOnly).unwrap();
    drop(map);
    let maps = fs::read_to_string("/proc/self/maps").unwrap();
    let still: Vec<&str> = maps.lines().filter(|l| l.contains(&fname)).collect();
    fs::remove_file(&name).unwrap();
    assert!(still.is_empty(), "still mapped after drop: {:?}", still);
}

#[test]
fn d7_empty_file_is_refused() {
    let name = serialize::temp_file_name("d7");
    fs::write(&name, b"").unwrap();
    let r = MemoryMap::new(&name, MappingMode::ReadOnly);
    let is_err = r.is_err();
    drop(r);
    fs::remove_file(&name).unwrap();
    assert!(is_err, "mapping an empty file must fail (mmap returns MAP_FAILED/EINVAL)");
}

#[test]
fn d8_skip_option_truncated() {
    let some: Option<Vec<u64>> = Some(vec![1, 2, 3, 4, 5]);
    let mut bytes: Vec<u8> = Vec::new();
    some.serialize(&mut bytes).unwrap();
    assert_eq!(bytes.len(), 56);
    bytes.truncate(24);
    let mut reader = &bytes[..];
    assert!(serialize::skip_option(&mut reader).is_err());
}

#[test]
fn d9_rl_builder_set_len_then_set() {
    let mut b = RLBuilder::new();
    b.set_len(5);
    b.try_set(5, 3).unwrap();
    let rl = RLVector::from(b);
    let runs: Vec<(usize, usize)> = rl.run_iter().collect();
    assert_eq!(runs, vec![(5, 3)]);
}

#[test]
fn d10_int_vector_mapper_offset_max() {
    use simple_sds::int_vector::{IntVector, IntVectorMapper};
    use simple_sds::serialize::MemoryMapped;
    let name = serialize::temp_file_name("d10");
    let v = IntVector::from(vec![1u64, 2, 3]);
    serialize::serialize_to(&v, &name).unwrap();
    let map = MemoryMap::new(&name, MappingMode::ReadOnly).unwrap();
    let r = std::panic::catch_unwind(|| IntVectorMapper::new(&map, usize::MAX).is_err());
    drop(map);
    fs::remove_file(&name).unwrap();
    assert_eq!(r.ok(), Some(true), "offset usize::MAX must be refused with an error, not a panic");
}

// D11: the rounding helpers panicked (debug) at the last value their documentation admits:
// `May panic if n + 7 > usize::MAX` (n + 63 for bits), but the code added 8 (64) before subtracting 1.
#[test]
fn d11_rounding_helpers_last_documented_value() {
    use simple_sds::bits;
    assert_eq!(bits::bytes_to_words(usize::MAX - 7), usize::MAX / 8);
    assert_eq!(bits::bits_to_words(usize::MAX - 63), usize::MAX / 64);
    assert_eq!(bits::round_up_to_word_bytes(usize::MAX - 7), usize::MAX - 7);
    assert_eq!(bits::round_up_to_word_bits(usize::MAX - 63), usize::MAX - 63);
}
