#!/usr/bin/env python3
"""Generates MANIFEST.json from the rule modules that exist (their META) and the fixed not-applicable table."""
import importlib, json, os, sys
HERE = os.path.dirname(os.path.abspath(__file__))
VERIF = os.path.dirname(HERE)
sys.path.insert(0, os.path.join(VERIF, "engine", "rules"))

NA = {
    "C02": "Elias-Fano answers are arithmetic on runtime values (shifts, bucket walks, rank/select composition); no dataflow/typestate/effect analysis in reach decides them and solver-backed path exploration is another technique family. Totality/memory-safety/format/builder aspects are decided under C09/C08/C07/C16.",
    "C03": "Run-length decode/scan answers are arithmetic on runtime values (code-unit decoding, block search, running ranks); not decidable by static analysis in reach. Totality/format/builder aspects are decided under C09/C07/C16.",
    "C04": "Wavelet-matrix answers are compositions of per-level rank/select on runtime data; value correctness is not a shape-of-code fact. Totality of the queries is decided under C09, format under C07/C06.",
    "C15": "Multiset semantics (first/last occurrence, overfull universes) are properties of returned numbers over runtime data; no sound static argument in reach. Builder error-path purity is decided under C16.",
}
PENDING = "pending: the rule module for this property is not built yet in this tree (see DESIGN.md section 9 build order)"
ALL = ["C%02d" % i for i in range(1, 21)]

TECH = {}

def main():
    checks = []
    na = []
    for p in ALL:
        if p in NA:
            na.append({"property_id": p, "reason": NA[p]})
            continue
        try:
            mod = importlib.import_module(p.lower())
        except ImportError:
            na.append({"property_id": p, "reason": PENDING})
            continue
        m = mod.META
        checks.append({
            "property_id": p,
            "quick_cmd": "./check %s --tier quick" % p,
            "thorough_cmd": "./check %s --tier thorough" % p,
            "evidence_file": "/verif/evidence/%s.json" % p,
            "replay_cmd_template": "./check %s --explain {path}" % p,
            "engine": "mirfacts+rules",
            "level_claimed": {
                "category": m.get("level", "other"),
                "text": m["level_text"] if "level_text" in m else m["explanation"],
                "design_ref": "DESIGN.md section 4, %s" % p,
            },
            "level_note": "; ".join(m.get("trusted_base", []) + m.get("assumptions", [])) or "rustc's MIR faithfully represents the source",
            "technique": m.get("technique", "static analysis: custom MIR rules over the type-checked program (rustc_private driver)") +
                         "; crate-wide zero-count dataflow rules W1-W8 on the property's anchored files and the storage they are built on (cast, taint and adaptor dataflow over MIR)" +
                         ("; size formulas decided by abstract interpretation over residues of the length, branching helpers followed path by path (A13)" if p in ("C01", "C05", "C06", "C07", "C08", "C11", "C12", "C13", "C14", "C16", "C17", "C18", "C19") else "") +
                         ("; bit-provenance domain for bit permutations (A14)" if p == "C17" else "") +
                         "; rules of the structures this property rests on borrowed under its own ids (raw-vector invariants, tables, select / rank store-read agreement); private renames mapped back to the pinned names before analysis",
        })
    man = {
        "version": 1,
        "setup_cmd": "cd /verif/engine/mirfacts && CARGO_NET_OFFLINE=true cargo build --release --offline",
        "hooks": {
            "guard": "simple_sds_verif",
            "enable": "none needed: the analysis reads /repo's MIR through a rustc_private driver; no source in /repo uses the guard (--cfg simple_sds_verif is reserved and unused)",
            "baseline_off_cmd": "cd /repo && cargo test --workspace --no-fail-fast --offline",
            "source_commits": [],
            "add_only": True,
        },
        "engines": [
            {"name": "mirfacts", "path": "engine/mirfacts", "serves_properties": [c["property_id"] for c in checks],
             "kind_free_text": "rustc_private driver (nightly, zero deps) dumping MIR with resolved callees, item structure and evaluated constants of /repo's current tree as JSON; injected with RUSTC_WORKSPACE_WRAPPER under cargo +nightly check in a fresh target dir"},
            {"name": "rules", "path": "engine/rules", "serves_properties": [c["property_id"] for c in checks],
             "kind_free_text": "python3 rule engine: term reconstruction, dominance guards, must-pass-through, co-mutation, per-path effects, twin isomorphism, constant tables, format-document parser"},
        ],
        "checks": checks,
        "not_applicable": na,
        "notes": "Exit codes: 0 decided/holds, 1 violation (VIOLATION line), 2 undecided (lost anchor / below floor / an obligation at a site that is not on the pinned tree -- engine/rules/baseline_obligations.json -- or of a construction a rule cannot read, neither established nor refuted; never a VIOLATION line). A failed obligation is a violation when it regresses something discharged on the pinned tree or is a positively identified bad construct. Known findings: known_findings.json (exact keys).",
    }
    with open(os.path.join(VERIF, "MANIFEST.json"), "w") as f:
        json.dump(man, f, indent=1)
        f.write("\n")
    print("claimed:", [c["property_id"] for c in checks])
    print("n/a or pending:", [n["property_id"] for n in na])

main()
