#!/usr/bin/env python3
"""Developer helper: print the (normalised) MIR body of a function from a tree.  usage: showbody.py REPO CONFIG NAME-SUBSTRING [--raw]"""
import os, sys, pickle, hashlib
sys.path.insert(0, os.path.join(os.path.dirname(os.path.abspath(__file__)), "..", "engine", "rules"))
from facts import run_driver, Facts, print_body
repo, cfg, pat = sys.argv[1], sys.argv[2], sys.argv[3]
if "--raw" in sys.argv:
    os.environ["VERIF_NO_INLINE"] = "1"
F = Facts(run_driver(cfg, repo=repo))
for name in sorted(F.bodies):
    if pat in name:
        for b in [F.body(name)]:
            print("=====", name)
            print_body(b.raw)
