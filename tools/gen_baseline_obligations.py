#!/usr/bin/env python3
"""Regenerates engine/rules/baseline_obligations.json: for every claimed property, the obligation keys that are discharged on the
pinned tree (/repo as committed), quick and thorough tier (the tiers differ by configuration tags).  A failed obligation whose key is
in this table is a regression; one whose key is not is a new site (see core.run_check).  Run after changing rules or after a fix:
commit to /repo, with /repo clean."""
import json, os, subprocess, sys
HERE = os.path.dirname(os.path.abspath(__file__)); VERIF = os.path.dirname(HERE)
sys.path.insert(0, os.path.join(VERIF, "engine", "rules"))
os.environ["VERIF_NO_SELFTEST"] = "1"
os.environ["VERIF_NO_BASELINE"] = "1"
import importlib, core
st = subprocess.check_output(["git", "-C", "/repo", "status", "--porcelain", "--", "src"], text=True)
if st.strip():
    sys.exit("refusing: /repo has uncommitted changes under src/")
man = json.load(open(os.path.join(VERIF, "MANIFEST.json")))
props = sorted(c["property_id"] for c in man["checks"])
out = {}
pre = {}
for tier in ("quick", "thorough"):
    for p in props:
        mod = importlib.import_module(p.lower())
        code, ctx, _ = core.run_check(p, mod.check, tier, mod.META, preloaded=pre, quiet=True)
        pre.update(ctx._facts)
        keys = out.setdefault(p, set())
        keys.update(o.key for o in ctx.obs if o.ok)
        out.setdefault("_sites:" + p, set()).update(ctx.sites_seen)
        print(p, tier, "exit", code, len(keys), "keys")
json.dump({p: sorted(v) for p, v in out.items()}, open(os.path.join(VERIF, "engine", "rules", "baseline_obligations.json"), "w"), indent=0)
