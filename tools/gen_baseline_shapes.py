#!/usr/bin/env python3
"""Fingerprints of the pinned tree's functions (engine/rules/baseline_shapes.json), used to recognise pure renames.  /repo must be clean."""
import json, os, subprocess, sys
HERE = os.path.dirname(os.path.abspath(__file__)); VERIF = os.path.dirname(HERE)
sys.path.insert(0, os.path.join(VERIF, "engine", "rules"))
if subprocess.run(["git", "-C", "/repo", "status", "--porcelain"], stdout=subprocess.PIPE, text=True).stdout.strip():
    sys.exit("/repo is not clean")
from facts import run_driver
import renames
out = {}
for cfg in ("native", "portable", "native-rel", "portable-rel"):
    out[cfg] = {}
    data = run_driver(cfg, repo="/repo")
    fns = {f["def"]: f for f in data["fns"]}
    seen = {}
    for b in data["bodies"]:
        seen.setdefault(b["def"], []).append(b)
    for n, bs in seen.items():
        if len(bs) == 1 and "{closure" not in n and "{constant" not in n:
            out[cfg][n] = renames.fingerprint(bs[0], fns.get(n))
json.dump(out, open(os.path.join(VERIF, "engine", "rules", "baseline_shapes.json"), "w"), indent=0, sort_keys=True)
json.dump({f["def"]: f.get("sig", "") for f in data["fns"]}, open(os.path.join(VERIF, "engine", "rules", "baseline_sigs.json"), "w"), indent=0, sort_keys=True)
json.dump({a["def"]: [[f["name"], f["ty"].get("s")] for f in a["variants"][0]["fields"]] for a in data["adts"] if a.get("kind") == "Struct" and len(a["variants"]) == 1},
          open(os.path.join(VERIF, "engine", "rules", "baseline_adts.json"), "w"), indent=0, sort_keys=True)
json.dump({c["def"]: [c.get("ty"), c.get("value"), sorted(set(b["def"] for b in data["bodies"] if json.dumps(c["def"]) in json.dumps(b)))] for c in data["consts"]}, open(os.path.join(VERIF, "engine", "rules", "baseline_consts.json"), "w"), indent=0, sort_keys=True)
json.dump({c["def"]: [c["ty"].get("s"), bool(c.get("mut")), sorted(set(b["def"] for b in data["bodies"] if json.dumps(c["def"]) in json.dumps(b)))] for c in data["statics"]}, open(os.path.join(VERIF, "engine", "rules", "baseline_statics.json"), "w"), indent=0, sort_keys=True)
print("fingerprinted", {k: len(v) for k, v in out.items()})
